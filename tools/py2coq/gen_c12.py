"""py2coq plug-in for C12 / C13: the bookkeeping sigpyproc adds around the (external) FFT.

Gen/FftOps.v         kernels.fftconvolve, TimeSeries.rfft, TimeSeries.correlate, FourierSeries.ifft, kernels.form_mspec   (C12)
Gen/MatchedFilter.v  kernels.convolve_templates, kernels.normalize_template, MatchedFilter._compute, template ref bins     (C13)

Everything is read from the Python `ast` of /repo's CURRENT sources.  The functions are translated statement by statement
into Gallina over lists of Z (Model/C12_np.v gives the NumPy list semantics: len, np_slice, np_rev, np_roll, np_zeros,
np_assign_prefix, pad, np_irfft_default_len); the FFT itself stays external: `good_size`, `rfft`, `irfft`, `smul`
(product of spectra) and `slen` (number of bins of a spectrum) are Section variables of the generated file.  So a slice
bound, the n_good expression, a roll amount, a reversal, the operand that is reversed, or the length handed to the inverse
transform all appear verbatim in the generated text, and a change of any of them changes the term the theorems are about.

Fail closed: any statement or expression outside the small subset below raises `Unsupported`, the definition is replaced by
a comment, and whatever depends on it stops compiling.

Typing: every name has one of the types  Z (int) | L (real 1-D array = list Z) | S (spectrum) | LL (list of arrays) | LZ (list of int).
"""
from __future__ import annotations

import ast


class Unsupported(Exception):
    pass


RESERVED = {"in", "at", "end", "fun", "mod", "as", "Type", "Set", "Prop", "len", "pad", "rev", "map", "nth"}


def ident(n):
    return n + "_" if n in RESERVED else n


def _strip_doc(body):
    if body and isinstance(body[0], ast.Expr) and isinstance(body[0].value, ast.Constant) and isinstance(body[0].value.value, str):
        return body[1:]
    return body


def _find_fn(repo, rel, name, cls=None):
    mod = ast.parse(open(f"{repo}/{rel}").read())
    scope = mod.body
    if cls is not None:
        c = [n for n in mod.body if isinstance(n, ast.ClassDef) and n.name == cls]
        if len(c) != 1:
            raise Unsupported(f"class {cls} not found in {rel}")
        scope = c[0].body
    f = [n for n in scope if isinstance(n, ast.FunctionDef) and n.name == name]
    if len(f) != 1:
        raise Unsupported(f"{cls + '.' if cls else ''}{name} not found (or defined twice) in {rel}")
    return f[0]


def _kw(call, allowed):
    """keyword arguments of a call as {name: source}; anything not in `allowed` is refused"""
    out = {}
    for k in call.keywords:
        if k.arg is None or k.arg not in allowed:
            raise Unsupported("keyword argument in " + ast.unparse(call))
        out[k.arg] = ast.unparse(k.value)
    return out


class Tr:
    """typed expression / statement translator for straight-line array code"""

    def __init__(self, env, attr=None, calls=None):
        self.env = dict(env)          # python name -> type
        self.attr = attr or {}        # "self.data" -> (coq text, type)
        self.calls = calls or {}      # python callee text -> handler(self, call) -> (text, type)
        self.notes = []               # recorded preconditions / skipped guards

    # ---- expressions ---------------------------------------------------------------------------
    def ex(self, e):
        if isinstance(e, ast.Constant):
            if isinstance(e.value, bool) or not isinstance(e.value, int):
                raise Unsupported(f"constant {e.value!r}")
            return (str(e.value) if e.value >= 0 else f"({e.value})"), "Z"
        if isinstance(e, ast.Name):
            if e.id not in self.env:
                raise Unsupported(f"unknown name {e.id}")
            return ident(e.id), self.env[e.id]
        if isinstance(e, ast.Attribute):
            txt = ast.unparse(e)
            if txt in self.attr:
                return self.attr[txt]
            raise Unsupported(f"attribute {txt}")
        if isinstance(e, ast.UnaryOp) and isinstance(e.op, ast.USub):
            v, t = self.ex(e.operand)
            if t != "Z":
                raise Unsupported("negation of " + t)
            return f"(- {v})", "Z"
        if isinstance(e, ast.BinOp):
            (l, tl), (r, tr) = self.ex(e.left), self.ex(e.right)
            op = type(e.op)
            if tl == tr == "Z" and op in (ast.Add, ast.Sub, ast.Mult, ast.FloorDiv, ast.Mod):
                s = {ast.Add: "+", ast.Sub: "-", ast.Mult: "*", ast.FloorDiv: "/", ast.Mod: "mod"}[op]
                return f"({l} {s} {r})", "Z"
            if tl == tr == "S" and op is ast.Mult:
                return f"(smul {l} {r})", "S"
            raise Unsupported(f"binary {op.__name__} on {tl},{tr}: " + ast.unparse(e))
        if isinstance(e, ast.Subscript):
            v, t = self.ex(e.value)
            s = e.slice
            if isinstance(s, ast.Slice):
                if t != "L":
                    raise Unsupported("slice of " + t)
                if s.step is not None:
                    if (s.lower is None and s.upper is None and isinstance(s.step, ast.UnaryOp) and isinstance(s.step.op, ast.USub)
                            and isinstance(s.step.operand, ast.Constant) and s.step.operand.value == 1):
                        return f"(np_rev {v})", "L"
                    raise Unsupported("slice step " + ast.unparse(e))
                lo = ("0", "Z") if s.lower is None else self.ex(s.lower)
                hi = (f"(len {v})", "Z") if s.upper is None else self.ex(s.upper)
                if lo[1] != "Z" or hi[1] != "Z":
                    raise Unsupported("slice bounds " + ast.unparse(e))
                return f"(np_slice {v} {lo[0]} {hi[0]})", "L"
            i, ti = self.ex(s)
            if ti != "Z":
                raise Unsupported("index " + ast.unparse(e))
            if t == "LL":
                return f"(nth (Z.to_nat {i}) {v} [])", "L"
            if t == "LZ":
                return f"(nth (Z.to_nat {i}) {v} 0)", "Z"
            raise Unsupported("scalar subscript of " + t + ": " + ast.unparse(e))
        if isinstance(e, ast.Call):
            f = ast.unparse(e.func)
            if f in self.calls:
                return self.calls[f](self, e)
            if f == "len" and len(e.args) == 1 and not e.keywords:
                v, t = self.ex(e.args[0])
                if t in ("L", "LL", "LZ"):
                    return f"(len {v})", "Z"
                if t == "S":
                    return f"(slen {v})", "Z"
                raise Unsupported("len of " + t)
            if f in ("nb_fft_good_size", "kernels.nb_fft_good_size"):
                kw = _kw(e, {"real"})
                if len(e.args) != 1 or kw.get("real") != "True":
                    raise Unsupported("good size must be requested for a real transform: " + ast.unparse(e))
                v, t = self.ex(e.args[0])
                if t != "Z":
                    raise Unsupported("good size of " + t)
                return f"(good_size {v})", "Z"
            if f == "np.fft.rfft" and not e.keywords and len(e.args) in (1, 2):
                a, ta = self.ex(e.args[0])
                if ta != "L":
                    raise Unsupported("rfft of " + ta)
                if len(e.args) == 1:
                    return f"(rfft {a} (len {a}))", "S"      # NumPy: n defaults to the input length
                n, tn = self.ex(e.args[1])
                if tn != "Z":
                    raise Unsupported("rfft length")
                return f"(rfft {a} {n})", "S"
            if f == "np.fft.irfft" and not e.keywords and len(e.args) in (1, 2):
                a, ta = self.ex(e.args[0])
                if ta != "S":
                    raise Unsupported("irfft of " + ta)
                if len(e.args) == 1:
                    return f"(irfft {a} (np_irfft_default_len (slen {a})))", "L"   # NumPy: n defaults to 2*(m-1)
                n, tn = self.ex(e.args[1])
                if tn != "Z":
                    raise Unsupported("irfft length")
                return f"(irfft {a} {n})", "L"
            if f == "np.zeros" and len(e.args) == 1:
                _kw(e, {"dtype"})
                n, tn = self.ex(e.args[0])
                if tn != "Z":
                    raise Unsupported("np.zeros shape")
                return f"(np_zeros {n})", "L"
            if f == "np.zeros_like" and len(e.args) == 1 and not e.keywords:
                a, ta = self.ex(e.args[0])
                if ta != "L":
                    raise Unsupported("zeros_like of " + ta)
                return f"(np_zeros (len {a}))", "L"
            if f == "np.conj" and len(e.args) == 1 and not e.keywords:
                a, ta = self.ex(e.args[0])
                if ta != "L":
                    raise Unsupported("conj of " + ta)
                self.notes.append("np.conj of a real (float32) array is the identity")
                return a, "L"
            if f == "np.roll" and len(e.args) == 2 and not e.keywords:
                a, ta = self.ex(e.args[0])
                s, ts = self.ex(e.args[1])
                if ta != "L" or ts != "Z":
                    raise Unsupported("np.roll arguments")
                return f"(np_roll {a} {s})", "L"
            raise Unsupported("call " + ast.unparse(e)[:80])
        raise Unsupported(ast.unparse(e)[:80])

    def bex(self, e):
        if isinstance(e, ast.BoolOp):
            op = "||" if isinstance(e.op, ast.Or) else "&&"
            return "(" + f" {op} ".join(self.bex(v) for v in e.values) + ")"
        if isinstance(e, ast.Compare) and len(e.ops) == 1:
            (l, tl), (r, tr) = self.ex(e.left), self.ex(e.comparators[0])
            if tl != "Z" or tr != "Z":
                raise Unsupported("comparison of " + tl + "," + tr)
            t = type(e.ops[0])
            ops = {ast.Eq: "=?", ast.Lt: "<?", ast.LtE: "<=?", ast.Gt: ">?", ast.GtE: ">=?"}
            if t in ops:
                return f"({l} {ops[t]} {r})"
            if t is ast.NotEq:
                return f"(negb ({l} =? {r}))"
        raise Unsupported("condition " + ast.unparse(e))

    # ---- statements ----------------------------------------------------------------------------
    def block(self, stmts, ind=1, ret_type="L", guards=()):
        """nested lets ending in the returned expression.  `guards`: source texts of `if ...: raise` tests that are
        accepted as recorded preconditions (anything else that raises is refused)."""
        pad = "  " * ind
        if not stmts:
            raise Unsupported("function does not end in a return")
        s, rest = stmts[0], stmts[1:]
        if isinstance(s, ast.Return):
            if rest:
                raise Unsupported("code after return")
            v, t = self.ex(s.value)
            if t != ret_type:
                raise Unsupported(f"returns {t}, expected {ret_type}")
            return pad + v
        if isinstance(s, ast.Assign) and len(s.targets) == 1 and isinstance(s.targets[0], ast.Name):
            name = s.targets[0].id
            if isinstance(s.value, ast.Constant) and isinstance(s.value.value, str):   # msg = "..."
                return self.block(rest, ind, ret_type, guards)
            v, t = self.ex(s.value)
            if name in self.env and self.env[name] != t:
                raise Unsupported(f"{name} changes type {self.env[name]} -> {t}")
            self.env[name] = t
            return f"{pad}let {ident(name)} := {v} in\n" + self.block(rest, ind, ret_type, guards)
        if isinstance(s, ast.Assign) and len(s.targets) == 1 and isinstance(s.targets[0], ast.Subscript):
            # a[:len(k)] = k   (prefix assignment)
            t = s.targets[0]
            if (isinstance(t.value, ast.Name) and isinstance(t.slice, ast.Slice) and t.slice.lower is None and t.slice.step is None
                    and t.slice.upper is not None and isinstance(s.value, ast.Name)
                    and ast.unparse(t.slice.upper) == f"len({s.value.id})"):
                a, ta = self.ex(t.value)
                v, tv = self.ex(s.value)
                if ta != "L" or tv != "L":
                    raise Unsupported("prefix assignment types")
                return f"{pad}let {a} := np_assign_prefix {a} {v} in\n" + self.block(rest, ind, ret_type, guards)
            raise Unsupported("store " + ast.unparse(s)[:80])
        if isinstance(s, ast.If) and not s.orelse:
            body = [b for b in s.body if not (isinstance(b, ast.Assign) and isinstance(b.value, ast.Constant) and isinstance(b.value.value, str))]
            if len(body) == 1 and isinstance(body[0], ast.Raise):
                test = ast.unparse(s.test)
                if test in guards:
                    self.notes.append(f"guard `{test}` raises {ast.unparse(body[0].exc)[:40]}: recorded as a precondition")
                    return self.block(rest, ind, ret_type, guards)
                raise Unsupported("unrecognised raising guard: " + test)
            if len(body) == 1 and isinstance(body[0], ast.Return):
                v, t = self.ex(body[0].value)
                if t != ret_type:
                    raise Unsupported("early return type")
                return f"{pad}if {self.bex(s.test)} then {v} else\n" + self.block(rest, ind, ret_type, guards)
        raise Unsupported("statement " + type(s).__name__ + ": " + ast.unparse(s)[:80])


HEADER = """(* GENERATED by tools/py2coq/gen_c12.py from %s -- do not edit *)
From Coq Require Import ZArith List Bool.
Require Import SPP.Base.Rt SPP.Model.C12_np.
Import ListNotations.
Open Scope Z_scope.
"""

SECTION_VARS = """Variable F : fft_ops.                  (* the external transform, Model/C12_np.v *)
Local Notation S := (fft_spec F).             (* spectra *)
Local Notation good_size := (fft_good_size F).   (* rocket_fft.good_size(n, real=True) *)
Local Notation rfft := (fft_rfft F).          (* np.fft.rfft(a, n) *)
Local Notation irfft := (fft_irfft F).        (* np.fft.irfft(s, n) *)
Local Notation smul := (fft_smul F).          (* element-wise product of two spectra *)
Local Notation slen := (fft_slen F).          (* number of bins of a spectrum *)
"""


def _decorated_njit(fn):
    d = " ".join(ast.unparse(x) for x in fn.decorator_list)
    if "njit" not in d:
        raise Unsupported(f"{fn.name}: expected an njit kernel, decorators: {d}")


def _params(fn, expected):
    a = fn.args
    if a.vararg or a.kwarg or a.kwonlyargs or a.posonlyargs:
        raise Unsupported(f"{fn.name}: unusual signature")
    names = [x.arg for x in a.args]
    if names != expected:
        raise Unsupported(f"{fn.name}: parameters {names}, expected {expected}")
    return names


def _wrapper_is(repo, name, body_src):
    """kernels.<name> must be the one-line wrapper `return <body_src>`"""
    fn = _find_fn(repo, "sigpyproc/core/kernels.py", name)
    body = _strip_doc(fn.body)
    if len(body) != 1 or not isinstance(body[0], ast.Return) or ast.unparse(body[0].value) != body_src:
        raise Unsupported(f"kernels.{name} is no longer `return {body_src}`")
    return [x.arg for x in fn.args.args]


def gen_fftconvolve(repo):
    fn = _find_fn(repo, "sigpyproc/core/kernels.py", "fftconvolve")
    _decorated_njit(fn)
    _params(fn, ["in1", "in2"])
    tr = Tr({"in1": "L", "in2": "L"})
    body = tr.block(_strip_doc(fn.body), guards=("in1.ndim != 1 or in2.ndim != 1",))
    notes = "".join(f"(* {n} *)\n" for n in tr.notes)
    return f"(* from kernels.fftconvolve *)\n{notes}Definition fftconvolve_run (in1 in2 : list Z) : list Z :=\n{body}.\n"


def _skip_callable_preamble(stmts, var, default):
    """`if <var> is None: <var> = <default>` ; `if not callable(<var>): msg = ...; raise TypeError(msg)`"""
    if len(stmts) < 2:
        raise Unsupported("method preamble missing")
    a, b = stmts[0], stmts[1]
    if not (isinstance(a, ast.If) and ast.unparse(a.test) == f"{var} is None" and len(a.body) == 1 and not a.orelse
            and ast.unparse(a.body[0]) == f"{var} = {default}"):
        raise Unsupported(f"default transform is no longer `{var} = {default}`")
    if not (isinstance(b, ast.If) and ast.unparse(b.test) == f"not callable({var})" and not b.orelse
            and isinstance(b.body[-1], ast.Raise)):
        raise Unsupported("callable check changed")
    return stmts[2:]


def gen_ts_rfft(repo):
    """TimeSeries.rfft -> (spectrum, header nsamples)"""
    fn = _find_fn(repo, "sigpyproc/timeseries.py", "rfft", "TimeSeries")
    _params(fn, ["self", "fftn"])
    stmts = _skip_callable_preamble(_strip_doc(fn.body), "fftn", "kernels.nb_rfft")
    if _wrapper_is(repo, "nb_rfft", "np.fft.rfft(arr, n)") != ["arr", "n"]:
        raise Unsupported("kernels.nb_rfft signature changed")
    ns = _find_fn(repo, "sigpyproc/timeseries.py", "nsamples", "TimeSeries")
    if ast.unparse(_strip_doc(ns.body)[0]) != "return len(self.data)":
        raise Unsupported("TimeSeries.nsamples is no longer len(self.data)")

    def fftn(tr, call):
        if len(call.args) != 2 or call.keywords:
            raise Unsupported("fftn call form: " + ast.unparse(call))
        a, ta = tr.ex(call.args[0])
        n, tn = tr.ex(call.args[1])
        if ta != "L" or tn != "Z":
            raise Unsupported("fftn argument types")
        return f"(rfft {a} {n})", "S"
    tr = Tr({}, attr={"self.data": ("data", "L"), "self.nsamples": ("(len data)", "Z")}, calls={"fftn": fftn})
    out = []
    hdr = None
    ret = None
    for s in stmts:
        if isinstance(s, ast.Assign) and len(s.targets) == 1 and isinstance(s.targets[0], ast.Name):
            name = s.targets[0].id
            if isinstance(s.value, ast.Dict):
                keys = [ast.unparse(k) for k in s.value.keys]
                if name != "hdr_changes" or keys != ["'nsamples'"]:
                    raise Unsupported("header update dict changed: " + ast.unparse(s))
                v, t = tr.ex(s.value.values[0])
                if t != "Z":
                    raise Unsupported("nsamples update type")
                hdr = v
                continue
            v, t = tr.ex(s.value)
            tr.env[name] = t
            out.append(f"  let {ident(name)} := {v} in")
        elif isinstance(s, ast.Return):
            c = s.value
            if not (isinstance(c, ast.Call) and ast.unparse(c.func) == "fourierseries.FourierSeries" and len(c.args) == 2 and not c.keywords
                    and ast.unparse(c.args[1]) == "self.header.new_header(hdr_changes)"):
                raise Unsupported("return form changed: " + ast.unparse(s)[:100])
            v, t = tr.ex(c.args[0])
            if t != "S":
                raise Unsupported("rfft does not return a spectrum")
            ret = v
        else:
            raise Unsupported("statement " + ast.unparse(s)[:80])
    if hdr is None or ret is None:
        raise Unsupported("TimeSeries.rfft: header update or return not found")
    return ("(* from TimeSeries.rfft: (FourierSeries.data, FourierSeries.header.nsamples) *)\n"
            "Definition ts_rfft_run (data : list Z) : S * Z :=\n" + "\n".join(out) + f"\n  ({ret}, {hdr}).\n")


def gen_fs_ifft(repo):
    """FourierSeries.ifft -> TimeSeries.data, given the spectrum and header.nsamples"""
    fn = _find_fn(repo, "sigpyproc/fourierseries.py", "ifft", "FourierSeries")
    _params(fn, ["self", "ifftn"])
    stmts = _skip_callable_preamble(_strip_doc(fn.body), "ifftn", "kernels.nb_irfft")
    if _wrapper_is(repo, "nb_irfft", "np.fft.irfft(arr, n)") != ["arr", "n"]:
        raise Unsupported("kernels.nb_irfft signature changed")
    nb = _find_fn(repo, "sigpyproc/core/kernels.py", "nb_irfft")
    dflt = [ast.unparse(d) for d in nb.args.defaults]
    if dflt != ["None"]:
        raise Unsupported("kernels.nb_irfft default length changed")

    forms = []

    def ifftn(tr, call):
        if call.keywords or len(call.args) not in (1, 2):
            raise Unsupported("ifftn call form: " + ast.unparse(call))
        forms.append(len(call.args) == 2)
        a, ta = tr.ex(call.args[0])
        if ta != "S":
            raise Unsupported("ifftn argument type")
        if len(call.args) == 1:      # n=None -> np.fft.irfft(arr, None): NumPy's default output length
            return f"(irfft {a} (np_irfft_default_len (slen {a})))", "L"
        n, tn = tr.ex(call.args[1])
        if tn != "Z":
            raise Unsupported("ifftn length type")
        return f"(irfft {a} {n})", "L"
    tr = Tr({}, attr={"self.data": ("data", "S"), "self.header.nsamples": ("hdr_nsamples", "Z")}, calls={"ifftn": ifftn})
    out, ret = [], None
    for s in stmts:
        if isinstance(s, ast.Assign) and len(s.targets) == 1 and isinstance(s.targets[0], ast.Name):
            v, t = tr.ex(s.value)
            tr.env[s.targets[0].id] = t
            out.append(f"  let {ident(s.targets[0].id)} := {v} in")
        elif isinstance(s, ast.Return):
            c = s.value
            if not (isinstance(c, ast.Call) and ast.unparse(c.func) == "timeseries.TimeSeries" and len(c.args) == 2 and not c.keywords
                    and ast.unparse(c.args[1]) == "self.header.new_header()"):
                raise Unsupported("return form changed: " + ast.unparse(s)[:100])
            v, t = tr.ex(c.args[0])
            if t != "L":
                raise Unsupported("ifft does not return an array")
            ret = v
        else:
            raise Unsupported("statement " + ast.unparse(s)[:80])
    if ret is None:
        raise Unsupported("FourierSeries.ifft: return not found")
    # TimeSeries.__init__ -> _check_input: the data length must equal header.nsamples (the header is passed on unchanged)
    chk = _find_fn(repo, "sigpyproc/timeseries.py", "_check_input", "TimeSeries")
    if "if len(self.data) != self.header.nsamples:" not in ast.unparse(chk):
        raise Unsupported("TimeSeries._check_input no longer compares len(data) with header.nsamples")
    if len(forms) != 1:
        raise Unsupported(f"FourierSeries.ifft calls the inverse {len(forms)} times, expected exactly once")
    return ("(* from FourierSeries.ifft: the array handed to TimeSeries(...); the header (nsamples) is passed on unchanged *)\n"
            "Definition fs_ifft_run (data : S) (hdr_nsamples : Z) : list Z :=\n" + "\n".join(out) + f"\n  {ret}.\n"
            "(* does the call `ifftn(...)` in FourierSeries.ifft hand a length to the inverse?  (read off the call; what it MEANS for\n"
            "   fs_ifft_run is proved, for either value, in Proofs/C12_wrap.v: fs_ifft_flag_spec) *)\n"
            f"Definition fs_ifft_passes_length : bool := {'true' if forms[0] else 'false'}.\n"
            "(* from TimeSeries._check_input: construction succeeds iff len(data) == header.nsamples *)\n"
            "Definition ts_check (data : list Z) (hdr_nsamples : Z) : bool := (len data =? hdr_nsamples).\n")


def gen_wrappers(repo):
    """kernels.nb_rfft / nb_irfft: `return np.fft.rfft(arr, n)` / `return np.fft.irfft(arr, n)` with `n: int | None = None`.
    NumPy semantics of n=None: rfft -> the input length; irfft -> 2 * (bins - 1)  (Model/C12_np.v np_irfft_default_len)."""
    out = []
    for name, body, typ, dflt_len, call in (("nb_rfft", "np.fft.rfft(arr, n)", "list Z", "(len arr_)", "rfft"),
                                            ("nb_irfft", "np.fft.irfft(arr, n)", "S", "(np_irfft_default_len (slen arr_))", "irfft")):
        if _wrapper_is(repo, name, body) != ["arr", "n"]:
            raise Unsupported(f"kernels.{name} signature changed")
        fn = _find_fn(repo, "sigpyproc/core/kernels.py", name)
        _decorated_njit(fn)
        a = fn.args
        if a.vararg or a.kwarg or a.kwonlyargs or a.posonlyargs or [ast.unparse(d) for d in a.defaults] != ["None"]:
            raise Unsupported(f"kernels.{name}: the length is no longer an optional second parameter defaulting to None")
        ann = ast.unparse(a.args[1].annotation) if a.args[1].annotation is not None else ""
        if ann not in ("int | None", "Optional[int]"):
            raise Unsupported(f"kernels.{name}: annotation of n is {ann!r}")
        res = "S" if name == "nb_rfft" else "list Z"
        out.append(f"(* from kernels.{name}: `return {body}`, n: int | None = None (NumPy: None -> "
                   + ("the input length" if name == "nb_rfft" else "2 * (bins - 1)") + ") *)\n"
                   f"Definition {name}_run (arr_ : {typ}) (n : option Z) : {res} :=\n"
                   f"  {call} arr_ (match n with Some k => k | None => {dflt_len} end).\n")
    return "\n".join(out)


def gen_correlate(repo):
    fn = _find_fn(repo, "sigpyproc/timeseries.py", "correlate", "TimeSeries")
    _params(fn, ["self", "other"])
    stmts = _strip_doc(fn.body)
    # input dispatch: TimeSeries -> other.data ; ndarray -> other.astype(np.float32) ; else OSError
    d = stmts[0]
    want = ("if isinstance(other, TimeSeries):\n    other_data = other.data\nelif isinstance(other, np.ndarray):\n"
            "    other_data = other.astype(np.float32)\nelse:\n")
    if not (isinstance(d, ast.If) and ast.unparse(d).startswith(want) and isinstance(d.orelse[0].orelse[-1], ast.Raise)):
        raise Unsupported("correlate: input dispatch changed")

    def fc(tr, call):
        if len(call.args) != 2 or call.keywords:
            raise Unsupported("fftconvolve call form")
        (a, ta), (b, tb) = tr.ex(call.args[0]), tr.ex(call.args[1])
        if ta != "L" or tb != "L":
            raise Unsupported("fftconvolve argument types")
        return f"(fftconvolve_run {a} {b})", "L"
    tr = Tr({"other_data": "L"}, attr={"self.data": ("data", "L")}, calls={"kernels.fftconvolve": fc})
    out, ret, hdr = [], None, None
    for s in stmts[1:]:
        if isinstance(s, ast.Assign) and len(s.targets) == 1 and isinstance(s.targets[0], ast.Name):
            name = s.targets[0].id
            if isinstance(s.value, ast.Dict):
                if name != "header_changes" or [ast.unparse(k) for k in s.value.keys] != ["'nsamples'"] \
                        or ast.unparse(s.value.values[0]) != "corr_ar.size":
                    raise Unsupported("header update dict changed: " + ast.unparse(s))
                hdr = True
                continue
            v, t = tr.ex(s.value)
            tr.env[name] = t
            out.append(f"  let {ident(name)} := {v} in")
        elif isinstance(s, ast.Return):
            c = s.value
            if not (isinstance(c, ast.Call) and ast.unparse(c.func) == "TimeSeries" and len(c.args) == 2
                    and ast.unparse(c.args[1]) == "self.header.new_header(header_changes)"):
                raise Unsupported("return form changed")
            v, t = tr.ex(c.args[0])
            if t != "L":
                raise Unsupported("correlate does not return an array")
            ret = v
        else:
            raise Unsupported("statement " + ast.unparse(s)[:80])
    if ret is None or not hdr:
        raise Unsupported("correlate: return / header update not found")
    notes = "".join(f"(* {n} *)\n" for n in tr.notes)
    return ("(* from TimeSeries.correlate (header.nsamples := size of the result) *)\n" + notes +
            "Definition correlate_run (data other_data : list Z) : list Z :=\n" + "\n".join(out) + f"\n  {ret}.\n")


def gen_form_mspec(repo):
    """form_mspec: mspec[i] = sqrt(re^2 + im^2) for every bin -> a map over the bins (re, im) with an external sqrt"""
    fn = _find_fn(repo, "sigpyproc/core/kernels.py", "form_mspec")
    _decorated_njit(fn)
    _params(fn, ["fspec"])
    b = _strip_doc(fn.body)
    src = [ast.unparse(s) for s in b]
    if len(b) != 4 or src[0] != "nfreq = len(fspec)" or src[1] != "mspec = np.zeros(nfreq, dtype=np.float32)" or src[3] != "return mspec":
        raise Unsupported("form_mspec: frame changed: " + " | ".join(src)[:200])
    lp = b[2]
    if not (isinstance(lp, ast.For) and ast.unparse(lp.target) == "i" and ast.unparse(lp.iter) == "range(nfreq)" and len(lp.body) == 1
            and not lp.orelse and isinstance(lp.body[0], ast.Assign) and ast.unparse(lp.body[0].targets[0]) == "mspec[i]"):
        raise Unsupported("form_mspec: loop changed")

    def val(e):
        if isinstance(e, ast.Call) and ast.unparse(e.func) == "np.sqrt" and len(e.args) == 1:
            return f"(sqrtf {val(e.args[0])})"
        if isinstance(e, ast.BinOp) and isinstance(e.op, ast.Add):
            return f"({val(e.left)} + {val(e.right)})"
        if isinstance(e, ast.BinOp) and isinstance(e.op, ast.Pow) and isinstance(e.right, ast.Constant) and e.right.value == 2:
            return f"({val(e.left)} * {val(e.left)})"
        if ast.unparse(e) == "fspec[i].real":
            return "(fst z)"
        if ast.unparse(e) == "fspec[i].imag":
            return "(snd z)"
        raise Unsupported("form_mspec value " + ast.unparse(e))
    v = val(lp.body[0].value)
    return ("(* from kernels.form_mspec: bins are (re, im) pairs; sqrtf is the external square root *)\n"
            f"Definition form_mspec_run (sqrtf : Z -> Z) (fspec : list (Z * Z)) : list Z :=\n  map (fun z => {v}) fspec.\n")


def gen_fftops(repo="/repo"):
    out = [HEADER % "sigpyproc/core/kernels.py, sigpyproc/timeseries.py, sigpyproc/fourierseries.py", "Section FftOps.", SECTION_VARS]
    errors = []
    for name, g in (("fftconvolve", gen_fftconvolve), ("TimeSeries.rfft", gen_ts_rfft), ("FourierSeries.ifft", gen_fs_ifft),
                    ("TimeSeries.correlate", gen_correlate), ("nb_rfft / nb_irfft", gen_wrappers), ("form_mspec", gen_form_mspec)):
        try:
            out.append(g(repo))
        except Unsupported as e:
            errors.append(f"{name}: {e}")
            out.append(f"(* UNSUPPORTED {name}: {str(e).replace('*)', '* )').replace('(*', '( *')} *)\n")
    out.append("End FftOps.")
    return "\n".join(out) + "\n", errors


# ------------------------------------------------------------------------------------------------------------------
# C13: convolve_templates, normalize_template, MatchedFilter._compute, template reference bins
# ------------------------------------------------------------------------------------------------------------------

def gen_normalize_template(repo):
    """normalize_template with the two non-ring operations external:
         mean_of_sum n s = s / n   (np.mean = sum / size),   div_norm x ss = x / sqrt(ss), or x when sqrt(ss) == 0"""
    fn = _find_fn(repo, "sigpyproc/core/kernels.py", "normalize_template")
    _decorated_njit(fn)
    _params(fn, ["arr"])
    src = [ast.unparse(s) for s in _strip_doc(fn.body)]
    want = ["mean = np.mean(arr)", "arr_norm = arr - mean", "norm = np.sqrt(np.sum(arr_norm ** 2))",
            "if norm == 0:\n    return arr_norm", "return arr_norm / norm"]
    if src != want:
        raise Unsupported("normalize_template changed: " + " | ".join(src)[:300])
    return ("(* from kernels.normalize_template.  External (not ring operations): mean_of_sum n s = s / n ;\n"
            "   div_norm x ss = x / sqrt ss (x itself when sqrt ss = 0) *)\n"
            "Definition normalize_template_run (arr_ : list Z) : list Z :=\n"
            "  let mean := mean_of_sum (len arr_) (sum_n (length arr_) (of_list arr_)) in\n"
            "  let arr_norm := map (fun x => x - mean) arr_ in\n"
            "  let norm2 := sum_n (length arr_norm) (fun k => of_list arr_norm k * of_list arr_norm k) in\n"
            "  map (fun x => div_norm x norm2) arr_norm.\n")


def gen_convolve_templates(repo):
    fn = _find_fn(repo, "sigpyproc/core/kernels.py", "convolve_templates")
    _decorated_njit(fn)
    _params(fn, ["data", "temp_bank", "ref_bin"])
    # circular_pad_goodsize is translated in Gen/Kernels.v (loop kernel); its good-size request must be the real one
    cp = _find_fn(repo, "sigpyproc/core/kernels.py", "circular_pad_goodsize")
    if "n_good = nb_fft_good_size(n, real=True)" not in ast.unparse(cp):
        raise Unsupported("circular_pad_goodsize no longer asks for the real good size of len(arr)")

    def cpad(tr, call):
        if len(call.args) != 1 or call.keywords:
            raise Unsupported("circular_pad_goodsize call form")
        a, ta = tr.ex(call.args[0])
        if ta != "L":
            raise Unsupported("circular_pad_goodsize argument")
        # list view of the kernel generated in Gen/Kernels.v (junk := zeros: every entry below n_good is overwritten)
        return f"(to_list (good_size (len {a})) (circular_pad_goodsize_run good_size (len {a}) zeros (of_list {a})))", "L"

    def norm(tr, call):
        if len(call.args) != 1 or call.keywords:
            raise Unsupported("normalize_template call form")
        a, ta = tr.ex(call.args[0])
        if ta != "L":
            raise Unsupported("normalize_template argument")
        return f"(normalize_template_run {a})", "L"
    body = _strip_doc(fn.body)
    src = [ast.unparse(s) for s in body]
    if src[:3] != ["nbins = len(data)", "ntemps = len(temp_bank)", "convs = np.empty((ntemps, nbins), dtype=data.dtype)"]:
        raise Unsupported("convolve_templates: frame changed: " + " | ".join(src[:3]))
    if src[-1] != "return convs":
        raise Unsupported("convolve_templates: does not return convs")
    lp = body[-2]
    if not (isinstance(lp, ast.For) and ast.unparse(lp.target) == "itemp" and ast.unparse(lp.iter) == "range(ntemps)" and not lp.orelse):
        raise Unsupported("convolve_templates: template loop changed")
    last = lp.body[-1]
    if not (isinstance(last, ast.Assign) and ast.unparse(last.targets[0]) == "convs[itemp, :]"):
        raise Unsupported("convolve_templates: row store changed: " + ast.unparse(last))
    tr = Tr({"data": "L", "temp_bank": "LL", "ref_bin": "LZ", "nbins": "Z", "ntemps": "Z"},
            calls={"circular_pad_goodsize": cpad, "normalize_template": norm})
    # statements before the loop
    lines = ["  let nbins := len data in", "  let ntemps := len temp_bank in"]
    for s in body[3:-2]:
        if not (isinstance(s, ast.Assign) and len(s.targets) == 1 and isinstance(s.targets[0], ast.Name)):
            raise Unsupported("statement " + ast.unparse(s)[:80])
        v, t = tr.ex(s.value)
        tr.env[s.targets[0].id] = t
        lines.append(f"  let {ident(s.targets[0].id)} := {v} in")
    tr.env["itemp"] = "Z"
    row = tr.block(lp.body[:-1] + [ast.Return(value=last.value)], ind=3, ret_type="L")
    return ("(* from kernels.convolve_templates: row itemp of convs (a row store of a different length raises in NumPy/numba) *)\n"
            "Definition convolve_templates_run (data : list Z) (temp_bank : list (list Z)) (ref_bin : list Z) : list (list Z) :=\n"
            + "\n".join(lines) + "\n  map (fun itemp =>\n" + row + ") (zrange ntemps).\n")


def gen_compute(repo):
    """MatchedFilter._compute: flat argmax, unravel by the shape, S/N = convs[itemp, peak_bin]"""
    fn = _find_fn(repo, "sigpyproc/core/filters.py", "_compute", "MatchedFilter")
    src = [ast.unparse(s) for s in _strip_doc(fn.body)]
    want = ["temp_kernels = typed.List([temp.data for temp in self.temp_bank])",
            "ref_bins = typed.List([temp.ref_bin for temp in self.temp_bank])",
            "self._convs = kernels.convolve_templates(self.zscores.data, temp_kernels, ref_bins)",
            "self._itemp, self._peak_bin = np.unravel_index(self._convs.argmax(), self._convs.shape)",
            "self._best_temp = self.temp_bank[self._itemp]",
            "self._best_snr = self._convs[self._itemp, self._peak_bin]"]
    if src != want:
        diff = [a for a, b in zip(src, want) if a != b] or src[len(want):] or ["(statements removed)"]
        raise Unsupported("MatchedFilter._compute changed: " + diff[0][:200])
    init = ast.unparse(_find_fn(repo, "sigpyproc/core/filters.py", "__init__", "MatchedFilter"))
    for need in ("self._data = np.asarray(data, dtype=np.float32)",
                 "self._zscores = estimate_zscore(self.data, loc_method=loc_method, scale_method=scale_method)",
                 "self._setup_templates(nbins_max, spacing_factor)", "self._compute()"):
        if need not in init:
            raise Unsupported("MatchedFilter.__init__ changed: missing `" + need + "`")
    for prop, ret in (("snr", "return self._best_snr"), ("peak_bin", "return int(self._peak_bin)"), ("best_temp", "return self._best_temp"),
                      ("convs", "return self._convs")):
        p = _find_fn(repo, "sigpyproc/core/filters.py", prop, "MatchedFilter")
        if ast.unparse(_strip_doc(p.body)[0]) != ret:
            raise Unsupported(f"MatchedFilter.{prop} changed")
    return ("(* from MatchedFilter.__init__/_compute: the filter sees the data only through zscores.data;\n"
            "   (itemp, peak_bin, snr) from the flat arg-max of convs (shape ntemps x nbins, row-major) *)\n"
            "Definition mf_compute_run (zscores : list Z) (temp_kernels : list (list Z)) (ref_bins : list Z) : Z * Z * Z :=\n"
            "  let convs := convolve_templates_run zscores temp_kernels ref_bins in\n"
            "  let '(itemp, peak_bin) := np_unravel_index (np_argmax (concat convs)) (len convs) (len zscores) in\n"
            "  (itemp, peak_bin, of_list (nth (Z.to_nat itemp) convs []) peak_bin).\n")


def gen_ref_bins(repo):
    """reference bins of the template generators, as functions of the half-size"""
    out = []
    fb = _find_fn(repo, "sigpyproc/core/filters.py", "gen_boxcar", "Template")
    s = ast.unparse(fb)
    if "arr = np.ones(width, dtype=np.float32)" not in s or "return cls(arr, width, ref_bin=0, ref='start', kind='boxcar')" not in s:
        raise Unsupported("Template.gen_boxcar changed")
    out.append("(* from Template.gen_boxcar: ones(width), reference bin 0 (start of the pulse) *)\n"
               "Definition boxcar_template (width : Z) : list Z * Z := (repeat 1 (Z.to_nat width), 0).\n")
    for kind in ("gaussian", "lorentzian"):
        f = _find_fn(repo, "sigpyproc/core/filters.py", f"gen_{kind}", "Template")
        stm = {}
        for st in _strip_doc(f.body):
            if isinstance(st, ast.Assign) and len(st.targets) == 1 and isinstance(st.targets[0], ast.Name):
                if st.targets[0].id in stm:
                    raise Unsupported(f"Template.gen_{kind}: {st.targets[0].id} assigned twice")
                stm[st.targets[0].id] = st.value
        if "x" not in stm or ast.unparse(stm["x"]) != "np.arange(-size, size + 1)":
            raise Unsupported(f"Template.gen_{kind}: abscissae are no longer np.arange(-size, size + 1)")
        if "ref_bin" not in stm:
            raise Unsupported(f"Template.gen_{kind}: ref_bin not assigned")
        ret = [st for st in f.body if isinstance(st, ast.Return)]
        if len(ret) != 1 or f"ref_bin=ref_bin, ref='peak', kind='{kind}'" not in ast.unparse(ret[0]) or not ast.unparse(ret[0]).startswith("return cls(arr, width, "):
            raise Unsupported(f"Template.gen_{kind}: constructor call changed")

        def lenx(tr, call, kind=kind):
            if len(call.args) != 1 or ast.unparse(call.args[0]) != "x" or call.keywords:
                raise Unsupported("len of something other than x")
            return f"({kind}_len size)", "Z"
        rb, t = Tr({"size": "Z"}, calls={"len": lenx}).ex(stm["ref_bin"])
        if t != "Z":
            raise Unsupported("ref_bin type")
        out.append(f"(* from Template.gen_{kind}: abscissae x = arange(-size, size + 1) and the reference bin *)\n"
                   f"Definition {kind}_abscissa (size i : Z) : Z := (- size) + i.\n"
                   f"Definition {kind}_len (size : Z) : Z := (size + 1) - (- size).\n"
                   f"Definition {kind}_ref_bin (size : Z) : Z := {rb}.\n")
    return "\n".join(out)



# ------------------------------------------------------------------------------------------------------------------
# C13: the boxcar width ladder (MatchedFilter.get_box_width_spacing) and the on-pulse extent (Template.get_on_pulse)
# ------------------------------------------------------------------------------------------------------------------
_CMP = {ast.Lt: "<?", ast.LtE: "<=?", ast.Gt: ">?", ast.GtE: ">=?"}


def _zx(e, names):
    """integer expression over the given names -> Gallina Z term.  `names` maps the unparsed source of a leaf to its Gallina name"""
    src = ast.unparse(e)
    if src in names:
        return names[src]
    if isinstance(e, ast.Constant) and isinstance(e.value, int) and not isinstance(e.value, bool):
        return str(e.value) if e.value >= 0 else f"({e.value})"
    if isinstance(e, ast.BinOp) and isinstance(e.op, (ast.Add, ast.Sub, ast.Mult)):
        op = {ast.Add: "+", ast.Sub: "-", ast.Mult: "*"}[type(e.op)]
        return f"({_zx(e.left, names)} {op} {_zx(e.right, names)})"
    if isinstance(e, ast.Call) and isinstance(e.func, ast.Name) and e.func.id in ("max", "min") and len(e.args) == 2 and not e.keywords:
        return f"(Z.{e.func.id} {_zx(e.args[0], names)} {_zx(e.args[1], names)})"
    raise Unsupported("integer expression " + src[:80])


def _zcmp(e, names):
    if not (isinstance(e, ast.Compare) and len(e.ops) == 1 and type(e.ops[0]) in _CMP):
        raise Unsupported("comparison " + ast.unparse(e)[:80])
    return f"({_zx(e.left, names)} {_CMP[type(e.ops[0])]} {_zx(e.comparators[0], names)})"


def gen_box_widths(repo):
    """get_box_width_spacing with spacing_factor = sp / sq (sq > 0): int(max(I, spacing_factor * J)) = Z.max I (floor(sp * J / sq))
    for integers I, J >= 0 (int() truncates, the argument is positive).  The while loop becomes a fuelled recursion on the last width"""
    fn = _find_fn(repo, "sigpyproc/core/filters.py", "get_box_width_spacing", "MatchedFilter")
    if [ast.unparse(d) for d in fn.decorator_list] != ["staticmethod"]:
        raise Unsupported("get_box_width_spacing: decorators changed")
    _params(fn, ["size_max", "spacing_factor"])
    body = _strip_doc(fn.body)
    if len(body) != 3 or not isinstance(body[1], ast.While) or body[1].orelse:
        raise Unsupported("get_box_width_spacing: frame changed")
    init = body[0]
    if not (isinstance(init, ast.Assign) and ast.unparse(init.targets[0]) == "widths" and isinstance(init.value, ast.List)
            and len(init.value.elts) == 1):
        raise Unsupported("get_box_width_spacing: initial list: " + ast.unparse(init))
    if ast.unparse(body[2]) != "return np.array(widths, dtype=np.float32)":
        raise Unsupported("get_box_width_spacing: return changed: " + ast.unparse(body[2]))
    names = {"widths[-1]": "last", "size_max": "size_max"}
    first = _zx(init.value.elts[0], {})
    wl = body[1]
    test = _zcmp(wl.test, names)
    if len(wl.body) != 3:
        raise Unsupported("get_box_width_spacing: loop body changed")
    a, brk, app = wl.body
    if not (isinstance(a, ast.Assign) and ast.unparse(a.targets[0]) == "next_width" and isinstance(a.value, ast.Call)
            and ast.unparse(a.value.func) == "int" and len(a.value.args) == 1 and not a.value.keywords):
        raise Unsupported("get_box_width_spacing: next_width is no longer int(...): " + ast.unparse(a))
    inner = a.value.args[0]
    if not (isinstance(inner, ast.Call) and ast.unparse(inner.func) == "max" and len(inner.args) == 2 and not inner.keywords):
        raise Unsupported("get_box_width_spacing: next_width is no longer int(max(., .)): " + ast.unparse(a))
    ipart, rpart = inner.args
    if not (isinstance(rpart, ast.BinOp) and isinstance(rpart.op, ast.Mult) and ast.unparse(rpart.left) == "spacing_factor"):
        raise Unsupported("get_box_width_spacing: real operand is no longer spacing_factor * <int>: " + ast.unparse(rpart))
    nxt = f"Z.max {_zx(ipart, names)} ((sp * {_zx(rpart.right, names)}) / sq)"
    if not (isinstance(brk, ast.If) and not brk.orelse and len(brk.body) == 1 and isinstance(brk.body[0], ast.Break)):
        raise Unsupported("get_box_width_spacing: break test changed")
    stop = _zcmp(brk.test, dict(names, next_width="next_width"))
    if ast.unparse(app) != "widths.append(next_width)":
        raise Unsupported("get_box_width_spacing: append changed: " + ast.unparse(app))
    return ("(* from MatchedFilter.get_box_width_spacing, spacing_factor = sp / sq: the widths after `last` (the while loop, fuelled) *)\n"
            "Fixpoint box_widths_loop (fuel : nat) (size_max sp sq last : Z) : list Z :=\n"
            "  match fuel with\n  | O => []\n  | S fuel' =>\n"
            f"    if {test} then\n"
            f"      let next_width := {nxt} in\n"
            f"      if {stop} then [] else next_width :: box_widths_loop fuel' size_max sp sq next_width\n"
            "    else []\n  end.\n"
            "(* the loop runs at most size_max times: every pass appends a width that is larger than the last and <= size_max *)\n"
            "Definition box_width_spacing_run (size_max sp sq : Z) : list Z :=\n"
            f"  {first} :: box_widths_loop (Z.to_nat size_max) size_max sp sq {first}.\n")


def gen_on_pulse(repo):
    """Template.get_on_pulse / MatchedFilter.on_pulse; `rwidth` stands for round(self.width)"""
    p = _find_fn(repo, "sigpyproc/core/filters.py", "on_pulse", "MatchedFilter")
    if [ast.unparse(s) for s in _strip_doc(p.body)] != ["return self.best_temp.get_on_pulse(self.peak_bin, self.data.size)"]:
        raise Unsupported("MatchedFilter.on_pulse changed")
    fn = _find_fn(repo, "sigpyproc/core/filters.py", "get_on_pulse", "Template")
    _params(fn, ["self", "peak_bin", "nbins"])
    body = _strip_doc(fn.body)
    if len(body) != 4 or not isinstance(body[0], ast.If) or ast.unparse(body[0].test) != "self.ref == 'start'":
        raise Unsupported("get_on_pulse: frame changed")
    names = {"peak_bin": "peak_bin", "nbins": "nbins", "self.width": "width", "round(self.width)": "rwidth"}

    def branch(stmts):
        got = {}
        for st in stmts:
            if not (isinstance(st, ast.Assign) and len(st.targets) == 1 and isinstance(st.targets[0], ast.Name)
                    and st.targets[0].id in ("pulse_left", "pulse_right") and st.targets[0].id not in got):
                raise Unsupported("get_on_pulse: branch statement " + ast.unparse(st)[:80])
            got[st.targets[0].id] = _zx(st.value, names)
        if set(got) != {"pulse_left", "pulse_right"}:
            raise Unsupported("get_on_pulse: a branch does not set pulse_left and pulse_right")
        return got
    b1, b2 = branch(body[0].body), branch(body[0].orelse)
    n2 = dict(names, pulse_left="pulse_left", pulse_right="pulse_right")
    vals = {}
    for st, nm in ((body[1], "start"), (body[2], "end")):
        if not (isinstance(st, ast.Assign) and ast.unparse(st.targets[0]) == nm):
            raise Unsupported(f"get_on_pulse: {nm} assignment changed: " + ast.unparse(st))
        vals[nm] = _zx(st.value, n2)
    if ast.unparse(body[3]) != "return (start, int(end))":
        raise Unsupported("get_on_pulse: return changed: " + ast.unparse(body[3]))
    return ("(* from Template.get_on_pulse (MatchedFilter.on_pulse = best_temp.get_on_pulse(peak_bin, data.size)); rwidth = round(width) *)\n"
            "Definition on_pulse_run (ref_is_start : bool) (width rwidth peak_bin nbins : Z) : Z * Z :=\n"
            f"  let '(pulse_left, pulse_right) := if ref_is_start then ({b1['pulse_left']}, {b1['pulse_right']}) else ({b2['pulse_left']}, {b2['pulse_right']}) in\n"
            f"  let start := {vals['start']} in\n  let end_ := {vals['end']} in\n  (start, end_).\n")


MF_VARS = """Variable Nm : norm_ops.                (* the non-ring operations of normalize_template, Model/C13_np.v *)
Local Notation mean_of_sum := (nrm_mean_of_sum Nm).   (* np.mean: mean_of_sum n s = s / n *)
Local Notation div_norm := (nrm_div_norm Nm).         (* div_norm x ss = x / sqrt ss, or x when sqrt ss = 0 *)
"""


def gen_matchedfilter(repo="/repo"):
    out = [HEADER % "sigpyproc/core/kernels.py, sigpyproc/core/filters.py",
           "Require Import SPP.Gen.Kernels SPP.Model.C13_np.", "", "Section MatchedFilter.", SECTION_VARS + MF_VARS]
    errors = []
    for name, g in (("normalize_template", gen_normalize_template), ("convolve_templates", gen_convolve_templates),
                    ("MatchedFilter._compute", gen_compute)):
        try:
            out.append(g(repo))
        except Unsupported as e:
            errors.append(f"{name}: {e}")
            out.append(f"(* UNSUPPORTED {name}: {str(e).replace('*)', '* )').replace('(*', '( *')} *)\n")
    out.append("End MatchedFilter.\n")
    try:
        out.append(gen_ref_bins(repo))
    except Unsupported as e:
        errors.append(f"template generators: {e}")
        out.append(f"(* UNSUPPORTED template generators: {str(e).replace('*)', '* )').replace('(*', '( *')} *)\n")
    for name, g in (("get_box_width_spacing", gen_box_widths), ("get_on_pulse", gen_on_pulse)):
        try:
            out.append(g(repo))
        except Unsupported as e:
            errors.append(f"{name}: {e}")
            out.append(f"(* UNSUPPORTED {name}: {str(e).replace('*)', '* )').replace('(*', '( *')} *)\n")
    return "\n".join(out) + "\n", errors



def gen_mf_zscores(repo="/repo"):
    """Gen/MatchedFilterZ.v: the standardised series MatchedFilter hands to the kernel, as the regenerated stats.estimate_zscore
    (Gen/Stats.v, C15) applied the way MatchedFilter.__init__ applies it: 1-D data, the two method arguments passed on, axis left
    at its default"""
    errors = []
    out = [HEADER % "sigpyproc/core/filters.py, sigpyproc/core/stats.py", "Require Import SPP.Model.C15_np SPP.Gen.Stats.", ""]
    try:
        rel = "sigpyproc/core/filters.py"
        mod = ast.parse(open(f"{repo}/{rel}").read())
        imp = [n for n in mod.body if isinstance(n, ast.ImportFrom) and n.module == "sigpyproc.core.stats"
               and any(a.name == "estimate_zscore" and a.asname is None for a in n.names)]
        if len(imp) != 1:
            raise Unsupported("filters.py no longer imports estimate_zscore from sigpyproc.core.stats")
        init = _find_fn(repo, rel, "__init__", "MatchedFilter")
        names = [a.arg for a in init.args.args]
        if names[:4] != ["self", "data", "loc_method", "scale_method"]:
            raise Unsupported(f"MatchedFilter.__init__ parameters {names}")
        body = [ast.unparse(st) for st in _strip_doc(init.body)]
        want = ["if data.ndim != 1:\n    msg = f'Data dimension {data.ndim} is not supported.'\n    raise ValueError(msg)",
                "self._temp_kind = temp_kind", "self._data = np.asarray(data, dtype=np.float32)",
                "self._zscores = estimate_zscore(self.data, loc_method=loc_method, scale_method=scale_method)",
                "self._setup_templates(nbins_max, spacing_factor)", "self._compute()"]
        if body != want:
            diff = [a for a, b in zip(body, want) if a != b] or body[len(want):] or ["(statements removed)"]
            raise Unsupported("MatchedFilter.__init__ changed: " + diff[0][:200])
        for prop, ret in (("data", "return self._data"), ("zscores", "return self._zscores")):
            pf = _find_fn(repo, rel, prop, "MatchedFilter")
            if [ast.unparse(st) for st in _strip_doc(pf.body)] != [ret]:
                raise Unsupported(f"MatchedFilter.{prop} changed")
        ez = _find_fn(repo, "sigpyproc/core/stats.py", "estimate_zscore")
        _params(ez, ["data", "loc_method", "scale_method", "axis"])
        dflt = ez.args.defaults[-1]
        if isinstance(dflt, ast.Constant) and dflt.value is None:
            axis = "None"
        elif isinstance(dflt, ast.Constant) and isinstance(dflt.value, int) and not isinstance(dflt.value, bool):
            axis = f"(Some ({dflt.value}))"
        else:
            raise Unsupported("estimate_zscore: default of axis: " + ast.unparse(dflt))
        out.append("(* from MatchedFilter.__init__: self._zscores = estimate_zscore(self.data, loc_method=loc_method, scale_method=scale_method),\n"
                   "   data 1-D (anything else raises), axis = the default of stats.estimate_zscore.  The float32 cast is not modelled *)\n"
                   "Definition mf_zscores np_sqrt np_pi np_std1 biweight1 np_cov01 memo (data : nd) (loc_method_ : loc_method) (scale_method_ : scale_method) :=\n"
                   f"  estimate_zscore np_sqrt np_pi np_std1 biweight1 np_cov01 memo data loc_method_ scale_method_ {axis}.\n"
                   f"Definition mf_zscores_axis : option Z := {axis}.\n")
    except Unsupported as e:
        errors.append(f"MatchedFilter zscores: {e}")
        out.append(f"(* UNSUPPORTED MatchedFilter zscores: {str(e).replace('*)', '* )').replace('(*', '( *')} *)\n")
    return "\n".join(out) + "\n", errors


GENERATORS = {"FftOps.v": gen_fftops, "MatchedFilter.v": gen_matchedfilter, "MatchedFilterZ.v": gen_mf_zscores}


if __name__ == "__main__":
    import sys
    repo = sys.argv[1] if len(sys.argv) > 1 else "/repo"
    for fname, g in GENERATORS.items():
        t, errs = g(repo)
        print(t)
        for e in errs:
            print("ERROR", fname, e, file=sys.stderr)
