"""py2coq plug-in for C20 (a partially written output is always a valid prefix of the final file): Gen/C20Sites.v.

Read from the ast of /repo's CURRENT source on every run (fail closed: anything not recognised is an error):

  sigpyproc/io/fileio.py
    * FileBase.__init__ : the opener (io.FileIO = unbuffered raw file; anything else is emitted as buffered)
    * FileBase._open    : the one place where a file object is created and stored (no wrapper around it)
    * FileWriter.__init__/write/cwrite, FileBase.close/_close_current/__exit__ :
        the sequence of primitive operations each performs on the file object, on EVERY control path
        (tofile / write -> FPut ; seek(0) -> FSeek0 ; seek(0, 2) -> FSeekEnd ; truncate(0) -> FTrunc0 ; close -> FClose)
  sigpyproc/header.py
    * Header.prep_outfile : the writer is constructed with which mode, what is written through it (the encoded header,
        once) and that nothing else is done to it before it is handed to the caller
  sigpyproc/base.py, block.py, timeseries.py
    * for every streaming writer (invert_freq, apply_channel_mask, downsample, extract_samps, extract_chans,
      extract_bands, requantize, remove_zerodm, subband, FilterbankBlock.to_file, TimeSeries.to_tim, FourierSeries.to_spec):
        the writer calls made on the output object in syntactic order, split into before / inside / after the loop
        over self.read_plan(...); that the output object and the output path are used for nothing else
        (no seek / truncate / re-open / second header write / edit_header / open(path))
  sigpyproc/io/sigproc.py
    * parse_header : the arithmetic by which the reader infers data length and sample count from the file length
    * header_keys  : there is no sample-count key a writer would have to patch
  sigpyproc/readers.py, io/bits.py
    * FilReader.chan_stride / samp_stride / read_block (range check, seek offset, number of units read),
      FileReader.cread's unit -> item count, BitsInfo item size / bit factor per depth.
"""
from __future__ import annotations

import ast


class Unsupported(Exception):
    pass


# ------------------------------------------------------------------------------------------------ helpers
def _parse(repo, rel):
    try:
        return ast.parse(open(f"{repo}/{rel}").read())
    except OSError as e:
        raise Unsupported(f"{rel}: cannot read: {e}") from None


def _cls(mod, name, rel):
    for n in mod.body:
        if isinstance(n, ast.ClassDef) and n.name == name:
            return n
    raise Unsupported(f"{rel}: class {name} not found")


def _method(cls, name, rel="", required=True):
    found = [f for f in cls.body if isinstance(f, ast.FunctionDef) and f.name == name]
    if len(found) > 1:
        raise Unsupported(f"{rel}: {cls.name}.{name} defined {len(found)} times")
    if not found:
        if required:
            raise Unsupported(f"{rel}: {cls.name}.{name} not found")
        return None
    return found[0]


def _func(mod, name, rel):
    for n in mod.body:
        if isinstance(n, ast.FunctionDef) and n.name == name:
            return n
    raise Unsupported(f"{rel}: function {name} not found")


def _body(fn):
    b = fn.body
    if b and isinstance(b[0], ast.Expr) and isinstance(b[0].value, ast.Constant) and isinstance(b[0].value.value, str):
        return b[1:]
    return b


def _u(n):
    return ast.unparse(n)


def _cm(s):
    return s.replace("(*", "( *").replace("*)", "* )")


def _parents(root):
    par = {}
    for p in ast.walk(root):
        for c in ast.iter_child_nodes(p):
            par[c] = p
    return par


def _mentions(node, names):
    return any(isinstance(n, ast.Name) and n.id in names for n in ast.walk(node))


# ------------------------------------------------------------------------------------------------ A. fileio.py
FILEOBJ = "self.file_obj"


def _is_fileobj(n):
    return isinstance(n, ast.Attribute) and _u(n) == FILEOBJ


def _const_int(n):
    if isinstance(n, ast.Constant) and isinstance(n.value, int) and not isinstance(n.value, bool):
        return n.value
    if isinstance(n, ast.Attribute) and _u(n) in ("os.SEEK_SET", "io.SEEK_SET"):
        return 0
    if isinstance(n, ast.Attribute) and _u(n) in ("os.SEEK_END", "io.SEEK_END"):
        return 2
    return None


def _fileops_of_call(call, cls, where, depth=0):
    """primitive file-object operations performed by one Call node (not descending into its arguments' calls)"""
    f = call.func
    # X.tofile(self.file_obj)
    if isinstance(f, ast.Attribute) and f.attr == "tofile":
        if len(call.args) == 1 and _is_fileobj(call.args[0]) and not call.keywords:
            return ["FPut"]
        if any(_is_fileobj(a) for a in call.args):
            raise Unsupported(f"{where}: tofile with extra arguments: {_u(call)}")
        return None
    if isinstance(f, ast.Attribute) and _is_fileobj(f.value):
        m = f.attr
        if m == "write" and len(call.args) == 1 and not call.keywords:
            return ["FPut"]
        if m == "close" and not call.args:
            return ["FClose"]
        if m in ("flush", "tell", "fileno", "seekable", "writable", "readable"):
            return []
        if m == "seek":
            off = _const_int(call.args[0]) if call.args else None
            wh = 0 if len(call.args) < 2 else _const_int(call.args[1])
            if off == 0 and wh == 0:
                return ["FSeek0"]
            if off == 0 and wh == 2:
                return ["FSeekEnd"]
            raise Unsupported(f"{where}: seek on the output with a non-literal target: {_u(call)}")
        if m == "truncate":
            if len(call.args) == 1 and _const_int(call.args[0]) == 0:
                return ["FTrunc0"]
            raise Unsupported(f"{where}: truncate on the output: {_u(call)}")
        raise Unsupported(f"{where}: unknown operation on the file object: {_u(call)}")
    # self.<method>(...) of the same class hierarchy: inline
    if isinstance(f, ast.Attribute) and isinstance(f.value, ast.Name) and f.value.id == "self":
        if f.attr == "_open":
            return ["FReopen"]
        callee = None
        for c in cls:
            callee = _method(c, f.attr, required=False) or callee
            if callee is not None:
                break
        if callee is None:
            return None
        if depth > 3:
            raise Unsupported(f"{where}: call chain too deep at {_u(call)}")
        seqs = _paths(_body(callee), cls, f"{where}>{f.attr}", depth + 1)
        return _same(seqs, f"{where}>{f.attr}")
    return None


def _stmt_ops(st, cls, where, depth):
    """ops of a simple (non-compound) statement, in evaluation order of its calls (inner calls first)"""
    ops = []
    calls = [n for n in ast.walk(st) if isinstance(n, ast.Call)]
    # evaluation order: ast.walk is breadth first; order by position, inner (later end) first is not needed here because
    # at most one file operation per statement is accepted
    hits = []
    for c in calls:
        r = _fileops_of_call(c, cls, where, depth)
        if r:
            hits.append(r)
    if len(hits) > 1:
        raise Unsupported(f"{where}: more than one file operation in one statement: {_u(st)[:80]}")
    if hits:
        ops += hits[0]
    # any other use of self.file_obj in this statement?
    for n in ast.walk(st):
        if _is_fileobj(n):
            ok = False
            for c in calls:
                if (isinstance(c.func, ast.Attribute) and c.func.value is n) or (n in c.args and isinstance(c.func, ast.Attribute) and c.func.attr == "tofile"):
                    ok = True
            if not ok:
                raise Unsupported(f"{where}: the file object escapes or is replaced: {_u(st)[:80]}")
    return ops


def _paths(stmts, cls, where, depth=0):
    """list of op sequences, one per control path through stmts.  `if self.ifile_cur is not None:` (file is open) is taken."""
    seqs = [[]]
    for st in stmts:
        if isinstance(st, ast.If):
            t = _u(st.test)
            if t == "self.ifile_cur is not None":
                sub = _paths(st.body, cls, where, depth)
            elif t == "self.ifile_cur is None":
                sub = _paths(st.orelse, cls, where, depth) if st.orelse else [[]]
            else:
                for n in ast.walk(st.test):
                    if _is_fileobj(n):
                        raise Unsupported(f"{where}: condition on the file object: {t}")
                a = _paths(st.body, cls, where, depth)
                b = _paths(st.orelse, cls, where, depth) if st.orelse else [[]]
                sub = a + b
            seqs = [s + t2 for s in seqs for t2 in sub]
        elif isinstance(st, (ast.For, ast.While, ast.With, ast.Try)):
            for n in ast.walk(st):
                if _is_fileobj(n) or (isinstance(n, ast.Call) and isinstance(n.func, ast.Attribute) and n.func.attr == "tofile"):
                    raise Unsupported(f"{where}: file operation inside {type(st).__name__}")
        elif isinstance(st, ast.Raise):
            # an error path: not a normal return; drop these paths
            seqs = [s for s in seqs if False]
            return seqs
        elif isinstance(st, ast.Return):
            o = _stmt_ops(st, cls, where, depth)
            return [s + o for s in seqs]
        else:
            o = _stmt_ops(st, cls, where, depth)
            seqs = [s + o for s in seqs]
    return seqs


def _same(seqs, where):
    seqs = [tuple(s) for s in seqs]
    if not seqs:
        raise Unsupported(f"{where}: no normal control path")
    if len(set(seqs)) != 1:
        raise Unsupported(f"{where}: control paths perform different file operations: {sorted(set(seqs))}")
    return list(seqs[0])


def _fileio(repo):
    rel = "sigpyproc/io/fileio.py"
    mod = _parse(repo, rel)
    base = _cls(mod, "FileBase", rel)
    wr = _cls(mod, "FileWriter", rel)
    if [_u(b) for b in wr.bases] != ["FileBase"]:
        raise Unsupported(f"{rel}: FileWriter bases changed: {[_u(b) for b in wr.bases]}")
    out = {}
    # opener
    init = _method(base, "__init__", rel)
    openers = [st for st in ast.walk(init) if isinstance(st, ast.Assign) and _u(st.targets[0]) == "self.opener"]
    if len(openers) != 1:
        raise Unsupported(f"{rel}: FileBase.__init__ assigns self.opener {len(openers)} times")
    out["opener_text"] = _u(openers[0].value)
    out["unbuffered"] = out["opener_text"] == "io.FileIO"
    for c in (base, wr):
        for fn in c.body:
            if isinstance(fn, ast.FunctionDef) and fn.name != "__init__":
                for st in ast.walk(fn):
                    if isinstance(st, (ast.Assign, ast.AugAssign)) and "self.opener" in [_u(t) for t in (st.targets if isinstance(st, ast.Assign) else [st.target])]:
                        raise Unsupported(f"{rel}: self.opener reassigned in {c.name}.{fn.name}")
    if "self._open(ifile=0)" not in [_u(s.value) for s in _body(init) if isinstance(s, ast.Expr)]:
        raise Unsupported(f"{rel}: FileBase.__init__ no longer opens file 0")
    if "self.mode = mode" not in [_u(s) for s in _body(init)]:
        raise Unsupported(f"{rel}: FileBase.__init__ no longer stores the mode")
    # _open: one creation of the file object, stored as is
    op = _method(base, "_open", rel)
    creates = [n for n in ast.walk(op) if isinstance(n, ast.Call) and _u(n.func) == "self.opener"]
    if len(creates) != 1 or _u(creates[0]) != "self.opener(self.files[ifile], mode=self.mode)":
        raise Unsupported(f"{rel}: FileBase._open creates the file object differently: {[_u(c) for c in creates]}")
    stores = []
    for c in (base, wr):
        for fn in c.body:
            if isinstance(fn, ast.FunctionDef):
                for st in ast.walk(fn):
                    if isinstance(st, ast.Assign) and any(_u(t) == FILEOBJ for t in st.targets):
                        stores.append((c.name, fn.name, _u(st)))
                    if isinstance(st, (ast.AugAssign, ast.AnnAssign)) and _u(st.target) == FILEOBJ:
                        stores.append((c.name, fn.name, _u(st)))
    if stores != [("FileBase", "_open", "self.file_obj = file_obj")]:
        raise Unsupported(f"{rel}: the file object is stored/wrapped elsewhere: {stores}")
    if "file_obj = self.opener(self.files[ifile], mode=self.mode)" not in [_u(s) for s in ast.walk(op) if isinstance(s, ast.Assign)]:
        raise Unsupported(f"{rel}: FileBase._open: the stored object is not the opener's result")
    # FileWriter.__init__: super().__init__([file], mode) and nothing on the file object
    winit = _method(wr, "__init__", rel)
    sup = [_u(s.value) for s in _body(winit) if isinstance(s, ast.Expr)]
    if "super().__init__([file], mode)" not in sup:
        raise Unsupported(f"{rel}: FileWriter.__init__ does not open [file] with the given mode: {sup}")
    extra = _same(_paths([s for s in _body(winit) if not (isinstance(s, ast.Expr) and _u(s.value) == "super().__init__([file], mode)")], [wr, base], "FileWriter.__init__"), "FileWriter.__init__")
    out["fops_init_extra"] = extra
    hier = [wr, base]
    out["fops_write"] = _same(_paths(_body(_method(wr, "write", rel)), hier, "FileWriter.write"), "FileWriter.write")
    out["fops_cwrite"] = _same(_paths(_body(_method(wr, "cwrite", rel)), hier, "FileWriter.cwrite"), "FileWriter.cwrite")
    out["fops_close"] = _same(_paths(_body(_method(base, "close", rel)), hier, "FileBase.close"), "FileBase.close")
    out["fops_exit"] = _same(_paths(_body(_method(base, "__exit__", rel)), hier, "FileBase.__exit__"), "FileBase.__exit__")
    ent = _method(base, "__enter__", rel)
    if [_u(s) for s in _body(ent)] != ["return self"]:
        raise Unsupported(f"{rel}: FileBase.__enter__ changed")
    for name in ("close", "__exit__", "__enter__", "_open", "_close_current"):
        if _method(wr, name, required=False) is not None:
            raise Unsupported(f"{rel}: FileWriter overrides {name}")
    return out


# ------------------------------------------------------------------------------------------------ B. prep_outfile
MODES = {"w": "MTrunc", "wb": "MTrunc", "w+": "MTrunc", "wb+": "MTrunc", "w+b": "MTrunc",
         "a": "MAppend", "ab": "MAppend", "a+": "MAppend", "ab+": "MAppend", "a+b": "MAppend",
         "r+": "MKeep", "rb+": "MKeep", "r+b": "MKeep"}

WCALLS = {"cwrite": "KCwrite", "write": "KWrite", "close": "KClose"}


def _prep_outfile(repo):
    rel = "sigpyproc/header.py"
    mod = _parse(repo, rel)
    fn = _method(_cls(mod, "Header", rel), "prep_outfile", rel)
    body = _body(fn)
    if not fn.args.args or [a.arg for a in fn.args.args][:2] != ["self", "filename"]:
        raise Unsupported(f"{rel}: prep_outfile signature changed")
    ctor = [s for s in body if isinstance(s, ast.Assign) and isinstance(s.value, ast.Call) and _u(s.value.func) == "FileWriter"]
    if len(ctor) != 1 or len(ctor[0].targets) != 1 or not isinstance(ctor[0].targets[0], ast.Name):
        raise Unsupported(f"{rel}: prep_outfile must construct exactly one FileWriter bound to a name")
    var = ctor[0].targets[0].id
    call = ctor[0].value
    if len(call.args) != 1 or _u(call.args[0]) != "filename":
        raise Unsupported(f"{rel}: prep_outfile: FileWriter is not opened on `filename`: {_u(call)}")
    # the output path is used for nothing but the FileWriter (no unlink / open / rename / edit_header on it before or after)
    for n in ast.walk(fn):
        if isinstance(n, ast.Name) and n.id == "filename" and n is not call.args[0]:
            raise Unsupported(f"{rel}: prep_outfile uses the output path for something else than the FileWriter (line {n.lineno})")
    _check_forbidden(fn, f"{rel}: prep_outfile")
    mode = None
    for k in call.keywords:
        if k.arg == "mode":
            if not (isinstance(k.value, ast.Constant) and isinstance(k.value.value, str)):
                raise Unsupported(f"{rel}: prep_outfile: non-literal mode")
            mode = k.value.value
    if mode is None:
        mode = "w"   # FileWriter's default; checked below
        fio = _parse(repo, "sigpyproc/io/fileio.py")
        wi = _method(_cls(fio, "FileWriter", "fileio.py"), "__init__", "fileio.py")
        dflt = {a.arg: d for a, d in zip(wi.args.kwonlyargs, wi.args.kw_defaults)}
        if "mode" not in dflt or not isinstance(dflt["mode"], ast.Constant):
            raise Unsupported(f"{rel}: prep_outfile: cannot determine the opening mode")
        mode = dflt["mode"].value
    if mode not in MODES:
        raise Unsupported(f"{rel}: prep_outfile: unknown opening mode {mode!r}")
    # what is done with the writer, in order
    idx = body.index(ctor[0])
    for s in body[:idx]:
        if _mentions(s, {var}):
            raise Unsupported(f"{rel}: prep_outfile uses {var} before constructing it")
    calls, hdr_arg, returned = [], None, False
    for s in body[idx + 1:]:
        if not _mentions(s, {var}):
            continue
        if isinstance(s, ast.Return) and _u(s.value) == var:
            returned = True
            continue
        if isinstance(s, ast.Expr) and isinstance(s.value, ast.Call) and isinstance(s.value.func, ast.Attribute) \
                and _u(s.value.func.value) == var and s.value.func.attr in WCALLS and not returned:
            calls.append(WCALLS[s.value.func.attr])
            if s.value.func.attr == "write":
                hdr_arg = _u(s.value.args[0]) if len(s.value.args) == 1 else None
            continue
        raise Unsupported(f"{rel}: prep_outfile does something else with the writer: {_u(s)[:80]}")
    if not returned:
        raise Unsupported(f"{rel}: prep_outfile does not return the writer")
    if "KWrite" in calls:
        src = [_u(s.value) for s in body if isinstance(s, ast.Assign) and _u(s.targets[0]) == (hdr_arg or "")]
        if src != ["sigproc.encode_header(new_hdr.to_sigproc())"]:
            raise Unsupported(f"{rel}: prep_outfile: what is written is not the encoded header: {hdr_arg} = {src}")
    return {"mode": mode, "mode_c": MODES[mode], "calls": ["KInit"] + calls}


# ------------------------------------------------------------------------------------------------ C. call sites
SINGLE = ["invert_freq", "apply_channel_mask", "downsample", "extract_samps", "requantize", "remove_zerodm", "subband"]
MULTI = ["extract_chans", "extract_bands"]
BATCH = {}
FORBIDDEN_CALLS = ("edit_header", "truncate", "os.replace", "os.rename", "os.remove", "os.unlink", "shutil.move", "shutil.copy")


def _is_prep(call):
    return isinstance(call, ast.Call) and _u(call.func) == "self.header.prep_outfile"


def _is_plan_loop(st):
    return isinstance(st, ast.For) and isinstance(st.iter, ast.Call) and _u(st.iter.func) == "self.read_plan"


def _wcall(st, var, where):
    """statement `var.<m>(...)` -> call constant, or None if the statement does not mention var"""
    if not _mentions(st, {var}):
        return None
    if isinstance(st, ast.Expr) and isinstance(st.value, ast.Call) and isinstance(st.value.func, ast.Attribute) \
            and isinstance(st.value.func.value, ast.Name) and st.value.func.value.id == var:
        m = st.value.func.attr
        if any(_mentions(a, {var}) for a in st.value.args) or any(_mentions(k.value, {var}) for k in st.value.keywords):
            raise Unsupported(f"{where}: {var} passed to its own method: {_u(st)[:80]}")
        if m in WCALLS:
            return WCALLS[m]
        raise Unsupported(f"{where}: unknown operation on the output: {_u(st)[:80]}")
    raise Unsupported(f"{where}: the output object is used outside a plain writer call: {_u(st)[:80]}")


def _check_forbidden(fn, where):
    for n in ast.walk(fn):
        if isinstance(n, ast.Call):
            t = _u(n.func)
            if any(t == f or t.endswith("." + f) for f in FORBIDDEN_CALLS):
                raise Unsupported(f"{where}: call of {t} in a writer")


def _check_loop_exits(loop_st, where):
    """the model takes ONE pass through the loop body per block of the read plan, every writer call of the body made in each pass:
    a `continue` / `break` / `return` anywhere inside the loop (also nested in an `if`, or in the inner loop over the outputs)
    skips writes the model would count, and the model has no way to represent that -> not supported.
    (`raise` is allowed: the call dies there, which is a crash point of the trace.)"""
    for st in loop_st.body:
        for n in ast.walk(st):
            if isinstance(n, (ast.Continue, ast.Break, ast.Return)):
                kind = type(n).__name__.lower()
                raise Unsupported(f"{where}: `{kind}` inside the read_plan loop (line {n.lineno}): a pass through the loop may skip its "
                                  "write, which the one-block-per-pass model does not represent")
            if isinstance(n, (ast.FunctionDef, ast.AsyncFunctionDef, ast.Lambda, ast.Yield, ast.YieldFrom, ast.Await)):
                raise Unsupported(f"{where}: {type(n).__name__} inside the read_plan loop (line {n.lineno})")
    if loop_st.orelse:
        raise Unsupported(f"{where}: the read_plan loop has an else clause")


def _check_path_uses(fn, namevar, where, extra_ok=()):
    """the output path variable may only be defaulted, handed to prep_outfile and returned"""
    par = _parents(fn)
    for n in ast.walk(fn):
        if isinstance(n, ast.Name) and n.id == namevar:
            p = par.get(n)
            if isinstance(n.ctx, ast.Store):
                continue
            if isinstance(p, ast.Compare) and _u(p) == f"{namevar} is None":
                continue
            if _is_prep(p) and p.args and p.args[0] is n:
                continue
            if isinstance(p, ast.Return):
                continue
            if any(isinstance(p, t) for t in extra_ok):
                continue
            raise Unsupported(f"{where}: the output path {namevar} is used for something else: {_u(p)[:80]}")


def _site_single(fn, where):
    body = _body(fn)
    _check_forbidden(fn, where)
    preps = [n for n in ast.walk(fn) if _is_prep(n)]
    if len(preps) != 1:
        raise Unsupported(f"{where}: {len(preps)} prep_outfile calls")
    at = [i for i, s in enumerate(body) if isinstance(s, ast.Assign) and s.value is preps[0]]
    if len(at) != 1 or len(body[at[0]].targets) != 1 or not isinstance(body[at[0]].targets[0], ast.Name):
        raise Unsupported(f"{where}: prep_outfile result is not bound by a top-level assignment")
    i0 = at[0]
    var = body[i0].targets[0].id
    if not preps[0].args or not isinstance(preps[0].args[0], ast.Name):
        raise Unsupported(f"{where}: prep_outfile path is not a plain name")
    namevar = preps[0].args[0].id
    _check_path_uses(fn, namevar, where)
    for s in body[:i0]:
        if _mentions(s, {var}):
            raise Unsupported(f"{where}: {var} used before prep_outfile")
    pre, loop, post = ["KPrep"], [], []
    seen_loop = False
    nloops = 0
    for s in body[i0 + 1:]:
        if _is_plan_loop(s):
            if seen_loop:
                raise Unsupported(f"{where}: second read_plan loop after prep_outfile")
            seen_loop = True
            nloops += 1
            if _mentions(s.iter, {var}) or s.orelse:
                raise Unsupported(f"{where}: loop header/else touches the output")
            _check_loop_exits(s, where)
            for b in s.body:
                c = _wcall(b, var, where) if not isinstance(b, (ast.If, ast.For, ast.While, ast.With, ast.Try)) else None
                if c is None and _mentions(b, {var}):
                    raise Unsupported(f"{where}: conditional or nested use of the output in the loop: {_u(b)[:80]}")
                if c:
                    loop.append(c)
        elif isinstance(s, ast.Return):
            if _u(s.value) != namevar:
                raise Unsupported(f"{where}: returns {_u(s.value)}, not the output path")
            if s is not body[-1]:
                raise Unsupported(f"{where}: `return` before the end of the writer (line {s.lineno}): the statements after it never run")
        else:
            if isinstance(s, (ast.If, ast.For, ast.While, ast.With, ast.Try)):
                raise Unsupported(f"{where}: compound statement after prep_outfile: {_u(s)[:60]}")
            c = _wcall(s, var, where)
            if c is None:
                raise Unsupported(f"{where}: statement between prep_outfile and return is not a writer call: {_u(s)[:80]}")
            (post if seen_loop else pre).append(c)
    if not seen_loop:
        raise Unsupported(f"{where}: no read_plan loop after prep_outfile")
    return pre, loop, post


def _bexpr(e, env, where):
    """integer expression of the batching arithmetic: names, literals, + - *, min/max"""
    if isinstance(e, ast.Constant) and isinstance(e.value, int) and not isinstance(e.value, bool):
        return str(e.value) if e.value >= 0 else f"({e.value})"
    if isinstance(e, ast.Name):
        if e.id in env:
            return env[e.id]
        raise Unsupported(f"{where}: batching arithmetic uses an unknown name {e.id}")
    if isinstance(e, ast.UnaryOp) and isinstance(e.op, ast.USub):
        return f"(- {_bexpr(e.operand, env, where)})"
    if isinstance(e, ast.BinOp) and isinstance(e.op, (ast.Add, ast.Sub, ast.Mult)):
        op = {ast.Add: "+", ast.Sub: "-", ast.Mult: "*"}[type(e.op)]
        return f"({_bexpr(e.left, env, where)} {op} {_bexpr(e.right, env, where)})"
    if isinstance(e, ast.Call) and isinstance(e.func, ast.Name) and e.func.id in ("min", "max") and len(e.args) == 2 and not e.keywords:
        return f"(Z.{e.func.id} {_bexpr(e.args[0], env, where)} {_bexpr(e.args[1], env, where)})"
    raise Unsupported(f"{where}: batching arithmetic outside the subset: {_u(e)[:80]}")


def _batching(fn, w, gen, where):
    """the loop `for batch_start in range(0, n, batch_size)` around the with-block, the slice of the returned file-name list that
    is opened in one batch, as (lo, hi) Gallina expressions over batch_start, batch_size, n"""
    body = _body(fn)
    outer = [s for s in body if isinstance(s, ast.For) and w in s.body]
    if len(outer) != 1:
        raise Unsupported(f"{where}: the with-block is not directly inside one top-level batch loop")
    lp = outer[0]
    if lp.orelse or not isinstance(lp.target, ast.Name):
        raise Unsupported(f"{where}: batch loop target/else changed")
    bvar = lp.target.id
    it = lp.iter
    if not (isinstance(it, ast.Call) and _u(it.func) == "range" and len(it.args) == 3 and _const_int(it.args[0]) == 0
            and isinstance(it.args[1], ast.Name) and _u(it.args[2]) == "batch_size"):
        raise Unsupported(f"{where}: batch loop is not `for {bvar} in range(0, <count>, batch_size)`: {_u(it)}")
    if "batch_size" not in [a.arg for a in fn.args.args + fn.args.kwonlyargs]:
        raise Unsupported(f"{where}: batch_size is not a parameter")
    nvar = it.args[1].id
    rets = [s for s in body if isinstance(s, ast.Return)]
    if len(rets) != 1 or not isinstance(rets[0].value, ast.Name):
        raise Unsupported(f"{where}: does not return the list of file names")
    flist = rets[0].value.id
    fdef = [s for s in body if isinstance(s, ast.Assign) and _u(s.targets[0]) == flist]
    if len(fdef) != 1 or not (isinstance(fdef[0].value, ast.ListComp) and len(fdef[0].value.generators) == 1 and not fdef[0].value.generators[0].ifs):
        raise Unsupported(f"{where}: the file-name list {flist} is not one plain list comprehension")
    src = fdef[0].value.generators[0].iter
    if isinstance(src, ast.Call) and _u(src.func) == "range" and len(src.args) == 1 and _u(src.args[0]) == nvar:
        pass
    elif isinstance(src, ast.Name) and any(isinstance(s, ast.Assign) and _u(s.targets[0]) == nvar and _u(s.value) == f"len({src.id})" for s in body):
        pass
    else:
        raise Unsupported(f"{where}: the batch loop does not count the file names: range(0, {nvar}, ...) vs {flist} over {_u(src)}")
    for s in body:
        if s is not fdef[0] and isinstance(s, (ast.Assign, ast.AugAssign)) and any(isinstance(n, ast.Name) and n.id in (flist, nvar) and isinstance(n.ctx, ast.Store) for n in ast.walk(s)):
            if not (isinstance(s, ast.Assign) and _u(s.targets[0]) == nvar):
                raise Unsupported(f"{where}: {flist}/{nvar} modified: {_u(s)[:60]}")
    env = {bvar: "batch_start", "batch_size": "batch_size", nvar: "n"}
    slices = {}
    for s in lp.body:
        if s is w:
            break
        if not (isinstance(s, ast.Assign) and len(s.targets) == 1 and isinstance(s.targets[0], ast.Name)):
            raise Unsupported(f"{where}: statement in the batch loop before the with-block is not a plain assignment: {_u(s)[:60]}")
        t = s.targets[0].id
        if t in env or t in slices:
            raise Unsupported(f"{where}: {t} assigned twice in the batch loop")
        if isinstance(s.value, ast.Subscript) and isinstance(s.value.slice, ast.Slice):
            sl = s.value.slice
            if sl.step is not None or sl.lower is None or sl.upper is None or not isinstance(s.value.value, ast.Name):
                raise Unsupported(f"{where}: batch slice with a step / open end: {_u(s)[:60]}")
            slices[t] = (s.value.value.id, _bexpr(sl.lower, env, where), _bexpr(sl.upper, env, where))
        else:
            env[t] = _bexpr(s.value, env, where)
    if lp.body[-1] is not w:
        raise Unsupported(f"{where}: statements after the with-block in the batch loop")
    used = [n.id for n in ast.walk(gen.iter) if isinstance(n, ast.Name) and n.id in slices]
    files = [t for t in used if slices[t][0] == flist]
    if len(files) != 1:
        raise Unsupported(f"{where}: the writers of a batch are not opened over one slice of {flist}")
    lo, hi = slices[files[0]][1:]
    for t, (b, l2, h2) in slices.items():
        if (l2, h2) != (lo, hi):
            raise Unsupported(f"{where}: batch slices disagree: {t} = {b}[{l2}:{h2}] vs {flist}[{lo}:{hi}]")
    if isinstance(gen.iter, ast.Call) and _u(gen.iter.func) == "zip" and not any(k.arg == "strict" and _u(k.value) == "True" for k in gen.iter.keywords):
        raise Unsupported(f"{where}: zip over the batch without strict=True")
    return lo, hi


def _site_multi(fn, where):
    """out_files = [stack.enter_context(self.header.prep_outfile(filename, ...)) for ... in batch_files] inside `with ExitStack() as stack`;
       for ... in self.read_plan(...): for ifile, out_file in enumerate(out_files): out_file.cwrite(...)"""
    _check_forbidden(fn, where)
    preps = [n for n in ast.walk(fn) if _is_prep(n)]
    if len(preps) != 1:
        raise Unsupported(f"{where}: {len(preps)} prep_outfile calls")
    withs = [n for n in ast.walk(fn) if isinstance(n, ast.With)]
    if len(withs) != 1 or len(withs[0].items) != 1 or _u(withs[0].items[0].context_expr) != "ExitStack()" \
            or not isinstance(withs[0].items[0].optional_vars, ast.Name):
        raise Unsupported(f"{where}: expected one `with ExitStack() as <name>`")
    w = withs[0]
    stack = w.items[0].optional_vars.id
    if len(w.body) != 2:
        raise Unsupported(f"{where}: with-body has {len(w.body)} statements, expected the writer list and the read loop")
    a, loop_st = w.body
    if not (isinstance(a, ast.Assign) and len(a.targets) == 1 and isinstance(a.targets[0], ast.Name) and isinstance(a.value, ast.ListComp)
            and len(a.value.generators) == 1 and not a.value.generators[0].ifs):
        raise Unsupported(f"{where}: writer list is not a plain list comprehension")
    lst = a.targets[0].id
    elt = a.value.elt
    if not (isinstance(elt, ast.Call) and _u(elt.func) == f"{stack}.enter_context" and len(elt.args) == 1 and elt.args[0] is preps[0]):
        raise Unsupported(f"{where}: writers are not entered into the ExitStack: {_u(elt)[:80]}")
    if not preps[0].args or not isinstance(preps[0].args[0], ast.Name):
        raise Unsupported(f"{where}: prep_outfile path is not a plain name")
    namevar = preps[0].args[0].id
    gen = a.value.generators[0]
    tnames = [n.id for n in ast.walk(gen.target) if isinstance(n, ast.Name)]
    if namevar not in tnames:
        raise Unsupported(f"{where}: output path {namevar} is not the comprehension variable")
    # every other mention of the stack / writer list
    for n in ast.walk(fn):
        if isinstance(n, ast.Name) and n.id == stack and isinstance(n.ctx, ast.Load):
            pass
    nstack = sum(1 for n in ast.walk(fn) if isinstance(n, ast.Name) and n.id == stack)
    if nstack != 2:
        raise Unsupported(f"{where}: the ExitStack is used for something else")
    if not _is_plan_loop(loop_st) or loop_st.orelse or _mentions(loop_st.iter, {lst}):
        raise Unsupported(f"{where}: second statement of the with-body is not the read_plan loop")
    _check_loop_exits(loop_st, where)
    loop = []
    inner = [b for b in loop_st.body if _mentions(b, {lst})]
    if len(inner) != 1 or not isinstance(inner[0], ast.For) or _u(inner[0].iter) != f"enumerate({lst})" or inner[0].orelse:
        raise Unsupported(f"{where}: the writer list is not consumed by one `for i, w in enumerate({lst})` per block")
    tgt = inner[0].target
    if not (isinstance(tgt, ast.Tuple) and len(tgt.elts) == 2 and all(isinstance(e, ast.Name) for e in tgt.elts)):
        raise Unsupported(f"{where}: enumerate target changed")
    var = tgt.elts[1].id
    for b in inner[0].body:
        if isinstance(b, (ast.If, ast.For, ast.While, ast.With, ast.Try)):
            if _mentions(b, {var}):
                raise Unsupported(f"{where}: conditional or nested use of the output in the loop: {_u(b)[:80]}")
            continue
        c = _wcall(b, var, where)
        if c:
            loop.append(c)
    nlst = sum(1 for n in ast.walk(fn) if isinstance(n, ast.Name) and n.id == lst)
    if nlst != 2:
        raise Unsupported(f"{where}: the writer list {lst} is used elsewhere")
    nvar = sum(1 for n in ast.walk(fn) if isinstance(n, ast.Name) and n.id == var)
    if nvar != 1 + len(loop):
        raise Unsupported(f"{where}: the writer {var} is used elsewhere")
    # the path variable: comprehension target, prep_outfile argument only
    par = _parents(fn)
    for n in ast.walk(fn):
        if isinstance(n, ast.Name) and n.id == namevar and isinstance(n.ctx, ast.Load):
            p = par.get(n)
            if _is_prep(p) and p.args[0] is n:
                continue
            if isinstance(p, ast.JoinedStr) or isinstance(p, ast.FormattedValue):
                continue
            raise Unsupported(f"{where}: the output path {namevar} is used for something else: {_u(p)[:80]}")
    # leaving the with-block runs FileBase.__exit__ on every writer
    BATCH[fn.name] = _batching(fn, w, gen, where)
    return ["KPrep"], loop, ["KExit"]


def _site_oneshot(fn, where):
    """FilterbankBlock.to_file: prep_outfile; cwrite; return   /   TimeSeries.to_tim: with prep_outfile(...) as f: f.cwrite(...)"""
    _check_forbidden(fn, where)
    body = _body(fn)
    preps = [n for n in ast.walk(fn) if _is_prep(n)]
    if len(preps) != 1:
        raise Unsupported(f"{where}: {len(preps)} prep_outfile calls")
    if not preps[0].args or not isinstance(preps[0].args[0], ast.Name):
        raise Unsupported(f"{where}: prep_outfile path is not a plain name")
    namevar = preps[0].args[0].id
    _check_path_uses(fn, namevar, where)
    for n in ast.walk(fn):
        if isinstance(n, (ast.For, ast.While)):
            raise Unsupported(f"{where}: loop in a one-shot writer")
    withs = [s for s in body if isinstance(s, ast.With)]
    if withs:
        if len(withs) != 1 or len(withs[0].items) != 1 or withs[0].items[0].context_expr is not preps[0] \
                or not isinstance(withs[0].items[0].optional_vars, ast.Name):
            raise Unsupported(f"{where}: unexpected with statement")
        var = withs[0].items[0].optional_vars.id
        calls = []
        for b in withs[0].body:
            if isinstance(b, (ast.If, ast.With, ast.Try)):
                raise Unsupported(f"{where}: compound statement in the with-body")
            c = _wcall(b, var, where)
            if c:
                calls.append(c)
        for s in body:
            if s is not withs[0] and _mentions(s, {var}):
                raise Unsupported(f"{where}: writer used outside the with-block")
        return ["KPrep"], calls, ["KExit"]
    at = [i for i, s in enumerate(body) if isinstance(s, ast.Assign) and s.value is preps[0]]
    if len(at) != 1 or not isinstance(body[at[0]].targets[0], ast.Name):
        raise Unsupported(f"{where}: prep_outfile result is not bound by a top-level assignment")
    var = body[at[0]].targets[0].id
    calls = []
    for s in body[at[0] + 1:]:
        if isinstance(s, ast.Return):
            if _u(s.value) != namevar:
                raise Unsupported(f"{where}: returns {_u(s.value)}, not the output path")
            continue
        if isinstance(s, (ast.If, ast.With, ast.Try)):
            raise Unsupported(f"{where}: compound statement after prep_outfile")
        c = _wcall(s, var, where)
        if c is None:
            raise Unsupported(f"{where}: statement after prep_outfile is not a writer call: {_u(s)[:80]}")
        calls.append(c)
    # split: the data writes are the 'loop' part (one iteration), a trailing close is the post part
    post = []
    while calls and calls[-1] == "KClose":
        post.insert(0, calls.pop())
    return ["KPrep"], calls, post


def _sites(repo):
    out, errors = [], []
    rel = "sigpyproc/base.py"
    fb = _cls(_parse(repo, rel), "Filterbank", rel)
    jobs = [(n, fb, rel, _site_single) for n in SINGLE] + [(n, fb, rel, _site_multi) for n in MULTI]
    jobs.append(("to_file", _cls(_parse(repo, "sigpyproc/block.py"), "FilterbankBlock", "sigpyproc/block.py"), "sigpyproc/block.py", _site_oneshot))
    jobs.append(("to_tim", _cls(_parse(repo, "sigpyproc/timeseries.py"), "TimeSeries", "sigpyproc/timeseries.py"), "sigpyproc/timeseries.py", _site_oneshot))
    jobs.append(("to_spec", _cls(_parse(repo, "sigpyproc/fourierseries.py"), "FourierSeries", "sigpyproc/fourierseries.py"), "sigpyproc/fourierseries.py", _site_oneshot))
    for name, cls, r, fnc in jobs:
        try:
            fn = _method(cls, name, r)
            pre, loop, post = fnc(fn, f"{cls.name}.{name}")
            out.append((name, cls.name, r, fn.lineno, pre, loop, post, fnc is _site_oneshot))
        except Unsupported as e:
            errors.append(str(e))
            out.append((name, cls.name, r, 0, ["KBad"], ["KBad"], ["KBad"], False))
    # no other method of Filterbank may create an output with prep_outfile without being listed here
    known = set(SINGLE + MULTI)
    for f in fb.body:
        if isinstance(f, ast.FunctionDef) and f.name not in known and any(_is_prep(n) for n in ast.walk(f)):
            errors.append(f"{rel}: Filterbank.{f.name} calls prep_outfile but is not a known streaming writer")
    # closure over the whole package: every function that prepares an output (prep_outfile) or constructs a FileWriter itself
    modelled = {(r, cls.name, name) for name, cls, r, _f in jobs} | {("sigpyproc/header.py", "Header", "prep_outfile")}
    try:
        for r, cname, fname, line, what in _output_creators(repo):
            if (r, cname, fname) not in modelled:
                errors.append(f"{r}:{line}: {cname + '.' if cname else ''}{fname} creates an output file ({what}) but is not among the "
                              "modelled writer sites: nothing is proved about what it leaves on disk between its writes")
    except Unsupported as e:
        errors.append(str(e))
    return out, errors


def _is_output_creation(n):
    """a call that opens an output in SIGPROC form: <anything>.prep_outfile(...) or FileWriter(...) / <module>.FileWriter(...)"""
    if not isinstance(n, ast.Call):
        return None
    f = n.func
    if isinstance(f, ast.Attribute) and f.attr == "prep_outfile":
        return "prep_outfile"
    if (isinstance(f, ast.Name) and f.id == "FileWriter") or (isinstance(f, ast.Attribute) and f.attr == "FileWriter"):
        return "FileWriter"
    return None


def _output_creators(repo):
    """(file, class or '', function, line, what) for every function / method / module body of the package sigpyproc that calls
    prep_outfile or constructs a FileWriter (nested functions are attributed to the outermost function; a reference to either
    name that is not a call -- an alias such as `mk = self.header.prep_outfile`, getattr(..., 'prep_outfile') -- is not supported)"""
    import os
    root = f"{repo}/sigpyproc"
    if not os.path.isdir(root):
        raise Unsupported("sigpyproc/: package directory not found")
    found = []
    for dp, dns, fns in sorted(os.walk(root)):
        dns.sort()
        for fnm in sorted(fns):
            if not fnm.endswith(".py"):
                continue
            rel = os.path.relpath(os.path.join(dp, fnm), repo)
            mod = _parse(repo, rel)
            par = _parents(mod)
            for n in ast.walk(mod):
                what = _is_output_creation(n)
                aliased = None
                if what is None:
                    if isinstance(n, ast.Attribute) and n.attr in ("prep_outfile", "FileWriter") and not (isinstance(par.get(n), ast.Call) and par[n].func is n):
                        aliased = n.attr
                    elif isinstance(n, ast.Name) and n.id == "FileWriter" and isinstance(n.ctx, ast.Load) \
                            and not (isinstance(par.get(n), ast.Call) and par[n].func is n):
                        # annotations (-> FileWriter) and isinstance checks are not aliases
                        q = par.get(n)
                        if not (isinstance(q, (ast.FunctionDef, ast.arg, ast.AnnAssign)) or (isinstance(q, ast.Call) and _u(q.func) == "isinstance")):
                            aliased = n.id
                    elif isinstance(n, ast.Constant) and n.value in ("prep_outfile", "FileWriter") and isinstance(par.get(n), ast.Call) \
                            and _u(par[n].func) in ("getattr", "setattr"):
                        aliased = n.value
                    if aliased is None:
                        continue
                # outermost enclosing function and its class
                fn, cls, q = None, None, par.get(n)
                while q is not None:
                    if isinstance(q, (ast.FunctionDef, ast.AsyncFunctionDef)):
                        fn, cls = q, None
                    elif isinstance(q, ast.ClassDef) and fn is not None and cls is None:
                        cls = q
                    q = par.get(q)
                if aliased is not None:
                    raise Unsupported(f"{rel}:{n.lineno}: {aliased} is referenced without being called (alias / getattr): "
                                      "the writers reachable through it cannot be enumerated")
                found.append((rel, cls.name if cls else "", fn.name if fn else "<module>", n.lineno, what))
    return found


# ------------------------------------------------------------------------------------------------ D/E. reader arithmetic
def _zexpr(e, env, where):
    """integer expression over + - * // with int(header["k"]) / header["k"] leaves"""
    if isinstance(e, ast.Constant) and isinstance(e.value, int) and not isinstance(e.value, bool):
        return str(e.value)
    if isinstance(e, ast.Call) and _u(e.func) == "int" and len(e.args) == 1:
        return _zexpr(e.args[0], env, where)
    if isinstance(e, ast.Subscript) and _u(e.value) == "header" and isinstance(e.slice, ast.Constant):
        k = e.slice.value
        if k not in env:
            raise Unsupported(f"{where}: unexpected header field {k!r}")
        return env[k]
    if isinstance(e, ast.Name) and e.id in env:
        return env[e.id]
    if isinstance(e, ast.Attribute) and _u(e) in env:
        return env[_u(e)]
    if isinstance(e, ast.BinOp):
        a, b = _zexpr(e.left, env, where), _zexpr(e.right, env, where)
        if isinstance(e.op, ast.Add):
            return f"({a} + {b})"
        if isinstance(e.op, ast.Sub):
            return f"({a} - {b})"
        if isinstance(e.op, ast.Mult):
            return f"({a} * {b})"
        if isinstance(e.op, ast.FloorDiv):
            return f"({a} / {b})"
    raise Unsupported(f"{where}: expression outside the integer subset: {_u(e)[:80]}")


def _reader(repo):
    out = {}
    rel = "sigpyproc/io/sigproc.py"
    mod = _parse(repo, rel)
    ph = _func(mod, "parse_header", rel)
    assigns = {}
    order = []
    for st in ast.walk(ph):
        if isinstance(st, ast.Assign) and isinstance(st.targets[0], ast.Subscript) and _u(st.targets[0].value) == "header" \
                and isinstance(st.targets[0].slice, ast.Constant):
            k = st.targets[0].slice.value
            if k in ("hdrlen", "filelen", "datalen", "nsamples"):
                if k in assigns:
                    raise Unsupported(f"{rel}: parse_header assigns header[{k!r}] twice")
                assigns[k] = st.value
                order.append((st.lineno, k))
    for k in ("hdrlen", "filelen", "datalen", "nsamples"):
        if k not in assigns:
            raise Unsupported(f"{rel}: parse_header does not set header[{k!r}]")
    if _u(assigns["hdrlen"]) != "fp.tell()" or _u(assigns["filelen"]) != "fp.tell()":
        raise Unsupported(f"{rel}: parse_header: hdrlen/filelen are not file positions")
    # filelen is the position after seeking to the end; hdrlen the position right after HEADER_END
    stm = [_u(s) for s in ast.walk(ph) if isinstance(s, (ast.Expr, ast.Assign, ast.Break))]
    try:
        i_end = stm.index("fp.seek(0, 2)")
        if not (stm.index("header['hdrlen'] = fp.tell()") < i_end < stm.index("header['filelen'] = fp.tell()")):
            raise ValueError
    except ValueError:
        raise Unsupported(f"{rel}: parse_header: order of tell/seek(0, 2) changed") from None
    out["datalen"] = _zexpr(assigns["datalen"], {"filelen": "filelen", "hdrlen": "hdrlen"}, "parse_header.datalen")
    out["nsamples"] = _zexpr(assigns["nsamples"], {"datalen": "datalen", "nbits": "nbits", "nchans": "nchans"}, "parse_header.nsamples")
    # header_keys: no sample count is stored
    hk = None
    for st in mod.body:
        if isinstance(st, ast.Assign) and _u(st.targets[0]) == "header_keys" and isinstance(st.value, ast.Dict):
            hk = [k.value for k in st.value.keys if isinstance(k, ast.Constant)]
            if len(hk) != len(st.value.keys):
                raise Unsupported(f"{rel}: header_keys has non-literal keys")
    if hk is None:
        raise Unsupported(f"{rel}: header_keys literal not found")
    out["count_keys"] = [k for k in hk if k in ("nsamples", "nsamps", "nsamp", "datalen", "filelen", "nbytes")]
    enc = _func(mod, "encode_header", rel)
    if not any(isinstance(n, ast.If) and _u(n.test) == "key not in header_keys" and len(n.body) == 1 and isinstance(n.body[0], ast.Continue)
               for n in ast.walk(enc)):
        raise Unsupported(f"{rel}: encode_header no longer filters by header_keys")
    # readers.py
    rel2 = "sigpyproc/readers.py"
    fr = _cls(_parse(repo, rel2), "FilReader", rel2)
    cs = [_u(s) for s in _body(_method(fr, "chan_stride", rel2))]
    ss = [_u(s) for s in _body(_method(fr, "samp_stride", rel2))]
    if cs != ["return self.bitsinfo.itemsize / self.bitsinfo.bitfact"] or ss != ["return int(self.header.nchans * self.chan_stride)"]:
        raise Unsupported(f"{rel2}: chan_stride/samp_stride changed: {cs} {ss}")
    # int(nchans * (itemsize / bitfact)): itemsize in {1,2,4}, bitfact in {1,2,4,8}: the float quotient is exact, int() of a
    # non-negative float is floor  =>  nchans * itemsize / bitfact over Z
    out["samp_stride"] = "((nchans * itemsize) / bitfact)"
    rb = _method(fr, "read_block", rel2)
    txt = [_u(s) for s in ast.walk(rb) if isinstance(s, (ast.Assign, ast.Expr, ast.If))]
    need = ["self._file.seek(start * self.samp_stride)", "data = self._file.cread(self.header.nchans * nsamps)",
            "nsamps_read = data.size // self.header.nchans", "data = data.reshape(nsamps_read, self.header.nchans).transpose()"]
    for t in need:
        if t not in txt:
            raise Unsupported(f"{rel2}: FilReader.read_block: statement missing: {t}")
    rng = [s for s in ast.walk(rb) if isinstance(s, ast.If) and "nsamps" in _u(s.test) and "start" in _u(s.test)]
    if len(rng) != 1 or _u(rng[0].test) != "start < 0 or start + nsamps > self.header.nsamples" or not isinstance(rng[0].body[-1], ast.Raise):
        raise Unsupported(f"{rel2}: FilReader.read_block: range check changed")
    seeks = [s for s in txt if "self._file.seek" in s or "self._file.cread" in s]
    if len(seeks) != 2:
        raise Unsupported(f"{rel2}: FilReader.read_block: extra seek/read: {seeks}")
    out["rb_seek"] = "(start * stride)"
    out["rb_units"] = "(nchans * nsamps)"
    fio = _parse(repo, "sigpyproc/io/fileio.py")
    cr = _method(_cls(fio, "FileReader", "fileio.py"), "cread", "fileio.py")
    if "count = nunits // self.bitsinfo.bitfact" not in [_u(s) for s in _body(cr)]:
        raise Unsupported("fileio.py: FileReader.cread: unit count changed")
    out["cread_count"] = "(nunits / bitfact)"
    # bits.py
    rel3 = "sigpyproc/io/bits.py"
    bm = _parse(repo, rel3)
    tab = None
    for st in bm.body:
        if isinstance(st, ast.Assign) and _u(st.targets[0]) == "nbits_to_dtype" and isinstance(st.value, ast.Dict):
            tab = {k.value: v.value for k, v in zip(st.value.keys, st.value.values)}
    sizes = {"<u1": 1, "<u2": 2, "<f4": 4, "<u4": 4, "<i1": 1, "<i2": 2}
    if tab is None or any(v not in sizes for v in tab.values()):
        raise Unsupported(f"{rel3}: nbits_to_dtype changed: {tab}")
    out["itemsize"] = {int(k): sizes[v] for k, v in tab.items()}
    bi = _cls(bm, "BitsInfo", rel3)
    if [_u(s) for s in _body(_method(bi, "unpack", rel3))] != ["return bool(self.nbits in {1, 2, 4})"] or \
       [_u(s) for s in _body(_method(bi, "bitfact", rel3))] != ["return 8 // self.nbits if self.unpack else 1"] or \
       [_u(s) for s in _body(_method(bi, "itemsize", rel3))] != ["return self.dtype.itemsize"] or \
       [_u(s) for s in _body(_method(bi, "dtype", rel3))] != ["return np.dtype(nbits_to_dtype[self.nbits])"]:
        raise Unsupported(f"{rel3}: BitsInfo.unpack/bitfact/itemsize/dtype changed")
    return out


# ------------------------------------------------------------------------------------------------ emit
HEADER = """(* GENERATED by tools/py2coq/gen_c20.py from sigpyproc/io/fileio.py, header.py, base.py, block.py, timeseries.py,
   io/sigproc.py, readers.py, io/bits.py -- do not edit *)
From Coq Require Import ZArith List Bool.
Import ListNotations.
Open Scope Z_scope.

(* how the output is opened: 'w'/'w+' truncate; 'a' append to what is there; 'r+' keep what is there and overwrite *)
Inductive omode := MTrunc | MAppend | MKeep.
(* primitive operations on the file object *)
Inductive fop := FOpen | FPut | FSeek0 | FSeekEnd | FTrunc0 | FClose | FReopen.
(* calls on a FileWriter as they appear at a call site *)
Inductive wcall := KInit | KPrep | KWrite | KCwrite | KClose | KExit | KBad.
Record site := mksite { s_pre : list wcall; s_loop : list wcall; s_post : list wcall }.
"""


def _lst(xs):
    return "[" + "; ".join(xs) + "]"


def gen_c20_sites(repo):
    errors = []
    out = [HEADER]
    # A
    try:
        fio = _fileio(repo)
    except Unsupported as e:
        errors.append(str(e))
        fio = None
    if fio is not None:
        out.append(f"(* FileBase.__init__: self.opener = {_cm(fio['opener_text'])} *)")
        out.append(f"Definition opener_unbuffered : bool := {'true' if fio['unbuffered'] else 'false'}.")
        out.append("(* FileWriter(file, mode=m) -> FileBase.__init__ -> self._open(0) -> self.opener(self.files[0], mode=self.mode), stored as is *)")
        out.append(f"Definition fops_init : list fop := {_lst(['FOpen'] + fio['fops_init_extra'])}.")
        out.append(f"Definition fops_write : list fop := {_lst(fio['fops_write'])}.   (* FileWriter.write *)")
        out.append(f"Definition fops_cwrite : list fop := {_lst(fio['fops_cwrite'])}.   (* FileWriter.cwrite, every control path *)")
        out.append(f"Definition fops_close : list fop := {_lst(fio['fops_close'])}.   (* FileBase.close on an open writer *)")
        out.append(f"Definition fops_exit : list fop := {_lst(fio['fops_exit'])}.   (* FileBase.__exit__ *)\n")
    else:
        out.append("(* UNSUPPORTED fileio.py: " + _cm(errors[-1]) + " *)\n")
    # B
    try:
        pp = _prep_outfile(repo)
        out.append(f"(* Header.prep_outfile: FileWriter(filename, mode={pp['mode']!r}, ...); the encoded header is written through it; it is returned *)")
        out.append(f"Definition prep_mode : omode := {pp['mode_c']}.")
        out.append(f"Definition calls_prep : list wcall := {_lst(pp['calls'])}.\n")
    except Unsupported as e:
        errors.append(str(e))
        out.append("(* UNSUPPORTED prep_outfile: " + _cm(str(e)) + " *)\n")
    # C
    try:
        BATCH.clear()
        sites, errs = _sites(repo)
        errors += errs
        for name, cname, r, line, pre, loop, post, oneshot in sites:
            kind = "one block, no loop" if oneshot else "one iteration of the read_plan loop"
            out.append(f"(* {cname}.{name} ({r}:{line}): before the data / per {kind} / after *)")
            out.append(f"Definition site_{name} : site := mksite {_lst(pre)} {_lst(loop)} {_lst(post)}.")
        out.append("Definition all_sites : list site := " + _lst([f"site_{s[0]}" for s in sites]) + ".\n")
        for name in MULTI:
            if name in BATCH:
                lo, hi = BATCH[name]
                out.append(f"(* Filterbank.{name}: `for batch_start in range(0, n, batch_size)`; the writers of one batch are opened over filenames[lo:hi], n = len(filenames) *)")
                out.append(f"Definition batch_lo_{name} (batch_start batch_size n : Z) : Z := {lo}.")
                out.append(f"Definition batch_hi_{name} (batch_start batch_size n : Z) : Z := {hi}.")
        out.append("")
    except Unsupported as e:
        errors.append(str(e))
        out.append("(* UNSUPPORTED call sites: " + _cm(str(e)) + " *)\n")
    # D/E
    try:
        rd = _reader(repo)
        out.append("(* io/sigproc.py parse_header: hdrlen = position after HEADER_END, filelen = position after seek(0, 2) *)")
        out.append(f"Definition infer_datalen (filelen hdrlen : Z) : Z := {rd['datalen']}.")
        out.append(f"Definition infer_nsamples (datalen nbits nchans : Z) : Z := {rd['nsamples']}.")
        out.append(f"(* header_keys holds no sample/byte count: {rd['count_keys']} *)")
        out.append(f"Definition header_stores_count : bool := {'true' if rd['count_keys'] else 'false'}.")
        out.append("(* io/bits.py: BitsInfo.itemsize (bytes per stored item) and bitfact (samples per item) *)")
        it = rd["itemsize"]
        chain = " else ".join(f"if nbits =? {k} then {v}" for k, v in sorted(it.items())) + " else 0"
        out.append(f"Definition itemsize (nbits : Z) : Z := {chain}.")
        out.append("Definition bitfact (nbits : Z) : Z := if (nbits =? 1) || (nbits =? 2) || (nbits =? 4) then 8 / nbits else 1.")
        out.append("(* readers.py FilReader.samp_stride = int(nchans * (itemsize / bitfact)); read_block: seek(start * samp_stride), cread(nchans * nsamps); "
                   "fileio.py FileReader.cread: count = nunits // bitfact *)")
        out.append(f"Definition samp_stride (nchans itemsize bitfact : Z) : Z := {rd['samp_stride']}.")
        out.append(f"Definition rb_seek (start stride : Z) : Z := {rd['rb_seek']}.")
        out.append(f"Definition rb_units (nchans nsamps : Z) : Z := {rd['rb_units']}.")
        out.append(f"Definition cread_count (nunits bitfact : Z) : Z := {rd['cread_count']}.")
    except Unsupported as e:
        errors.append(str(e))
        out.append("(* UNSUPPORTED reader arithmetic: " + _cm(str(e)) + " *)\n")
    return "\n".join(out) + "\n", errors


GENERATORS = {"C20Sites.v": gen_c20_sites}


if __name__ == "__main__":
    import sys
    t, errs = gen_c20_sites(sys.argv[1] if len(sys.argv) > 1 else "/repo")
    print(t)
    for e in errs:
        print("ERROR", e, file=sys.stderr)
