"""Translator plug-in for property C14 (time-domain filters and decimators).

Emits Gen/C14_stats.v from the *current* text of
  sigpyproc/core/stats.py   running_filter (pad sizes, pad mode, slice offset, filter table),
                            downsample_1d / downsample_2d / downsample_2d_flat (argument order of the kernel calls,
                            crop / reshape / axis of the NumPy paths, range checks),
  sigpyproc/core/kernels.py detrend_1d (typed translation to exact rationals Q; int64 arithmetic is made explicit
                            with `wrap64`, conversions to the *input* dtype with the hook `cast_in`),
                            accumulator type of the two mean kernels,
  sigpyproc/timeseries.py   TimeSeries.deredden / downsample call sites,
  sigpyproc/block.py        FilterbankBlock.downsample call site.

Fail closed: every item is matched against the small shape it is expected to have; anything else is reported
as an error (and the definition is omitted, so whatever depends on it no longer compiles).
The module must stay importable: py2coq is imported lazily inside the generator.
"""
from __future__ import annotations

import ast
import re


class _U(Exception):
    pass


def _fn(mod, name):
    for n in mod.body:
        if isinstance(n, ast.FunctionDef) and n.name == name:
            return n
    raise _U(f"function {name} not found")


def _method(mod, cls, name):
    for n in mod.body:
        if isinstance(n, ast.ClassDef) and n.name == cls:
            for f in n.body:
                if isinstance(f, ast.FunctionDef) and f.name == name:
                    return f
    raise _U(f"{cls}.{name} not found")


def _body(fn):
    """statements without the docstring"""
    return [s for s in fn.body if not (isinstance(s, ast.Expr) and isinstance(s.value, ast.Constant))]


def _is_raise_if(s):
    """`if c: msg = ...; raise ValueError(msg)` -> c, else None"""
    if not isinstance(s, ast.If) or s.orelse:
        return None
    b = [x for x in s.body if not (isinstance(x, ast.Assign) and isinstance(x.targets[0], ast.Name) and x.targets[0].id == "msg")]
    if len(b) == 1 and isinstance(b[0], ast.Raise):
        exc = b[0].exc
        name = ast.unparse(exc.func) if isinstance(exc, ast.Call) else ast.unparse(exc)
        if name != "ValueError":
            raise _U("raise of " + name)
        return s.test
    return None


def _cm(txt):
    return txt.replace("(*", "( *").replace("*)", "* )")


# ------------------------------------------------------------------------------------------------
# integer (Z) expressions: delegated to py2coq.expr
# ------------------------------------------------------------------------------------------------

def _zx(e, p2c):
    cx = p2c.Ctx([])
    try:
        return p2c.expr(e, cx)
    except p2c.Unsupported as ex:
        raise _U(str(ex)) from ex


def _zb(e, p2c):
    cx = p2c.Ctx([])
    try:
        return p2c.bexpr(e, cx)
    except p2c.Unsupported as ex:
        raise _U(str(ex)) from ex


def _strip_isinstance(test):
    """drop `not isinstance(x, T)` / `isinstance` disjuncts of a range check (type checks are not modelled);
    returns the remaining test or None when nothing remains"""
    def is_inst(t):
        if isinstance(t, ast.UnaryOp) and isinstance(t.op, ast.Not):
            t = t.operand
        return isinstance(t, ast.Call) and ast.unparse(t.func) == "isinstance"
    if is_inst(test):
        return None
    if isinstance(test, ast.BoolOp) and isinstance(test.op, ast.Or):
        vals = []
        for v in test.values:
            w = _strip_isinstance(v)
            if w is not None:
                vals.append(w)
        if not vals:
            return None
        if len(vals) == 1:
            return vals[0]
        return ast.BoolOp(op=ast.Or(), values=vals)
    # `array.ndim != 1` : dimensionality is not modelled either
    if isinstance(test, ast.Compare) and "ndim" in ast.unparse(test):
        return None
    return test


# ------------------------------------------------------------------------------------------------
# stats.running_filter
# ------------------------------------------------------------------------------------------------

def _gen_running_filter(mod, p2c, out):
    fn = _fn(mod, "running_filter")
    args = [a.arg for a in fn.args.args]
    if args[:2] != ["array", "window"]:
        raise _U("running_filter signature changed: " + ", ".join(args))
    body = _body(fn)
    table = pad_expr = pad_call = filt_call = ret = None
    table_name = func_name = padded_name = filtered_name = pad_name = None
    for s in body:
        if isinstance(s, ast.AnnAssign) and isinstance(s.value, ast.Dict):
            table_name, table = s.target.id, s.value
        elif isinstance(s, ast.Assign) and isinstance(s.value, ast.Dict):
            table_name, table = s.targets[0].id, s.value
        elif isinstance(s, ast.Assign) and len(s.targets) == 1 and isinstance(s.targets[0], ast.Name):
            t, v = s.targets[0].id, s.value
            txt = ast.unparse(v)
            if txt == "np.asarray(array)" and t == "array":
                continue
            if isinstance(v, ast.Call) and ast.unparse(v.func) == f"{table_name}.get":
                if [ast.unparse(a) for a in v.args] != ["method"]:
                    raise _U("filter lookup changed: " + txt)
                func_name = t
                continue
            if isinstance(v, ast.Call) and ast.unparse(v.func) == "np.pad":
                pad_call, padded_name = v, t
                continue
            if func_name and isinstance(v, ast.Call) and ast.unparse(v.func) == func_name:
                filt_call, filtered_name = v, t
                continue
            if isinstance(v, (ast.IfExp, ast.Tuple)):
                pad_name, pad_expr = t, v
                continue
            raise _U("running_filter: unexpected assignment " + ast.unparse(s)[:80])
        elif isinstance(s, ast.If):
            # `if filter_func is None: raise ValueError`
            if not (isinstance(s.test, ast.Compare) and ast.unparse(s.test) == f"{func_name} is None"):
                raise _U("running_filter: unexpected branch " + ast.unparse(s.test))
            if _is_raise_if(ast.If(test=s.test, body=s.body, orelse=[])) is None:
                raise _U("running_filter: branch does not raise")
        elif isinstance(s, ast.Return):
            ret = s.value
        else:
            raise _U("running_filter: unexpected statement " + ast.unparse(s)[:80])
    if None in (table, pad_expr, pad_call, filt_call, ret):
        raise _U("running_filter: pad / filter / return statement not found")
    tbl = {}
    for k, v in zip(table.keys, table.values):
        if not isinstance(k, ast.Constant):
            raise _U("filter table key")
        tbl[k.value] = ast.unparse(v)
    if tbl != {"mean": "bn.move_mean", "median": "bn.move_median"}:
        raise _U(f"filter table changed: {tbl}")
    pa = [ast.unparse(a) for a in pad_call.args] + [f"{k.arg}={ast.unparse(k.value)}" for k in pad_call.keywords]
    if pa not in ([f"array", pad_name, "'symmetric'"], ["array", pad_name, "mode='symmetric'"]):
        raise _U("np.pad call changed: " + ", ".join(pa))
    fa = [ast.unparse(a) for a in filt_call.args] + [f"{k.arg}={ast.unparse(k.value)}" for k in filt_call.keywords]
    if fa not in ([padded_name, "window"], [padded_name, "window=window"]):
        raise _U("moving-window call changed: " + ", ".join(fa))
    # return filtered[lo:]
    if not (isinstance(ret, ast.Subscript) and isinstance(ret.value, ast.Name) and ret.value.id == filtered_name
            and isinstance(ret.slice, ast.Slice) and ret.slice.upper is None and ret.slice.step is None
            and ret.slice.lower is not None):
        raise _U("return slice changed: " + ast.unparse(ret))
    lo = _zx(ret.slice.lower, p2c)

    def side(e, k):
        if isinstance(e, ast.Tuple):
            if len(e.elts) != 2:
                raise _U("pad_size is not a pair")
            return _zx(e.elts[k], p2c)
        if isinstance(e, ast.IfExp):
            return f"(if {_zb(e.test, p2c)} then {side(e.body, k)} else {side(e.orelse, k)})"
        raise _U("pad_size form " + ast.unparse(e))
    out.append("(* from stats.running_filter: np.pad(array, (rf_pad_left, rf_pad_right), 'symmetric'); the moving window function\n"
               "   {mean: bn.move_mean, median: bn.move_median} is called as f(padded, window); the result is sliced [rf_slice_start:] *)")
    out.append(f"Definition rf_pad_left (window : Z) : Z := {side(pad_expr, 0)}.")
    out.append(f"Definition rf_pad_right (window : Z) : Z := {side(pad_expr, 1)}.")
    out.append(f"Definition rf_slice_start (window : Z) : Z := {lo}.")
    out.append("")


# ------------------------------------------------------------------------------------------------
# decimation wrappers
# ------------------------------------------------------------------------------------------------

def _kernel_params(kmod, name):
    return [a.arg for a in _fn(kmod, name).args.args]


def _method_branches(body):
    """{method literal: statements of `if method == '<lit>':`}"""
    br = {}
    for s in body:
        if (isinstance(s, ast.If) and isinstance(s.test, ast.Compare) and isinstance(s.test.left, ast.Name)
                and s.test.left.id == "method" and len(s.test.ops) == 1 and isinstance(s.test.ops[0], ast.Eq)
                and isinstance(s.test.comparators[0], ast.Constant) and not s.orelse):
            br[s.test.comparators[0].value] = s.body
    return br


def _lets(stmts, p2c):
    """prefix of `let x := e in` for simple integer assignments; returns (text, remaining statements)"""
    txt, rest = "", []
    for s in stmts:
        if (isinstance(s, ast.Assign) and len(s.targets) == 1 and isinstance(s.targets[0], ast.Name) and not rest):
            try:
                txt += f"let {p2c.ident(s.targets[0].id)} := {_zx(s.value, p2c)} in "
                continue
            except _U:
                pass
        rest.append(s)
    return txt, rest


def _match_reshape_reduce(e, op_names, p2c):
    """np.<op>(<src>[crop].reshape(shape), axis=ax)  ->  (op text, src node, crop slices, shape elts, axis node)"""
    if not (isinstance(e, ast.Call) and ast.unparse(e.func) in op_names):
        raise _U("reduction call form: " + ast.unparse(e)[:80])
    kw = {k.arg: k.value for k in e.keywords}
    if len(e.args) != 1 or set(kw) != {"axis"}:
        raise _U("reduction arguments: " + ast.unparse(e)[:80])
    a = e.args[0]
    if not (isinstance(a, ast.Call) and isinstance(a.func, ast.Attribute) and a.func.attr == "reshape"):
        raise _U("reduction operand is not a reshape: " + ast.unparse(a)[:80])
    shape = a.args
    if len(shape) == 1 and isinstance(shape[0], ast.Tuple):
        shape = shape[0].elts
    elif len(shape) == 1 and isinstance(shape[0], ast.Name):
        shape = [shape[0]]
    return ast.unparse(e.func), a.func.value, list(shape), kw["axis"]


def _crop_slices(node):
    """x[:a]  or  x[:a, :b]  ->  (x node, [a, b])"""
    if not isinstance(node, ast.Subscript):
        raise _U("crop form: " + ast.unparse(node)[:80])
    sl = node.slice.elts if isinstance(node.slice, ast.Tuple) else [node.slice]
    ups = []
    for s in sl:
        if not (isinstance(s, ast.Slice) and s.lower is None and s.step is None and s.upper is not None):
            raise _U("crop slice form: " + ast.unparse(node)[:80])
        ups.append(s.upper)
    return node.value, ups


def _gen_downsample_1d(mod, kmod, p2c, out):
    fn = _fn(mod, "downsample_1d")
    if [a.arg for a in fn.args.args] != ["array", "factor", "method"]:
        raise _U("downsample_1d signature changed")
    body = _body(fn)
    conds = []
    for s in body:
        t = _is_raise_if(s) if isinstance(s, ast.If) else None
        if t is not None and not (isinstance(s.test, ast.Compare) and ast.unparse(s.test).startswith("method")):
            w = _strip_isinstance(t)
            if w is not None:
                conds.append(_zb(w, p2c))
    br = _method_branches(body)
    if set(br) != {"mean", "median"}:
        raise _U(f"downsample_1d method branches: {sorted(br)}")
    # mean: return kernels.downsample_1d_mean(array, factor)
    m = br["mean"]
    if not (len(m) == 1 and isinstance(m[0], ast.Return) and isinstance(m[0].value, ast.Call)
            and ast.unparse(m[0].value.func) == "kernels.downsample_1d_mean" and not m[0].value.keywords):
        raise _U("downsample_1d mean branch: " + ast.unparse(m[0])[:80])
    kp = _kernel_params(kmod, "downsample_1d_mean")
    cargs = [ast.unparse(a) for a in m[0].value.args]
    if kp != ["array", "factor"] or len(cargs) != 2 or cargs[0] != "array":
        raise _U(f"downsample_1d_mean call/params: {cargs} / {kp}")
    out.append("(* from stats.downsample_1d *)")
    out.append("Definition ds1_rejects (array_size factor : Z) : bool := " + (" || ".join(conds) if conds else "false") + ".")
    out.append("Definition ds1_mean_call (divcast : Z -> Z -> Z) (array_size : Z) (junk : arr) (array : arr) (factor : Z) : arr :=\n"
               f"  downsample_1d_mean_run divcast array_size junk array {_zx(m[0].value.args[1], p2c)}.")
    # median: nsamps_new = ...; return np.median(array[:nsamps_new].reshape(-1, factor), axis=1)
    lets, rest = _lets(br["median"], p2c)
    if not (len(rest) == 1 and isinstance(rest[0], ast.Return)):
        raise _U("downsample_1d median branch")
    op, src, shape, axis = _match_reshape_reduce(rest[0].value, ("np.median",), p2c)
    base, ups = _crop_slices(src)
    if ast.unparse(base) != "array" or len(ups) != 1:
        raise _U("downsample_1d median crop")
    if len(shape) != 2 or ast.unparse(shape[0]) != "-1" or ast.unparse(axis) != "1":
        raise _U("downsample_1d median reshape/axis: " + ast.unparse(rest[0].value))
    out.append(f"(* median path: {op}(array[:ds1_median_crop].reshape(-1, ds1_median_cols), axis=1) *)")
    out.append(f"Definition ds1_median_crop (array_size factor : Z) : Z := {lets}{_zx(ups[0], p2c)}.")
    out.append(f"Definition ds1_median_cols (array_size factor : Z) : Z := {lets}{_zx(shape[1], p2c)}.")
    out.append("")


def _gen_downsample_2d(mod, p2c, out):
    fn = _fn(mod, "downsample_2d")
    if [a.arg for a in fn.args.args] != ["array", "factors", "method"]:
        raise _U("downsample_2d signature changed")
    body = _body(fn)
    pre = []
    ret = None
    for s in body:
        if isinstance(s, ast.If):
            if _is_raise_if(s) is None:
                raise _U("downsample_2d: unexpected branch")
            continue
        if isinstance(s, ast.Return):
            ret = s.value
            continue
        pre.append(s)
    # factor1, factor2 = factors ; np_op = getattr(np, method) ; dim1, dim2 = array.shape ; new_dim* ; new_shape
    lets = ""
    seen = set()
    for s in pre:
        txt = ast.unparse(s)
        if txt == "factor1, factor2 = factors":
            seen.add("factors")
        elif txt == "np_op = getattr(np, method)":
            seen.add("op")
        elif txt == "dim1, dim2 = array.shape":
            seen.add("shape")
        elif isinstance(s, ast.Assign) and isinstance(s.targets[0], ast.Name) and isinstance(s.value, ast.Tuple):
            lets += f"let {s.targets[0].id} := ({', '.join(_zx(x, p2c) for x in s.value.elts)}) in "
        elif isinstance(s, ast.Assign) and isinstance(s.targets[0], ast.Name):
            lets += f"let {s.targets[0].id} := {_zx(s.value, p2c)} in "
        else:
            raise _U("downsample_2d: unexpected statement " + txt[:80])
    if seen != {"factors", "op", "shape"} or ret is None:
        raise _U("downsample_2d: unpacking statements changed")
    op, src, shape, axis = _match_reshape_reduce(ret, ("np_op",), p2c)
    base, ups = _crop_slices(src)
    if ast.unparse(base) != "array" or len(ups) != 2:
        raise _U("downsample_2d crop")
    if len(shape) == 1:
        shape_txt = _zx(shape[0], p2c)
    elif len(shape) == 4:
        shape_txt = "(" + ", ".join(_zx(x, p2c) for x in shape) + ")"
    else:
        raise _U("downsample_2d reshape rank")
    if not (isinstance(axis, ast.Tuple) and all(isinstance(x, ast.Constant) for x in axis.elts)):
        raise _U("downsample_2d axis")
    out.append("(* from stats.downsample_2d: np.<method>(array[:crop1, :crop2].reshape(ds2_shape), axis=ds2_axes) *)")
    sig = "(dim1 dim2 factor1 factor2 : Z)"
    out.append(f"Definition ds2_shape {sig} : Z * Z * Z * Z := {lets}{shape_txt}.")
    out.append(f"Definition ds2_crop {sig} : Z * Z := {lets}({_zx(ups[0], p2c)}, {_zx(ups[1], p2c)}).")
    out.append("Definition ds2_axes : list Z := [" + "; ".join(str(x.value) for x in axis.elts) + "].")
    out.append("")


def _gen_downsample_2d_flat(mod, kmod, p2c, out):
    fn = _fn(mod, "downsample_2d_flat")
    names = [a.arg for a in fn.args.args]
    if names != ["array", "factor1", "factor2", "dim1", "dim2", "method"]:
        raise _U("downsample_2d_flat signature changed")
    body = _body(fn)
    conds = []
    for s in body:
        t = _is_raise_if(s) if isinstance(s, ast.If) else None
        if t is not None and not ast.unparse(s.test).startswith("method"):
            w = _strip_isinstance(t)
            if w is not None:
                conds.append(_zb(w, p2c))
    br = _method_branches(body)
    if set(br) != {"mean", "median"}:
        raise _U(f"downsample_2d_flat method branches: {sorted(br)}")
    m = br["mean"]
    if not (len(m) == 1 and isinstance(m[0], ast.Return) and isinstance(m[0].value, ast.Call)
            and ast.unparse(m[0].value.func) == "kernels.downsample_2d_mean_flat" and not m[0].value.keywords):
        raise _U("downsample_2d_flat mean branch")
    kp = _kernel_params(kmod, "downsample_2d_mean_flat")
    ca = m[0].value.args
    if kp != ["array", "factor1", "factor2", "dim1", "dim2"] or len(ca) != 5 or ast.unparse(ca[0]) != "array":
        raise _U(f"downsample_2d_mean_flat call/params: {[ast.unparse(a) for a in ca]} / {kp}")
    sig = "(factor1 factor2 dim1 dim2 : Z)"
    out.append("(* from stats.downsample_2d_flat *)")
    out.append(f"Definition ds2f_rejects (array_size : Z) {sig} : bool := " + (" || ".join(conds) if conds else "false") + ".")
    out.append(f"Definition ds2f_mean_call (divcast : Z -> Z -> Z) (junk : arr) (array : arr) {sig} : arr :=\n"
               f"  downsample_2d_mean_flat_run divcast junk array " + " ".join(_zx(a, p2c) for a in ca[1:]) + ".")
    lets, rest = _lets(br["median"], p2c)
    # new_shape tuple, arr_2d = array.reshape(dim1, dim2)[:c1, :c2], result = np.median(arr_2d.reshape(new_shape), axis=(1,3)), return result.ravel()
    env = {}
    ret = None
    for s in rest:
        if isinstance(s, ast.Assign) and isinstance(s.targets[0], ast.Name):
            env[s.targets[0].id] = s.value
        elif isinstance(s, ast.Return):
            ret = s.value
        else:
            raise _U("downsample_2d_flat median: unexpected statement " + ast.unparse(s)[:80])
    if ret is None or not (isinstance(ret, ast.Call) and isinstance(ret.func, ast.Attribute) and ret.func.attr == "ravel"
                           and isinstance(ret.func.value, ast.Name) and ret.func.value.id in env):
        raise _U("downsample_2d_flat median: return form")
    red = env[ret.func.value.id]
    op, src, shape, axis = _match_reshape_reduce(red, ("np.median",), p2c)
    if isinstance(src, ast.Name) and src.id in env:
        src = env[src.id]
    base, ups = _crop_slices(src)
    if not (isinstance(base, ast.Call) and isinstance(base.func, ast.Attribute) and base.func.attr == "reshape"
            and ast.unparse(base.func.value) == "array" and len(base.args) == 2) or len(ups) != 2:
        raise _U("downsample_2d_flat median: array.reshape(dim1, dim2)[:c1, :c2] expected")
    if len(shape) == 1 and isinstance(shape[0], ast.Name) and shape[0].id in env and isinstance(env[shape[0].id], ast.Tuple):
        shape = env[shape[0].id].elts
    if len(shape) != 4:
        raise _U("downsample_2d_flat median: reshape rank")
    if not (isinstance(axis, ast.Tuple) and all(isinstance(x, ast.Constant) for x in axis.elts)):
        raise _U("downsample_2d_flat median axis")
    out.append("(* median path: np.median(array.reshape(ds2f_dims)[:crop1, :crop2].reshape(ds2f_shape), axis=ds2f_axes).ravel() *)")
    out.append(f"Definition ds2f_dims {sig} : Z * Z := ({_zx(base.args[0], p2c)}, {_zx(base.args[1], p2c)}).")
    out.append(f"Definition ds2f_shape {sig} : Z * Z * Z * Z := {lets}(" + ", ".join(_zx(x, p2c) for x in shape) + ").")
    out.append(f"Definition ds2f_crop {sig} : Z * Z := {lets}({_zx(ups[0], p2c)}, {_zx(ups[1], p2c)}).")
    out.append("Definition ds2f_axes : list Z := [" + "; ".join(str(x.value) for x in axis.elts) + "].")
    out.append("")


def _fastmath_flags(value, kmod):
    """the fastmath= argument of an njit call -> set of LLVM fast-math flags (True = all of them)"""
    ALL = {"nnan", "ninf", "nsz", "arcp", "contract", "afn", "reassoc"}
    if value is None:
        return set()
    if isinstance(value, ast.Constant) and isinstance(value.value, bool):
        return set(ALL) if value.value else set()
    if isinstance(value, ast.Name):
        defs = [n for n in kmod.body if isinstance(n, ast.Assign) and len(n.targets) == 1
                and isinstance(n.targets[0], ast.Name) and n.targets[0].id == value.id]
        if len(defs) != 1:
            raise _U(f"fastmath={value.id}: expected exactly one module-level definition")
        return _fastmath_flags(defs[0].value, kmod)
    if isinstance(value, ast.Set) and all(isinstance(e, ast.Constant) and isinstance(e.value, str) for e in value.elts):
        fl = {e.value for e in value.elts}
        if "fast" in fl:
            return set(ALL)
        if not fl <= ALL:
            raise _U(f"unknown fast-math flags {sorted(fl - ALL)}")
        return fl
    raise _U("fastmath argument " + ast.unparse(value))


def _gen_accumulators(kmod, out):
    """Two facts the integer model of the mean kernels rests on, read from the njit options:
    (1) the accumulator `temp` is float64, so integer-valued data (below 2^53) is summed exactly -- not in the array's
        own dtype;
    (2) the final true division is a division: without the fast-math flag `arcp` (x / y -> x * (1 / y)) the quotient of
        an exactly divisible sum is exact, and any other quotient truncates to the floor; with `arcp` a mean that is an
        integer can come out one ulp low and is truncated to the integer below on the store into an integer array."""
    twins = {"downsample_1d_mean": "downsample_1d_mean_parallel", "downsample_2d_mean_flat": "downsample_2d_mean_parallel"}
    for name in ("downsample_1d_mean", "downsample_2d_mean_flat"):
        fn = _fn(kmod, name)
        njits = [d for d in fn.decorator_list if isinstance(d, ast.Call) and ast.unparse(d.func) == "njit"]
        if len(njits) != 1:
            raise _U(f"{name}: expected one @njit(...) decorator")
        tw = [n for n in kmod.body if isinstance(n, ast.Assign) and len(n.targets) == 1 and isinstance(n.targets[0], ast.Name)
              and n.targets[0].id == twins[name]]
        if len(tw) != 1 or not (isinstance(tw[0].value, ast.Call) and ast.unparse(tw[0].value.func) == "njit"
                                and [ast.unparse(a) for a in tw[0].value.args] == [f"{name}.py_func"]):
            raise _U(f"{twins[name]}: expected njit({name}.py_func, ...)")
        for label, call in ((name, njits[0]), (twins[name], tw[0].value)):
            kw = {k.arg: k.value for k in call.keywords}
            decos = ast.unparse(call)
            mt = re.search(r"'temp':\s*([A-Za-z0-9_.]+)", ast.unparse(kw["locals"])) if "locals" in kw else None
            if mt and mt.group(1) not in ("types.f8", "types.float64", "f8", "float64"):
                raise _U(f"{label}: accumulator `temp` is declared {mt.group(1)}, not float64")
            typed = mt is not None
            inits = [s for s in ast.walk(fn) if isinstance(s, ast.Assign) and isinstance(s.targets[0], ast.Name) and s.targets[0].id == "temp"]
            if not inits:
                raise _U(f"{label}: accumulator `temp` not found")
            float_init = all(isinstance(s.value, ast.Constant) and isinstance(s.value.value, float) for s in inits)
            if not (typed or float_init):
                raise _U(f"{label}: accumulator is not float64 ({decos!r}, init={[ast.unparse(s.value) for s in inits]})")
            augs = [s for s in ast.walk(fn) if isinstance(s, ast.AugAssign) and isinstance(s.target, ast.Name) and s.target.id == "temp"]
            if not augs or not all(isinstance(s.op, ast.Add) for s in augs):
                raise _U(f"{label}: accumulator update is not +=")
            flags = _fastmath_flags(kw.get("fastmath"), kmod)
            if "arcp" in flags:
                raise _U(f"{label}: compiled with the fast-math flag arcp: `temp / factor` may be evaluated as temp * (1 / factor), "
                         "so the hook divcast is not 'exact quotient, then cast' (an integer mean can be truncated to the integer below)")
            out.append(f"(* {label}: accumulator `temp` is float64 ({'locals' if typed else 'float literal'}); fast-math flags {sorted(flags)} (no arcp) *)")
    out.append("Definition ds_accumulator_is_f8 : bool := true.")
    out.append("Definition ds_division_is_exact : bool := true.")
    out.append("")


# ------------------------------------------------------------------------------------------------
# kernels.detrend_1d : typed translation to Q
# ------------------------------------------------------------------------------------------------

class _Detrend:
    """Types: 'int' (int64, every + - * wrapped with wrap64), 'float' (float64, modelled exactly in Q),
    arrays as index functions with a dtype tag: 'in' (the caller's dtype: conversions to it go through the hook
    `cast_in`) or 'f' (a floating dtype: rounding not modelled)."""

    def __init__(self, fn):
        self.fn = fn
        self.ty = {}        # scalar name -> 'int' | 'float'
        self.arr = {}       # array name -> (dtype tag, lambda k: text)
        self.uses_cast = False
        self.uses_wrap = False
        self.size_name = None

    # ---- scalars -------------------------------------------------------------------------
    def sx(self, e):
        """-> (type, text); int text is a Z term, float text is a Q term"""
        if isinstance(e, ast.Constant):
            if isinstance(e.value, bool):
                raise _U("bool constant")
            if isinstance(e.value, int):
                return "int", (str(e.value) if e.value >= 0 else f"({e.value})")
            if isinstance(e.value, float):
                fr = e.value.as_integer_ratio()
                if fr[1] == 1:
                    return "float", (str(fr[0]) if fr[0] >= 0 else f"(-{-fr[0]})")
                return "float", f"({fr[0]} # {fr[1]})"
            raise _U(f"constant {e.value!r}")
        if isinstance(e, ast.Name):
            if e.id in self.ty:
                return self.ty[e.id], e.id
            raise _U(f"unknown scalar {e.id}")
        if isinstance(e, ast.Call):
            f = ast.unparse(e.func)
            if f == "len" and len(e.args) == 1 and isinstance(e.args[0], ast.Name) and e.args[0].id in self.arr:
                return "int", "arr_size"
            if f == "float" and len(e.args) == 1:
                return "float", self.fl(e.args[0])
            if f in ("np.float64", "np.float32") and len(e.args) == 1:
                return "float", self.fl(e.args[0])
            raise _U("call " + f)
        if isinstance(e, ast.Subscript) and isinstance(e.value, ast.Name) and e.value.id in self.arr and not isinstance(e.slice, (ast.Slice, ast.Tuple)):
            t, i = self.sx(e.slice)
            if t != "int":
                raise _U("non-integer index")
            return "float", f"({self.arr[e.value.id][1]('(' + i + ')%Z')})"
        if isinstance(e, ast.UnaryOp) and isinstance(e.op, ast.USub):
            t, x = self.sx(e.operand)
            return (t, f"(- {x})")
        if isinstance(e, ast.BinOp):
            if isinstance(e.op, ast.Pow):
                if not (isinstance(e.right, ast.Constant) and e.right.value == 2):
                    raise _U("power other than 2")
                t, x = self.sx(e.left)
                if t == "int":
                    self.uses_wrap = True
                    return "int", f"(wrap64 ({x} * {x}))"
                return "float", f"({x} * {x})"
            lt, l = self.sx(e.left)
            rt, r = self.sx(e.right)
            op = {ast.Add: "+", ast.Sub: "-", ast.Mult: "*"}.get(type(e.op))
            if op is not None:
                if lt == rt == "int":
                    self.uses_wrap = True
                    return "int", f"(wrap64 ({l} {op} {r}))"
                return "float", f"({self.inj(lt, l)} {op} {self.inj(rt, r)})"
            if isinstance(e.op, ast.Div):
                return "float", f"({self.inj(lt, l)} / {self.inj(rt, r)})"
            raise _U("binop " + type(e.op).__name__)
        raise _U("expression " + ast.unparse(e)[:60])

    @staticmethod
    def inj(t, x):
        if t == "float":
            return x
        if x.lstrip("(-").rstrip(")").isdigit():     # integer literal used as a float
            return x
        return f"inject_Z {x}" if x.isidentifier() else f"inject_Z ({x})%Z"

    def fl(self, e):
        t, x = self.sx(e)
        return self.inj(t, x)

    # ---- arrays --------------------------------------------------------------------------
    def is_arr(self, e):
        if isinstance(e, ast.Name):
            return e.id in self.arr
        if isinstance(e, ast.Call):
            f = ast.unparse(e.func)
            return f in ("np.arange", "np.zeros") or (isinstance(e.func, ast.Attribute) and e.func.attr == "astype")
        if isinstance(e, ast.BinOp):
            return self.is_arr(e.left) or self.is_arr(e.right)
        return False

    def dtype_tag(self, e):
        """`arr.dtype` -> tag of that array; np.float64/32 -> 'f'"""
        if isinstance(e, ast.Attribute) and e.attr == "dtype" and isinstance(e.value, ast.Name) and e.value.id in self.arr:
            return self.arr[e.value.id][0]
        if ast.unparse(e) in ("np.float64", "np.float32"):
            return "f"
        raise _U("dtype expression " + ast.unparse(e))

    def cast(self, tag, x):
        if tag == "in":
            self.uses_cast = True
            return f"cast_in ({x})"
        return x     # conversion to a floating dtype: rounding is not modelled

    def ax(self, e):
        """array expression -> (tag, fn k -> Q text) ; scalars are returned with tag None"""
        if isinstance(e, ast.Name) and e.id in self.arr:
            return self.arr[e.id]
        if isinstance(e, ast.Call):
            f = ast.unparse(e.func)
            kw = {k.arg: k.value for k in e.keywords}
            if f == "np.arange" and len(e.args) == 1 and set(kw) <= {"dtype"}:
                t, n = self.sx(e.args[0])
                if t != "int" or n != self.size_name:
                    raise _U("np.arange bound is not the array length")
                if "dtype" in kw:
                    tag = self.dtype_tag(kw["dtype"])
                    return tag, (lambda k, tag=tag: self.cast(tag, f"inject_Z {k}"))
                return "f", (lambda k: f"inject_Z {k}")     # int64 index, exact
            if isinstance(e.func, ast.Attribute) and e.func.attr == "astype" and len(e.args) == 1 and not kw:
                tag0, g = self.ax(e.func.value)
                if tag0 is None:
                    raise _U("astype of a scalar")
                tag = self.dtype_tag(e.args[0])
                return tag, (lambda k, tag=tag, g=g: self.cast(tag, g(k)))
            if f in ("np.zeros",) and len(e.args) == 1 and set(kw) <= {"dtype"}:
                return (self.dtype_tag(kw["dtype"]) if "dtype" in kw else "f"), (lambda k: "0")
        if isinstance(e, ast.BinOp) and type(e.op) in (ast.Add, ast.Sub, ast.Mult):
            op = {ast.Add: "+", ast.Sub: "-", ast.Mult: "*"}[type(e.op)]
            sides = []
            for x in (e.left, e.right):
                if self.is_arr(x):
                    sides.append(self.ax(x))
                else:
                    sides.append((None, None, self.scal(x)))
            if all(s[0] is None for s in sides):
                raise _U("not an array expression")
            tags = [s[0] for s in sides]
            # result dtype: two arrays of the input dtype stay in it (and wrap to it); anything involving a
            # floating array or a floating scalar is floating
            both_in = all(t == "in" for t in tags)

            def g(k, sides=sides, op=op, both_in=both_in):
                parts = [(s[1](k) if s[0] is not None else s[2]) for s in sides]
                txt = f"({parts[0]} {op} {parts[1]})"
                return self.cast("in", txt) if both_in else txt
            return ("in" if both_in else "f"), g
        raise _U("array expression " + ast.unparse(e)[:60])

    def scal(self, e):
        """scalar operand of a broadcast: python/numpy float scalars only"""
        if isinstance(e, ast.Call) and ast.unparse(e.func) in ("np.float32", "np.float64") and len(e.args) == 1:
            return self.fl(e.args[0])
        t, x = self.sx(e)
        if t != "float":
            raise _U("integer scalar broadcast against an array")
        return x

    # ---- statements ----------------------------------------------------------------------
    def run(self):
        fn = self.fn
        if [a.arg for a in fn.args.args] != ["arr"]:
            raise _U("detrend_1d signature changed")
        self.arr["arr"] = ("in", lambda k: f"arr_ {k}")
        body = _body(fn)
        lines = []
        early = []          # (condition text, array fn) for `if m == c: return <array>`
        requires = []
        local_arrays = []
        ret = None
        for s in body:
            if ret is not None:
                raise _U("code after return")
            if isinstance(s, ast.Assign) and len(s.targets) == 1 and isinstance(s.targets[0], ast.Name):
                n = s.targets[0].id
                if n == "msg":
                    continue
                if ast.unparse(s.value) == "len(arr)":
                    self.size_name = n
                    self.ty[n] = "int"
                    lines.append(f"let {n} := arr_size in")
                    continue
                if self.is_arr(s.value):
                    tag, g = self.ax(s.value)
                    if n in self.ty or n in self.arr:
                        raise _U(f"{n} rebound")
                    lines.append(f"let {n} : Z -> Q := fun k => {g('k')} in")
                    self.arr[n] = (tag, lambda k, n=n: f"{n} {k}")
                    continue
                if n in self.arr:
                    raise _U(f"{n} rebound from array to scalar")
                t, x = self.sx(s.value)
                if n in self.ty and self.ty[n] != t:
                    raise _U(f"{n} changes type")
                self.ty[n] = t
                lines.append(f"let {n} := {x}{'%Z' if t == 'int' else ''} in")
                continue
            if isinstance(s, ast.If):
                if not (isinstance(s.test, ast.Compare) and isinstance(s.test.left, ast.Name) and s.test.left.id == self.size_name
                        and len(s.test.ops) == 1 and isinstance(s.test.ops[0], ast.Eq) and isinstance(s.test.comparators[0], ast.Constant)
                        and not s.orelse):
                    raise _U("branch " + ast.unparse(s.test))
                c = s.test.comparators[0].value
                if _is_raise_if(s) is not None:
                    requires.append(c)
                    continue
                if len(s.body) == 1 and isinstance(s.body[0], ast.Return):
                    tag, g = self.ax(s.body[0].value)
                    lines.append(f"if ({self.size_name} =? {c})%Z then (fun k => {g('k')}) else")
                    continue
                raise _U("branch body " + ast.unparse(s)[:60])
            if isinstance(s, ast.For):
                if not (isinstance(s.iter, ast.Call) and ast.unparse(s.iter.func) == "range" and len(s.iter.args) == 1
                        and isinstance(s.target, ast.Name) and not s.orelse):
                    raise _U("loop form")
                t, n = self.sx(s.iter.args[0])
                if t != "int":
                    raise _U("loop bound")
                iv = s.target.id
                self.ty[iv] = "int"
                st, upd = [], []
                for b in s.body:
                    if not (isinstance(b, ast.AugAssign) and isinstance(b.target, ast.Name) and isinstance(b.op, ast.Add)):
                        raise _U("loop body statement " + ast.unparse(b)[:60])
                    a = b.target.id
                    if self.ty.get(a) != "float" or a in st:
                        raise _U(f"accumulator {a} is not a float scalar assigned once per iteration")
                    st.append(a)
                    upd.append(f"{a} + {self.fl(b.value)}")
                del self.ty[iv]
                pat = st[0] if len(st) == 1 else "'(" + ", ".join(st) + ")"
                val = st[0] if len(st) == 1 else "(" + ", ".join(st) + ")"
                new = upd[0] if len(upd) == 1 else "(" + ", ".join(upd) + ")"
                # NB every update reads the accumulators of the previous iteration only through its own name
                lines.append(f"let {pat} := iter (Z.to_nat {n}) (fun {iv} {pat} => {new}) {val} in")
                continue
            if isinstance(s, ast.Return):
                tag, g = self.ax(s.value)
                ret = f"(fun k => {g('k')})"
                continue
            raise _U("statement " + ast.unparse(s)[:60])
        if ret is None or self.size_name is None:
            raise _U("no return / length")
        params = []
        if self.uses_cast:
            params.append("(cast_in : Q -> Q)")
        params += ["(arr_size : Z)", "(arr_ : Z -> Q)"]
        txt = []
        if self.uses_wrap:
            txt.append("(* int64 arithmetic of the compiled kernel: + - * on integers wrap modulo 2^64 *)")
        txt.append("(* from kernels.detrend_1d; float64 scalars are exact rationals (rounding not modelled)"
                   + ("; cast_in = conversion to the dtype of the input array" if self.uses_cast else "") + " *)")
        txt.append(f"Definition detrend_1d_requires_size_not : list Z := [{'; '.join(str(c) for c in requires)}]%Z.")
        txt.append(f"Definition detrend_1d_run {' '.join(params)} : Z -> Q :=\n  " + "\n  ".join(lines) + "\n  " + ret + ".")
        return "\n".join(txt), self.uses_cast, self.uses_wrap


def _gen_detrend(kmod, out):
    d = _Detrend(_fn(kmod, "detrend_1d"))
    txt, uses_cast, uses_wrap = d.run()
    out.append("Open Scope Q_scope.")
    out.append("Definition wrap64 (z : Z) : Z := ((z + 2 ^ 63) mod 2 ^ 64 - 2 ^ 63)%Z.")
    out.append(txt)
    out.append("(* which hooks the current text needs *)")
    out.append(f"Definition detrend_1d_uses_input_dtype_cast : bool := {'true' if uses_cast else 'false'}.")
    out.append(f"Definition detrend_1d_uses_int64_arithmetic : bool := {'true' if uses_wrap else 'false'}.")
    out.append("Close Scope Q_scope.")
    out.append("")


# ------------------------------------------------------------------------------------------------
# call sites in timeseries.py / block.py
# ------------------------------------------------------------------------------------------------

def _find_call(fn, name):
    calls = [n for n in ast.walk(fn) if isinstance(n, ast.Call) and ast.unparse(n.func) == name]
    if len(calls) != 1:
        raise _U(f"{fn.name}: expected exactly one call of {name}, found {len(calls)}")
    return calls[0]


def _bind(call, params):
    """positional + keyword arguments -> {param: text}"""
    b = {}
    for p, a in zip(params, call.args):
        b[p] = ast.unparse(a)
    for k in call.keywords:
        if k.arg in b or k.arg not in params:
            raise _U("call binding " + ast.unparse(call))
        b[k.arg] = ast.unparse(k.value)
    return b


def _gen_cs_deredden(repo, p2c, out):
    ts = ast.parse(open(f"{repo}/sigpyproc/timeseries.py").read())
    # TimeSeries.deredden
    fn = _method(ts, "TimeSeries", "deredden")
    call = _find_call(fn, "stats.running_filter")
    b = _bind(call, ["array", "window", "method"])
    if b.get("array") != "self.data" or b.get("method") != "method" or "window" not in b:
        raise _U("deredden: running_filter arguments " + str(b))
    wname = b["window"]
    wdef = [s for s in ast.walk(fn) if isinstance(s, ast.Assign) and isinstance(s.targets[0], ast.Name) and s.targets[0].id == wname]
    if len(wdef) != 1 or ast.unparse(wdef[0].value) != "round(window / self.header.tsamp)":
        raise _U("deredden: window conversion changed")
    # the value assigned from the call, then `x = self.data - <that>` and `return TimeSeries(x, ...)`
    assigns = {s.targets[0].id: s for s in ast.walk(fn) if isinstance(s, ast.Assign) and isinstance(s.targets[0], ast.Name)}
    filt = [n for n, s in assigns.items() if s.value is call]
    rets = [s for s in ast.walk(fn) if isinstance(s, ast.Return)]
    if len(filt) != 1 or len(rets) != 1:
        raise _U("deredden: filter variable / return")
    r = rets[0].value
    if not (isinstance(r, ast.Call) and ast.unparse(r.func) == "TimeSeries" and isinstance(r.args[0], ast.Name) and r.args[0].id in assigns):
        raise _U("deredden: return form")
    comb = assigns[r.args[0].id].value
    if not (isinstance(comb, ast.BinOp) and type(comb.op) in (ast.Add, ast.Sub, ast.Mult)):
        raise _U("deredden: combination " + ast.unparse(comb))
    op = {ast.Add: "+", ast.Sub: "-", ast.Mult: "*"}[type(comb.op)]

    def leaf(e):
        t = ast.unparse(e)
        if t == "self.data":
            return "data k"
        if t == filt[0]:
            return "filt k"
        raise _U("deredden: operand " + t)
    out.append("(* from TimeSeries.deredden: window_bins = round(window / tsamp); stats.running_filter(self.data, window_bins, method=method) *)")
    out.append(f"Definition deredden_out (data filt : arr) : arr := fun k => ({leaf(comb.left)} {op} {leaf(comb.right)}).")


def _gen_cs_ts_downsample(repo, p2c, out):
    """TimeSeries.downsample, statement by statement (anything else is refused):
         [if <test on factor>: return self]      -> ts_downsample_returns_self
         v = stats.downsample_1d(self.data, <factor expression>, method=filter_method)   -> ts_downsample_factor_arg
         [hdr = {...}]                             header entries belong to C08; `nsamples` must be len(v)
         return TimeSeries(v, ...)                 the decimated array itself, unchanged, is the data of the result"""
    ts = ast.parse(open(f"{repo}/sigpyproc/timeseries.py").read())
    fn = _method(ts, "TimeSeries", "downsample")
    if [a.arg for a in fn.args.args] != ["self", "factor", "filter_method"]:
        raise _U("TimeSeries.downsample signature changed")
    call = _find_call(fn, "stats.downsample_1d")
    b = _bind(call, ["array", "factor", "method"])
    if b.get("array") != "self.data" or b.get("method") != "filter_method" or "factor" not in b:
        raise _U("TimeSeries.downsample: arguments " + str(b))
    fac_expr = call.args[1] if len(call.args) > 1 else [k.value for k in call.keywords if k.arg == "factor"][0]
    if {n.id for n in ast.walk(fac_expr) if isinstance(n, ast.Name)} - {"factor"}:
        raise _U("TimeSeries.downsample: factor argument " + ast.unparse(fac_expr))
    ident_f, self_test, data_name, seen_call, seen_ret = None, None, None, False, False
    for s in _body(fn):
        if seen_ret:
            raise _U("TimeSeries.downsample: statement after the return")
        if isinstance(s, ast.If) and not seen_call:
            if self_test is not None or s.orelse or not (len(s.body) == 1 and isinstance(s.body[0], ast.Return) and ast.unparse(s.body[0].value) == "self"):
                raise _U("TimeSeries.downsample: branch " + ast.unparse(s.test))
            if {n.id for n in ast.walk(s.test) if isinstance(n, ast.Name)} - {"factor"}:
                raise _U("TimeSeries.downsample: identity shortcut " + ast.unparse(s.test))
            self_test = s.test
            if isinstance(s.test, ast.Compare) and ast.unparse(s.test.left) == "factor" and len(s.test.ops) == 1 and isinstance(s.test.ops[0], ast.Eq):
                ident_f = _zx(s.test.comparators[0], p2c)
        elif isinstance(s, ast.Assign) and s.value is call and len(s.targets) == 1 and isinstance(s.targets[0], ast.Name) and not seen_call:
            data_name, seen_call = s.targets[0].id, True
        elif isinstance(s, ast.Assign) and seen_call and isinstance(s.value, ast.Dict) and isinstance(s.targets[0], ast.Name):
            for k, v in zip(s.value.keys, s.value.values):
                if ast.unparse(k) == "'nsamples'" and ast.unparse(v) != f"len({data_name})":
                    raise _U("TimeSeries.downsample: header nsamples is " + ast.unparse(v))
        elif isinstance(s, ast.Return) and seen_call:
            r = s.value
            if not (isinstance(r, ast.Call) and ast.unparse(r.func) == "TimeSeries" and r.args and isinstance(r.args[0], ast.Name) and r.args[0].id == data_name):
                raise _U("TimeSeries.downsample: return form " + ast.unparse(r))
            seen_ret = True
        else:
            raise _U("TimeSeries.downsample: statement " + ast.unparse(s)[:80])
    if not seen_ret:
        raise _U("TimeSeries.downsample: no return of the decimated series")
    out.append("(* from TimeSeries.downsample: returns self when ts_downsample_returns_self, else TimeSeries(stats.downsample_1d(self.data, "
               "ts_downsample_factor_arg, method=filter_method), ...) with header nsamples = len of that array *)")
    out.append(f"Definition ts_downsample_identity_factors : list Z := [{ident_f if ident_f is not None else ''}].")
    out.append(f"Definition ts_downsample_returns_self (factor : Z) : bool := {_zb(self_test, p2c) if self_test is not None else 'false'}.")
    out.append(f"Definition ts_downsample_factor_arg (factor : Z) : Z := {_zx(fac_expr, p2c)}.")


def _gen_cs_block_downsample(repo, p2c, out):
    bl = ast.parse(open(f"{repo}/sigpyproc/block.py").read())
    # FilterbankBlock.downsample
    fn = _method(bl, "FilterbankBlock", "downsample")
    if [a.arg for a in fn.args.args][:3] != ["self", "ffactor", "tfactor"]:
        raise _U("FilterbankBlock.downsample signature changed")
    call = _find_call(fn, "stats.downsample_2d")
    b = _bind(call, ["array", "factors", "method"])
    if b.get("array") != "self.data" or b.get("method") != "filter_method":
        raise _U("FilterbankBlock.downsample: arguments " + str(b))
    fac = call.args[1] if len(call.args) > 1 else [k.value for k in call.keywords if k.arg == "factors"][0]
    if not (isinstance(fac, ast.Tuple) and len(fac.elts) == 2):
        raise _U("FilterbankBlock.downsample: factors " + ast.unparse(fac))
    out.append("(* from FilterbankBlock.downsample: stats.downsample_2d(self.data, block_downsample_factors, filter_method); data is (nchans, nsamps) *)")
    out.append(f"Definition block_downsample_factors (ffactor tfactor : Z) : Z * Z := ({_zx(fac.elts[0], p2c)}, {_zx(fac.elts[1], p2c)}).")
    out.append("")


# ------------------------------------------------------------------------------------------------

def gen_c14(repo="/repo"):
    import py2coq as p2c      # lazy: this module is loaded while py2coq is still being imported
    out = ["(* GENERATED by tools/py2coq/gen_c14.py from sigpyproc/core/stats.py, core/kernels.py, timeseries.py, block.py -- do not edit *)",
           "From Coq Require Import ZArith QArith List Bool.", "Require Import SPP.Base.Rt SPP.Gen.Kernels.", "Import ListNotations.",
           "Open Scope Z_scope.", ""]
    errors = []
    try:
        smod = ast.parse(open(f"{repo}/sigpyproc/core/stats.py").read())
        kmod = ast.parse(open(f"{repo}/sigpyproc/core/kernels.py").read())
    except Exception as e:  # noqa: BLE001
        return "\n".join(out), [f"cannot parse sources: {e}"]
    items = [
        ("running_filter", lambda: _gen_running_filter(smod, p2c, out)),
        ("downsample_1d", lambda: _gen_downsample_1d(smod, kmod, p2c, out)),
        ("downsample_2d", lambda: _gen_downsample_2d(smod, p2c, out)),
        ("downsample_2d_flat", lambda: _gen_downsample_2d_flat(smod, kmod, p2c, out)),
        ("mean kernels accumulator", lambda: _gen_accumulators(kmod, out)),
        ("detrend_1d", lambda: _gen_detrend(kmod, out)),
        ("TimeSeries.deredden", lambda: _gen_cs_deredden(repo, p2c, out)),
        ("TimeSeries.downsample", lambda: _gen_cs_ts_downsample(repo, p2c, out)),
        ("FilterbankBlock.downsample", lambda: _gen_cs_block_downsample(repo, p2c, out)),
    ]
    for name, f in items:
        n0 = len(out)
        try:
            f()
        except _U as e:
            del out[n0:]
            errors.append(f"{name}: {e}")
            out.append(f"(* UNSUPPORTED {name}: {_cm(str(e))} *)\n")
        except Exception as e:  # noqa: BLE001  anything unexpected also fails closed
            del out[n0:]
            errors.append(f"{name}: {type(e).__name__}: {e}")
            out.append(f"(* UNSUPPORTED {name}: {_cm(type(e).__name__ + ': ' + str(e))} *)\n")
    return "\n".join(out) + "\n", errors


GENERATORS = {"C14_stats.v": gen_c14}


if __name__ == "__main__":
    import os
    import sys
    sys.path.insert(0, os.path.dirname(os.path.abspath(__file__)))
    t, errs = gen_c14(sys.argv[1] if len(sys.argv) > 1 else "/repo")
    print(t)
    for e_ in errs:
        print("ERROR", e_, file=sys.stderr)
