"""Gen/BitsApi.v: the public wrappers io/bits.py::unpack and ::pack -- argument validation (each refusal is a ValueError), bit-order
decision by the first character, output-buffer size rule, and the kernel selected through the f-string name -- regenerated from the
source.  Fail closed: any statement outside the recognised shape makes the generator refuse."""
import ast

import py2coq as P
from py2coq import Unsupported, Ctx, expr


def _body(fn):
    return [s for s in fn.body if not (isinstance(s, ast.Expr) and isinstance(s.value, ast.Constant))]


def _raise_value_error(stmts, what):
    if not (len(stmts) == 2 and isinstance(stmts[0], ast.Assign) and isinstance(stmts[1], ast.Raise)
            and ast.unparse(stmts[1].exc) == "ValueError(msg)"):
        raise Unsupported(f"{what}: refusal is not `msg = ...; raise ValueError(msg)`")


def _set_ints(node):
    if not (isinstance(node, ast.Set) and all(isinstance(e, ast.Constant) and isinstance(e.value, int) for e in node.elts)):
        raise Unsupported("expected a set of integers, found " + ast.unparse(node))
    return [e.value for e in node.elts]


def _set_chars(node):
    if not (isinstance(node, ast.Set) and all(isinstance(e, ast.Constant) and isinstance(e.value, str) and len(e.value) == 1 for e in node.elts)):
        raise Unsupported("expected a set of single characters, found " + ast.unparse(node))
    return [ord(e.value) for e in node.elts]


def _wrapper(fn, kind, other):
    """kind = 'unpack' | 'pack'; other = name of the output-buffer parameter; returns a dict of the extracted facts"""
    b = _body(fn)
    if len(b) != 9:
        raise Unsupported(f"{fn.name}: {len(b)} statements, expected 9 (3 refusals, order, bitfact, buffer rule, kernel lookup, call, return)")
    f = {}
    # 1. dtype
    if not (isinstance(b[0], ast.If) and ast.unparse(b[0].test) == "array.dtype != np.uint8" and not b[0].orelse):
        raise Unsupported(f"{fn.name}: first statement is not the uint8 check")
    _raise_value_error(b[0].body, fn.name + " dtype check")
    # 2. nbits
    t = b[1].test if isinstance(b[1], ast.If) else None
    if not (t is not None and isinstance(t, ast.Compare) and ast.unparse(t.left) == "nbits" and len(t.ops) == 1 and isinstance(t.ops[0], ast.NotIn) and not b[1].orelse):
        raise Unsupported(f"{fn.name}: second statement is not `if nbits not in {{...}}`")
    f["nbits"] = _set_ints(t.comparators[0])
    _raise_value_error(b[1].body, fn.name + " nbits check")
    # 3. bit order
    t = b[2].test if isinstance(b[2], ast.If) else None
    ok = (t is not None and isinstance(t, ast.BoolOp) and isinstance(t.op, ast.Or) and len(t.values) == 2 and ast.unparse(t.values[0]) == "not bitorder"
          and isinstance(t.values[1], ast.Compare) and ast.unparse(t.values[1].left) == "bitorder[0]" and isinstance(t.values[1].ops[0], ast.NotIn) and not b[2].orelse)
    if not ok:
        raise Unsupported(f"{fn.name}: third statement is not `if not bitorder or bitorder[0] not in {{...}}`")
    f["chars"] = _set_chars(t.values[1].comparators[0])
    _raise_value_error(b[2].body, fn.name + " bitorder check")
    # 4. order string
    s = b[3]
    if not (isinstance(s, ast.Assign) and ast.unparse(s.targets[0]) == "bitorder_str" and isinstance(s.value, ast.IfExp)
            and isinstance(s.value.test, ast.Compare) and ast.unparse(s.value.test.left) == "bitorder[0]" and isinstance(s.value.test.ops[0], ast.Eq)
            and isinstance(s.value.body, ast.Constant) and isinstance(s.value.orelse, ast.Constant)):
        raise Unsupported(f"{fn.name}: bitorder_str assignment changed: " + ast.unparse(s))
    f["char_true"] = ord(s.value.test.comparators[0].value)
    f["str_true"], f["str_false"] = s.value.body.value, s.value.orelse.value
    # 5. bitfact
    cx = Ctx(set(), attr_map={"array.size": "array_size", f"{other}.size": "buf_size"})
    if not (isinstance(b[4], ast.Assign) and ast.unparse(b[4].targets[0]) == "bitfact"):
        raise Unsupported(f"{fn.name}: bitfact assignment changed")
    f["bitfact"] = expr(b[4].value, cx)
    # 6. buffer rule
    s = b[5]
    if not (isinstance(s, ast.If) and ast.unparse(s.test) == f"{other} is None" and len(s.body) == 1 and len(s.orelse) == 1 and isinstance(s.orelse[0], ast.If)
            and not s.orelse[0].orelse):
        raise Unsupported(f"{fn.name}: output-buffer rule changed: " + ast.unparse(s)[:100])
    alloc = s.body[0]
    if not (isinstance(alloc, ast.Assign) and ast.unparse(alloc.targets[0]) == other and isinstance(alloc.value, ast.Call)
            and ast.unparse(alloc.value.func) == "np.zeros" and not alloc.value.args
            and {k.arg for k in alloc.value.keywords} == {"shape", "dtype"}):
        raise Unsupported(f"{fn.name}: default output buffer is not a fresh np.zeros(shape=..., dtype=...): " + ast.unparse(alloc))
    kw = {k.arg: k.value for k in alloc.value.keywords}
    if ast.unparse(kw["dtype"]) != "np.uint8":
        raise Unsupported(f"{fn.name}: default output buffer dtype " + ast.unparse(kw["dtype"]))
    f["alloc_size"] = expr(kw["shape"], cx)
    chk = s.orelse[0].test
    if not (isinstance(chk, ast.Compare) and ast.unparse(chk.left) == f"{other}.size" and len(chk.ops) == 1 and isinstance(chk.ops[0], ast.NotEq)):
        raise Unsupported(f"{fn.name}: buffer size check changed: " + ast.unparse(chk))
    f["need_size"] = expr(chk.comparators[0], cx)
    _raise_value_error(s.orelse[0].body, fn.name + " buffer size check")
    # 7. kernel lookup through the f-string
    s = b[6]
    if not (isinstance(s, ast.Assign) and isinstance(s.value, ast.Call) and ast.unparse(s.value.func) == "getattr" and len(s.value.args) == 2
            and ast.unparse(s.value.args[0]) == "kernels" and isinstance(s.value.args[1], ast.JoinedStr)):
        raise Unsupported(f"{fn.name}: kernel lookup changed: " + ast.unparse(s))
    parts = []
    for v in s.value.args[1].values:
        if isinstance(v, ast.Constant):
            parts.append(("lit", v.value))
        elif isinstance(v, ast.FormattedValue) and isinstance(v.value, ast.Name) and v.value.id in ("nbits", "bitorder_str"):
            spec = ast.unparse(v.format_spec) if v.format_spec is not None else ""
            if v.value.id == "nbits" and spec not in ("", "f'd'"):
                raise Unsupported(f"{fn.name}: format of nbits in the kernel name: {spec}")
            parts.append(("var", v.value.id))
        else:
            raise Unsupported(f"{fn.name}: kernel name piece " + ast.unparse(v))
    f["name"] = parts
    func_var = ast.unparse(s.targets[0])
    # 8/9. call and return
    if ast.unparse(b[7]) != f"{func_var}(array, {other})" or ast.unparse(b[8]) != f"return {other}":
        raise Unsupported(f"{fn.name}: kernel call / return changed: {ast.unparse(b[7])} ; {ast.unparse(b[8])}")
    return f


def _kernel_name(parts, nbits, order_str):
    return "".join(v if k == "lit" else (str(nbits) if v == "nbits" else order_str) for k, v in parts)


def gen_bits(repo="/repo"):
    out = ["(* GENERATED by tools/py2coq/gen_bits.py from sigpyproc/io/bits.py (unpack, pack) -- do not edit *)",
           "From Coq Require Import ZArith List Bool.", "Require Import SPP.Base.Rt SPP.Gen.Kernels.", "Import ListNotations.", "Open Scope Z_scope.", ""]
    errors = []
    try:
        _, fns = P.find_functions(f"{repo}/sigpyproc/io/bits.py")
        known = set(P.KERNELS)
        for kind, other in (("unpack", "unpacked"), ("pack", "packed")):
            f = _wrapper(fns[kind], kind, other)
            nb = f["nbits"]
            out.append(f"(* {kind}: accepted depths {nb}; accepted first characters of bitorder {[chr(c) for c in f['chars']]}; "
                       f"'{chr(f['char_true'])}' -> {f['str_true']!r}, anything else accepted -> {f['str_false']!r} *)")
            out.append(f"Definition {kind}_nbits_ok (nbits : Z) : bool := " + " || ".join(f"(nbits =? {n})" for n in nb) + ".")
            out.append(f"Definition {kind}_order_ok (first : option Z) : bool := match first with None => false | Some c => "
                       + " || ".join(f"(c =? {c})" for c in f["chars"]) + " end.")
            out.append(f"Definition {kind}_order_true (first : option Z) : bool := match first with Some c => c =? {f['char_true']} | None => false end.")
            # the kernel table
            rows = []
            for n in nb:
                kt, kf = _kernel_name(f["name"], n, f["str_true"]), _kernel_name(f["name"], n, f["str_false"])
                for k in (kt, kf):
                    if k not in known:
                        raise Unsupported(f"{kind}: the kernel name {k} selected for nbits={n} is not one of the translated kernels")
                rows.append((n, kt, kf))
            sel = ""
            for i, (n, kt, kf) in enumerate(rows):
                lead = "  " + ("if" if i == 0 else "else if") + f" nbits =? {n} then"
                sel += f"{lead} (if ord_true then {kt}_run n a u else {kf}_run n a u)\n"
            sel += "  else u."
            out.append(f"Definition {kind}_kernel (nbits : Z) (ord_true : bool) (n : Z) (a u : arr) : arr :=\n{sel}")
            out.append(f"Definition {kind}_order_true_is_big : bool := {'true' if f['str_true'] == 'big' else 'false'}.")
            # the wrapper: None = ValueError; Some (array, size)
            nsize = "array_size" if kind == "unpack" else f["alloc_size"]
            out.append(f"Definition {kind}_api (is_u8 : bool) (nbits : Z) (first : option Z) (array : arr) (array_size : Z) (buf : option (arr * Z)) : option (arr * Z) :=\n"
                       f"  if negb is_u8 then None else if negb ({kind}_nbits_ok nbits) then None else if negb ({kind}_order_ok first) then None else\n"
                       f"  let ord_true := {kind}_order_true first in\n"
                       f"  let bitfact := {f['bitfact']} in\n"
                       f"  match buf with\n"
                       f"  | None => Some ({kind}_kernel nbits ord_true {nsize} array zeros, {f['alloc_size']})\n"
                       f"  | Some (u, buf_size) => if negb (buf_size =? {f['need_size']}) then None else Some ({kind}_kernel nbits ord_true {nsize} array u, buf_size)\n"
                       f"  end.\n")
    except (Unsupported, KeyError, IndexError, AttributeError) as e:
        errors.append(f"io/bits.py: {e}")
        out.append(f"(* UNSUPPORTED io/bits.py wrappers: {str(e).replace('*)', '* )')} *)\n")
    return "\n".join(out), errors


GENERATORS = {"BitsApi.v": gen_bits}
