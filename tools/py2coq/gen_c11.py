"""py2coq plug-in for C11 (folding): Gen/C11Fold.v.

Read from the ast of /repo's CURRENT sources on every run (fail closed -- anything outside the accepted shape is an error,
which makes the C11 proof side red):

  * sigpyproc/core/kernels.py::fold -- a two-level loop nest `for isamp in range(E1): <scalar lets>; for ichan in range(E2):
    <scalar lets>; <array>[i] += v ...` preceded by scalar lets.  Parameter types come from the numba signature
    (`u1[:]/f4[:]/i4[:]` arrays, `i4` integers, `f4` floats).  Every float-valued expression is emitted over Q (EXACT rational
    arithmetic: float64 rounding is not modelled, see DESIGN.md section 10); `/` is Qdiv, a `//` with a float operand is
    `Qfloor (a / b)`, `int()` of a float is truncation towards zero (`qtrunc`), `abs`, `%` as in Python.  For every scalar
    local `v` a definition `fold_v` is emitted holding the backward slice of the statements `v` depends on (free variables:
    kernel parameters and the loop variables), and the loop nest `fold_run` binds each local to its `fold_v` at the place
    where the kernel assigns it.  The stores become `upd`.
  * sigpyproc/base.py::Filterbank.fold -- gulp adjustment, nbands clamp, read_plan arguments, the argument expressions of the
    kernels.fold call (in particular which sample count is passed as `total_nsamps` and the `index`), allocation lengths,
    the final `fold_ar /= count_ar` and the reshape order.
  * sigpyproc/timeseries.py::TimeSeries.fold -- the argument expressions of its single kernels.fold call, final division, reshape.
"""
from __future__ import annotations

import ast
import re
from fractions import Fraction

KERNELS = "sigpyproc/core/kernels.py"
BASE = "sigpyproc/base.py"
TSER = "sigpyproc/timeseries.py"

COQ_RESERVED = {"at", "end", "in", "fun", "mod", "as", "iter", "upd", "zeros", "arr", "Type", "Set", "Prop", "val"}


class Unsupported(Exception):
    pass


def cid(n):
    return n + "_" if n in COQ_RESERVED else n


def qlit(fr: Fraction) -> str:
    return f"({fr.numerator} # {fr.denominator})%Q" if fr >= 0 else f"(Qopp ({-fr.numerator} # {fr.denominator}))%Q"


def toq(txt, ty):
    return txt if ty == "Q" else f"(inject_Z {txt})"


class Env:
    def __init__(self, types, arrays, consts):
        self.types = dict(types)     # name -> "Z" | "Q"
        self.arrays = set(arrays)
        self.consts = consts         # module-level float/int constants


def tex(e, env: Env):
    """typed translation of an expression: returns (coq text, "Z" | "Q")"""
    if isinstance(e, ast.Constant):
        if isinstance(e.value, bool):
            raise Unsupported("bool constant")
        if isinstance(e.value, int):
            return (str(e.value) if e.value >= 0 else f"({e.value})"), "Z"
        if isinstance(e.value, float):
            return qlit(Fraction(e.value)), "Q"
        raise Unsupported(f"constant {e.value!r}")
    if isinstance(e, ast.Name):
        if e.id in env.types:
            return cid(e.id), env.types[e.id]
        if e.id in env.consts:
            v = env.consts[e.id]
            if isinstance(v, int):
                return str(v), "Z"
            return qlit(Fraction(v)), "Q"
        raise Unsupported(f"unknown name {e.id}")
    if isinstance(e, ast.UnaryOp) and isinstance(e.op, ast.USub):
        t, ty = tex(e.operand, env)
        return (f"(- {t})%Z", "Z") if ty == "Z" else (f"(Qopp {t})", "Q")
    if isinstance(e, ast.BinOp):
        (l, lt), (r, rt) = tex(e.left, env), tex(e.right, env)
        op = type(e.op)
        if op in (ast.Add, ast.Sub, ast.Mult):
            if lt == "Z" and rt == "Z":
                return f"({l} {({ast.Add: '+', ast.Sub: '-', ast.Mult: '*'})[op]} {r})%Z", "Z"
            fn = {ast.Add: "Qplus", ast.Sub: "Qminus", ast.Mult: "Qmult"}[op]
            return f"({fn} {toq(l, lt)} {toq(r, rt)})", "Q"
        if op is ast.Div:
            return f"(Qdiv {toq(l, lt)} {toq(r, rt)})", "Q"
        if op is ast.FloorDiv:
            if lt == "Z" and rt == "Z":
                return f"({l} / {r})%Z", "Z"
            # float floor division: an integer-valued float; exact floor of the exact quotient in the model
            return f"(Qfloor (Qdiv {toq(l, lt)} {toq(r, rt)}))", "Z"
        if op is ast.Mod:
            if lt == "Z" and rt == "Z":
                return f"({l} mod {r})%Z", "Z"
            raise Unsupported("float modulo")
        raise Unsupported("binop " + op.__name__)
    if isinstance(e, ast.Call) and isinstance(e.func, ast.Name) and len(e.args) == 1 and not e.keywords:
        a, ty = tex(e.args[0], env)
        if e.func.id == "int":
            return (a, "Z") if ty == "Z" else (f"(qtrunc {a})", "Z")
        if e.func.id == "abs":
            return (f"(Z.abs {a})", "Z") if ty == "Z" else (f"(Qabs {a})", "Q")
        raise Unsupported("call " + e.func.id)
    if isinstance(e, ast.Subscript) and isinstance(e.value, ast.Name) and e.value.id in env.arrays:
        if isinstance(e.slice, (ast.Slice, ast.Tuple)):
            raise Unsupported("slice / multi-dimensional load")
        i, ty = tex(e.slice, env)
        if ty != "Z":
            raise Unsupported("float array index " + ast.unparse(e))
        return f"({cid(e.value.id)} {i})", "Z"
    raise Unsupported("expression " + ast.unparse(e)[:80])


def names_in(e):
    funcs = {id(n.func) for n in ast.walk(e) if isinstance(n, ast.Call)}
    return {n.id for n in ast.walk(e) if isinstance(n, ast.Name) and id(n) not in funcs}


def _strip_doc(body):
    return [s for s in body if not (isinstance(s, ast.Expr) and isinstance(s.value, ast.Constant))]


def _module(repo, rel):
    return ast.parse(open(f"{repo}/{rel}").read())


def _range_loop(s):
    if not (isinstance(s, ast.For) and isinstance(s.target, ast.Name) and not s.orelse and isinstance(s.iter, ast.Call)
            and isinstance(s.iter.func, ast.Name) and s.iter.func.id in ("range", "prange") and len(s.iter.args) == 1 and not s.iter.keywords):
        raise Unsupported("loop form: " + ast.unparse(s)[:80])
    return s.target.id, s.iter.args[0], s.iter.func.id


def gen_kernel(repo, errors):
    mod = _module(repo, KERNELS)
    consts = {}
    fn = None
    for node in mod.body:
        if isinstance(node, ast.Assign) and len(node.targets) == 1 and isinstance(node.targets[0], ast.Name) \
                and isinstance(node.value, ast.Constant) and isinstance(node.value.value, (int, float)) and not isinstance(node.value.value, bool):
            consts[node.targets[0].id] = node.value.value
        if isinstance(node, ast.FunctionDef) and node.name == "fold":
            fn = node
    if fn is None:
        raise Unsupported("kernels.fold not found")
    # ---- parameter types from the numba signature(s) ----
    sigs = []
    for d in fn.decorator_list:
        for c in ast.walk(d):
            if isinstance(c, ast.Constant) and isinstance(c.value, str) and c.value.startswith("void("):
                sigs.append(c.value)
    deco = " ".join(ast.unparse(d) for d in fn.decorator_list)
    if "parallel=True" in deco or "prange" in ast.unparse(fn):
        raise Unsupported("fold is compiled parallel / uses prange: the accumulating stores would race")
    if not sigs:
        raise Unsupported("no explicit numba signature on fold")
    a = fn.args
    if a.vararg or a.kwarg or a.kwonlyargs or a.posonlyargs or a.defaults:
        raise Unsupported("fold: unusual python signature")
    params = [x.arg for x in a.args]
    kinds = None
    for s in sigs:
        items = [t.strip() for t in s[len("void("):].rstrip(")").split(",")]
        if len(items) != len(params):
            raise Unsupported(f"signature arity {len(items)} != {len(params)} parameters")
        k = []
        for t in items:
            if re.fullmatch(r"(u1|i4|f4|f8|i8)\[(:|::1)\]", t):
                k.append("arr")
            elif t in ("i4", "i8", "u1"):
                k.append("Z")
            elif t in ("f4", "f8"):
                k.append("Q" + t)
            else:
                raise Unsupported("signature type " + t)
        k2 = [x[0] if x.startswith("Q") else x for x in k]
        if kinds is not None and k2 != [x[0] if x.startswith("Q") else x for x in kinds]:
            raise Unsupported("signatures disagree on parameter kinds")
        kinds = k
    ptype = {p: (k[0] if k.startswith("Q") else k) for p, k in zip(params, kinds)}
    fwidth = {p: k[1:] for p, k in zip(params, kinds) if k.startswith("Q")}
    arrays = [p for p in params if ptype[p] == "arr"]
    env = Env({p: t for p, t in ptype.items() if t != "arr"}, arrays, consts)

    # ---- shape: lets; for isamp: lets; for ichan: lets; stores ----
    body = _strip_doc(fn.body)
    levels = [[], [], []]          # scalar lets per nesting level: (name, expr)
    loops = []
    stores = []
    cur = body
    for lvl in range(3):
        nxt = None
        for i, s in enumerate(cur):
            if isinstance(s, ast.Assign) and len(s.targets) == 1 and isinstance(s.targets[0], ast.Name):
                if stores:
                    raise Unsupported("scalar assignment after a store")
                levels[lvl].append((s.targets[0].id, s.value))
            elif isinstance(s, ast.For):
                if lvl == 2 or i != len(cur) - 1:
                    raise Unsupported("loop nest shape (a loop must be the last statement of its level; depth 2)")
                nxt = s
            elif isinstance(s, ast.AugAssign) and lvl == 2 and isinstance(s.op, ast.Add) and isinstance(s.target, ast.Subscript) \
                    and isinstance(s.target.value, ast.Name) and s.target.value.id in arrays:
                stores.append(s)
            else:
                raise Unsupported(f"statement at loop depth {lvl}: " + ast.unparse(s)[:80])
        if lvl < 2:
            if nxt is None:
                raise Unsupported("expected a two-level loop nest")
            loops.append(_range_loop(nxt))
            cur = nxt.body
    if not stores:
        raise Unsupported("no accumulating store in the inner loop")
    (v1, n1, _), (v2, n2, _) = loops
    out_arrays = []
    for s in stores:
        if s.target.value.id not in out_arrays:
            out_arrays.append(s.target.value.id)
    # locals must be assigned once (so that a slice is well defined) and must not shadow parameters
    allnames = [n for lv in levels for n, _ in lv]
    if len(set(allnames)) != len(allnames) or set(allnames) & set(params) or {v1, v2} & (set(params) | set(allnames)):
        raise Unsupported("a local is assigned twice or shadows a parameter")

    # ---- types of the locals, in program order; loop variables are integers ----
    order = []       # (name, expr, level)
    for lvl in range(3):
        if lvl == 1:
            env.types[v1] = "Z"
        if lvl == 2:
            env.types[v2] = "Z"
        for n, e in levels[lvl]:
            _, ty = tex(e, env)
            env.types[n] = ty
            order.append((n, e, lvl))
    local = {n: (e, lvl) for n, e, lvl in order}
    pos = {n: i for i, (n, _, _) in enumerate(order)}

    def slice_of(n):
        need, todo = set(), [n]
        while todo:
            x = todo.pop()
            if x in need:
                continue
            need.add(x)
            todo += [y for y in names_in(local[x][0]) if y in local]
        return sorted(need, key=lambda x: pos[x])

    def free_of(sl):
        fv = []
        for x in sl:
            for y in sorted(names_in(local[x][0])):
                if y not in local and y not in consts and y not in fv:
                    fv.append(y)
        # parameters in signature order, then loop variables
        return [p for p in params if p in fv] + [v for v in (v1, v2) if v in fv], [y for y in fv if y not in params and y not in (v1, v2)]

    def binder(p):
        t = "arr" if p in arrays else env.types[p]
        return f"({cid(p)} : {t})"

    out = []
    out.append(f"(* from kernels.fold ({', '.join(sigs)}); float parameters {', '.join(p + ':' + w for p, w in fwidth.items())} are rationals here: the caller's")
    out.append("   double is rounded to that width at the kernel boundary and all float arithmetic inside is exact in this model *)")
    defs = {}
    for n, e, lvl in order:
        sl = slice_of(n)
        fv, unknown = free_of(sl)
        if unknown:
            raise Unsupported(f"local {n} depends on unknown names {unknown}")
        lets = ""
        for x in sl:
            t, _ = tex(local[x][0], env)
            lets += f"  let {cid(x)} := {t} in\n"
        defs[n] = fv
        out.append(f"Definition fold_{n} {' '.join(binder(p) for p in fv)} : {env.types[n]} :=\n{lets}  {cid(n)}.")
    # ---- the loop nest ----
    def call(n):
        return f"fold_{n} " + " ".join(cid(p) for p in defs[n])

    st = out_arrays
    stv = "(" + ", ".join(st) + ")" if len(st) > 1 else st[0]
    stp = "'" + stv if len(st) > 1 else stv
    ret = " * ".join("arr" for _ in st)
    t1, ty1 = tex(n1, Env({p: t for p, t in ptype.items() if t != "arr"}, arrays, consts))
    t2, ty2 = tex(n2, Env({p: t for p, t in ptype.items() if t != "arr"}, arrays, consts))
    if ty1 != "Z" or ty2 != "Z":
        raise Unsupported("float loop bound")
    lines = []
    for n, _ in levels[0]:
        lines.append(f"  let {cid(n)} := {call(n)} in")
    lines.append(f"  iter (Z.to_nat {t1}) (fun {v1} {stp} =>")
    for n, _ in levels[1]:
        lines.append(f"    let {cid(n)} := {call(n)} in")
    lines.append(f"    iter (Z.to_nat {t2}) (fun {v2} {stp} =>")
    for n, _ in levels[2]:
        lines.append(f"      let {cid(n)} := {call(n)} in")
    for s in stores:
        arr_ = s.target.value.id
        i, ity = tex(s.target.slice, env)
        v, vty = tex(s.value, env)
        if ity != "Z":
            raise Unsupported("float store index " + ast.unparse(s))
        if vty != "Z":
            raise Unsupported("float-valued increment " + ast.unparse(s) + " (samples are modelled as integers)")
        lines.append(f"      let {arr_} := upd {arr_} {i} (({arr_} {i}) + {v})%Z in")
    lines.append(f"      {stv}) {stv}) {stv}.")
    out.append(f"Definition fold_run {' '.join(binder(p) for p in params)} : {ret} :=\n" + "\n".join(lines))
    meta = {"params": params, "ptype": ptype, "out": out_arrays, "locals": allnames, "loopvars": (v1, v2)}
    return "\n".join(out) + "\n", meta


# ------------------------------------------------------------------------------------------------------
# call sites
# ------------------------------------------------------------------------------------------------------

def _method(repo, rel, cls, name):
    for node in _module(repo, rel).body:
        if isinstance(node, ast.ClassDef) and node.name == cls:
            for f in node.body:
                if isinstance(f, ast.FunctionDef) and f.name == name:
                    return f
    raise Unsupported(f"{cls}.{name} not found in {rel}")


def _zexpr(e, names, attr):
    """integer expression over the given names / attribute spellings"""
    if isinstance(e, ast.Constant) and isinstance(e.value, int) and not isinstance(e.value, bool):
        return str(e.value)
    if isinstance(e, ast.Name) and e.id in names:
        return names[e.id]
    if isinstance(e, ast.Attribute) and ast.unparse(e) in attr:
        return attr[ast.unparse(e)]
    if isinstance(e, ast.BinOp) and type(e.op) in (ast.Add, ast.Sub, ast.Mult):
        op = {ast.Add: "+", ast.Sub: "-", ast.Mult: "*"}[type(e.op)]
        return f"({_zexpr(e.left, names, attr)} {op} {_zexpr(e.right, names, attr)})"
    if isinstance(e, ast.Call) and isinstance(e.func, ast.Name) and e.func.id in ("min", "max") and len(e.args) == 2:
        return f"(Z.{e.func.id} {_zexpr(e.args[0], names, attr)} {_zexpr(e.args[1], names, attr)})"
    if isinstance(e, ast.IfExp) and ast.unparse(e.test) == "nsamps is None":
        return f"(if (nsamps_none =? 1) then {_zexpr(e.body, names, attr)} else {_zexpr(e.orelse, names, attr)})"
    raise Unsupported("integer expression " + ast.unparse(e)[:80])


def _reduce_expr(e, var, scal):
    """integer expression built from reductions over the 1-D array `var` -- var.min() / var.max(), np.min(var) / np.max(var), min(var) /
    max(var) -- wrapped in int(...), combined with integer constants, + - * and two-argument min / max.  `scal` maps the reduction
    ('min' / 'max') to its Coq text; a reduction missing from it is not accepted at this place"""
    def red(kind):
        if kind not in scal:
            raise Unsupported(f"reduction {var}.{kind}() not accepted here")
        return scal[kind]
    if isinstance(e, ast.Constant) and isinstance(e.value, int) and not isinstance(e.value, bool):
        return str(e.value) if e.value >= 0 else f"({e.value})"
    if isinstance(e, ast.Call) and not e.keywords:
        f = ast.unparse(e.func)
        if f == "int" and len(e.args) == 1:
            return _reduce_expr(e.args[0], var, scal)
        if f in (f"{var}.min", f"{var}.max") and not e.args:
            return red(f[-3:])
        if f in ("np.min", "np.max", "np.amin", "np.amax", "min", "max") and len(e.args) == 1 and ast.unparse(e.args[0]) == var:
            return red(f[-3:])
        if f in ("min", "max") and len(e.args) == 2:
            return f"(Z.{f} {_reduce_expr(e.args[0], var, scal)} {_reduce_expr(e.args[1], var, scal)})"
    if isinstance(e, ast.BinOp) and type(e.op) in (ast.Add, ast.Sub, ast.Mult):
        op = {ast.Add: "+", ast.Sub: "-", ast.Mult: "*"}[type(e.op)]
        return f"({_reduce_expr(e.left, var, scal)} {op} {_reduce_expr(e.right, var, scal)})"
    raise Unsupported("delay expression " + ast.unparse(e)[:80])


def _kernel_call(stmt):
    if not (isinstance(stmt, ast.Expr) and isinstance(stmt.value, ast.Call) and ast.unparse(stmt.value.func) == "kernels.fold"):
        raise Unsupported("expected a call of kernels.fold, found: " + ast.unparse(stmt)[:80])
    if stmt.value.keywords or any(isinstance(x, ast.Starred) for x in stmt.value.args):
        raise Unsupported("keyword / starred arguments in the kernels.fold call")
    return stmt.value.args


def _reshape_dims(stmt, arrname):
    """`a = a.reshape(d0, d1, d2)` -> [d0, d1, d2] as ast"""
    if not (isinstance(stmt, ast.Assign) and ast.unparse(stmt.targets[0]) == arrname and isinstance(stmt.value, ast.Call)
            and ast.unparse(stmt.value.func) == f"{arrname}.reshape" and len(stmt.value.args) == 3 and not stmt.value.keywords):
        raise Unsupported("reshape statement changed: " + ast.unparse(stmt)[:80])
    return stmt.value.args


def gen_fil_site(repo, kmeta):
    fn = _method(repo, BASE, "Filterbank", "fold")
    loop = None
    for s in fn.body:
        if isinstance(s, ast.For) and isinstance(s.iter, ast.Call) and ast.unparse(s.iter.func) == "self.read_plan":
            loop = s
    if loop is None:
        raise Unsupported("Filterbank.fold: no top-level loop over self.read_plan")
    li = fn.body.index(loop)
    pre, post = _strip_doc(fn.body[:li]), fn.body[li + 1:]
    attr = {"self.header.nchans": "nchans", "self.header.nsamples": "hdr_nsamples"}
    out = ["(* from Filterbank.fold *)"]
    seen = {}
    shift_delays = False
    guard = None
    for s in pre:
        u = ast.unparse(s)
        if isinstance(s, ast.If):
            # the two logger warnings and the size guard; nothing else
            b = [ast.unparse(x) for x in s.body]
            if all(x.startswith("self.logger.warning(") for x in b) and not s.orelse:
                continue
            if len(s.body) == 2 and isinstance(s.body[1], ast.Raise) and "ValueError" in b[1] and not s.orelse:
                guard = ast.unparse(s.test)
                continue
            raise Unsupported("Filterbank.fold: conditional before the loop: " + u[:80])
        if not (isinstance(s, ast.Assign) and len(s.targets) == 1 and isinstance(s.targets[0], ast.Name)):
            raise Unsupported("Filterbank.fold: statement before the loop: " + u[:80])
        t = s.targets[0].id
        v = ast.unparse(s.value)
        if t == "chan_delays" and "chan_delays" in seen:
            # delays referred to the earliest channel (kept non-negative for the kernel)
            # translated: chan_delays = chan_delays -/+ <scalar built from chan_delays.min()>  ->  fold_delay_of dmin d
            e = s.value
            if not (isinstance(e, ast.BinOp) and type(e.op) in (ast.Sub, ast.Add) and isinstance(e.left, ast.Name) and e.left.id == "chan_delays"):
                raise Unsupported("Filterbank.fold: second assignment of chan_delays: " + v)
            if "max_delay" in seen or shift_delays:
                raise Unsupported("Filterbank.fold: chan_delays changed after max_delay was taken / changed twice")
            shift_delays = f"(d {'-' if isinstance(e.op, ast.Sub) else '+'} {_reduce_expr(e.right, 'chan_delays', {'min': 'dmin'})})"
            continue
        if t in seen:
            raise Unsupported(f"Filterbank.fold: {t} assigned twice")
        seen[t] = s.value
    need = ["nbands", "chan_delays", "max_delay", "gulp", "fold_ar", "count_ar"]
    miss = [n for n in need if n not in seen]
    if miss:
        raise Unsupported(f"Filterbank.fold: expected assignments not found: {miss}")
    extra = [n for n in seen if n not in need + ["nsamps_sel"]]
    if extra:
        raise Unsupported(f"Filterbank.fold: unexpected assignments before the loop: {extra}")
    if ast.unparse(seen["chan_delays"]) != "self.header.get_dmdelays(dm)":
        raise Unsupported("Filterbank.fold: delay computation changed")
    # translated: max_delay as a reduction of the (shifted) delay vector over its nchans entries
    max_delay_txt = _reduce_expr(seen["max_delay"], "chan_delays", {"min": "(vmin (Z.to_nat nchans) chan_delays)", "max": "(vmax (Z.to_nat nchans) chan_delays)"})
    names = {n: n for n in ("nbands", "nbins", "nints", "gulp", "start", "nsamps", "max_delay", "nsamps_r", "ii")}
    out.append(f"Definition fold_nbands (nbands nchans : Z) : Z := {_zexpr(seen['nbands'], names, attr)}.")
    out.append(f"Definition fold_gulp (max_delay gulp : Z) : Z := {_zexpr(seen['gulp'], names, attr)}.")
    for a, dt in (("fold_ar", "float32"), ("count_ar", "int32")):
        c = seen[a]
        if not (isinstance(c, ast.Call) and ast.unparse(c.func) == "np.zeros" and len(c.args) == 1 and len(c.keywords) == 1
                and c.keywords[0].arg == "dtype" and ast.literal_eval(c.keywords[0].value) == dt):
            raise Unsupported(f"Filterbank.fold: allocation of {a} changed: " + ast.unparse(c))
    l1, l2 = _zexpr(seen["fold_ar"].args[0], names, attr), _zexpr(seen["count_ar"].args[0], names, attr)
    if l1 != l2:
        raise Unsupported("Filterbank.fold: fold_ar and count_ar have different lengths")
    out.append(f"Definition fold_ncells (nbins nints nbands : Z) : Z := {l1}.   (* np.zeros: both accumulators start at 0 *)")
    sel = ""
    if "nsamps_sel" in seen:
        sel = f"let nsamps_sel := {_zexpr(seen['nsamps_sel'], names, attr)} in "
        names["nsamps_sel"] = "nsamps_sel"
    # read_plan arguments
    kw = {k.arg: k.value for k in loop.iter.keywords if k.arg is not None}
    if loop.iter.args:
        raise Unsupported("Filterbank.fold: positional read_plan arguments")
    for k_ in ("gulp", "start", "nsamps"):
        if k_ not in kw or ast.unparse(kw[k_]) != k_:
            raise Unsupported(f"Filterbank.fold: read_plan argument {k_} changed")
    if set(kw) - {"gulp", "start", "nsamps", "skipback"}:
        raise Unsupported("Filterbank.fold: extra read_plan arguments " + str(sorted(set(kw))))
    if "skipback" not in kw:
        raise Unsupported("Filterbank.fold: read_plan called without skipback")
    out.append(f"Definition fold_skipback (max_delay : Z) : Z := {_zexpr(kw['skipback'], names, attr)}.")
    if ast.unparse(loop.target) != "(nsamps_r, ii, data)":
        raise Unsupported("Filterbank.fold: loop target changed: " + ast.unparse(loop.target))
    if len(loop.body) != 1:
        raise Unsupported("Filterbank.fold: loop body is not the single kernel call")
    args = _kernel_call(loop.body[0])
    kp = kmeta["params"]
    if len(args) != len(kp):
        raise Unsupported(f"Filterbank.fold: kernels.fold called with {len(args)} arguments, kernel takes {len(kp)}")
    expect_arr = {"inarray": "data", "fold_ar": "fold_ar", "count_ar": "count_ar", "delays": "chan_delays"}
    expect_q = {"tsamp": ("self.header.tsamp", "tsamp"), "period": ("period", "period"), "accel": ("accel", "accel")}
    cargs = []
    total_txt = None
    for p, a in zip(kp, args):
        u = ast.unparse(a)
        if kmeta["ptype"][p] == "arr":
            if expect_arr.get(p) != u:
                raise Unsupported(f"Filterbank.fold: array argument {p} is {u}")
            cargs.append(u)
        elif kmeta["ptype"][p] == "Q":
            if p not in expect_q or expect_q[p][0] != u:
                raise Unsupported(f"Filterbank.fold: float argument {p} is {u}")
            cargs.append(expect_q[p][1])
        else:
            z = _zexpr(a, names, attr)
            if p == "total_nsamps":
                total_txt = z
                cargs.append("(fold_total hdr_nsamples start nsamps nsamps_none)")
            else:
                cargs.append(z)
    if total_txt is None:
        raise Unsupported("kernel has no total_nsamps parameter")
    out.append("(* the sample count passed as the kernel's total_nsamps (sub-integration span, tobs of the phase formula);")
    out.append("   nsamps_none = 1 encodes the default nsamps=None *)")
    out.append(f"Definition fold_total (hdr_nsamples start nsamps nsamps_none : Z) : Z := {sel}{total_txt}.")
    out.append("Definition fold_block (data fold_ar count_ar chan_delays : arr) (max_delay : Z) (tsamp period accel : Q)\n"
               "    (hdr_nsamples start nsamps nsamps_none nsamps_r nchans nbins nints nbands ii gulp : Z) : arr * arr :=\n"
               f"  fold_run {' '.join(cargs)}.")
    out.append("(* the delay handed to the kernel for a channel whose get_dmdelays value is d, dmin = chan_delays.min() being the smallest value of that")
    out.append("   vector (fold_dmin); chan_delays after the shift (fold_chan_delays); max_delay is taken after this, from: " + ast.unparse(seen["max_delay"]) + " *)")
    out.append(f"Definition fold_delay_of (dmin d : Z) : Z := {shift_delays if shift_delays else 'd'}.")
    out.append("Definition fold_dmin (nchans : Z) (chan_delays : arr) : Z := (vmin (Z.to_nat nchans) chan_delays).")
    out.append("Definition fold_chan_delays (nchans : Z) (raw : arr) : arr := fun c => fold_delay_of (fold_dmin nchans raw) (raw c).")
    out.append(f"Definition fold_max_delay (nchans : Z) (chan_delays : arr) : Z := {max_delay_txt}.")
    out.append(f"Definition fold_delays_shifted : bool := {'true' if shift_delays else 'false'}.")
    if guard:
        out.append("(* size guard, raises ValueError when true: " + guard.replace("*)", "* )").replace("(*", "( *") + " *)")
    # after the loop: division, reshape, return
    post = [s for s in post if not (isinstance(s, ast.Expr) and isinstance(s.value, ast.Constant))]
    if len(post) != 3 or ast.unparse(post[0]) != "fold_ar /= count_ar":
        raise Unsupported("Filterbank.fold: statements after the loop changed: " + "; ".join(ast.unparse(s)[:50] for s in post))
    dims = [_zexpr(d, names, attr) for d in _reshape_dims(post[1], "fold_ar")]
    r = ast.unparse(post[2])
    if not r.startswith("return FoldedData(fold_ar,"):
        raise Unsupported("Filterbank.fold: return changed: " + r[:80])
    out.append("(* fold_ar /= count_ar; fold_ar.reshape(" + ", ".join(dims) + "): C order, cube[i, b, p] = flat[(i*d1 + b)*d2 + p] *)")
    out.append(f"Definition fold_cube_dims (nints nbands nbins : Z) : Z * Z * Z := ({dims[0]}, {dims[1]}, {dims[2]}).")
    return "\n".join(out) + "\n"


def gen_ts_site(repo, kmeta):
    fn = _method(repo, TSER, "TimeSeries", "fold")
    body = _strip_doc(fn.body)
    out = ["(* from TimeSeries.fold *)"]
    stage = 0
    call = None
    allocs = {}
    post = []
    for s in body:
        if call is None:
            if isinstance(s, ast.If):
                b = [ast.unparse(x) for x in s.body]
                if not (len(s.body) == 2 and isinstance(s.body[1], ast.Raise) and "ValueError" in b[1] and not s.orelse):
                    raise Unsupported("TimeSeries.fold: conditional changed: " + ast.unparse(s)[:80])
                continue
            if isinstance(s, ast.Assign) and len(s.targets) == 1 and isinstance(s.targets[0], ast.Name) and s.targets[0].id in ("fold_ar", "count_ar"):
                allocs[s.targets[0].id] = s.value
                continue
            if isinstance(s, ast.Expr) and isinstance(s.value, ast.Call):
                call = _kernel_call(s)
                continue
            raise Unsupported("TimeSeries.fold: statement before the kernel call: " + ast.unparse(s)[:80])
        post.append(s)
    if call is None or set(allocs) != {"fold_ar", "count_ar"}:
        raise Unsupported("TimeSeries.fold: kernel call / allocations not found")
    names = {"nbins": "nbins", "nints": "nints"}
    attr = {"self.data.size": "size"}
    for a, dt in (("fold_ar", "np.float32"), ("count_ar", "np.int32")):
        c = allocs[a]
        if not (isinstance(c, ast.Call) and ast.unparse(c.func) == "np.zeros" and len(c.args) == 1 and len(c.keywords) == 1
                and c.keywords[0].arg == "dtype" and ast.unparse(c.keywords[0].value) == dt):
            raise Unsupported(f"TimeSeries.fold: allocation of {a} changed: " + ast.unparse(c))
    l1, l2 = _zexpr(allocs["fold_ar"].args[0], names, attr), _zexpr(allocs["count_ar"].args[0], names, attr)
    if l1 != l2:
        raise Unsupported("TimeSeries.fold: accumulators have different lengths")
    out.append(f"Definition ts_fold_ncells (nbins nints : Z) : Z := {l1}.")
    kp = kmeta["params"]
    if len(call) != len(kp):
        raise Unsupported(f"TimeSeries.fold: kernels.fold called with {len(call)} arguments")
    cargs = []
    for p, a in zip(kp, call):
        u = ast.unparse(a)
        if kmeta["ptype"][p] == "arr":
            want = {"inarray": ("self.data", "data"), "fold_ar": ("fold_ar", "zeros"), "count_ar": ("count_ar", "zeros"),
                    "delays": ("np.array([0], dtype=np.int32)", "(of_list [0])")}.get(p)
            if want is None or want[0] != u:
                raise Unsupported(f"TimeSeries.fold: array argument {p} is {u}")
            cargs.append(want[1])
        elif kmeta["ptype"][p] == "Q":
            want = {"tsamp": ("self.header.tsamp", "tsamp"), "period": ("period", "period"), "accel": ("accel", "accel")}.get(p)
            if want is None or want[0] != u:
                raise Unsupported(f"TimeSeries.fold: float argument {p} is {u}")
            cargs.append(want[1])
        else:
            cargs.append(_zexpr(a, names, attr))
    out.append("Definition ts_fold (data : arr) (size : Z) (tsamp period accel : Q) (nbins nints : Z) : arr * arr :=\n"
               f"  fold_run {' '.join(cargs)}.")
    if len(post) != 3 or ast.unparse(post[0]) != "fold_ar /= count_ar":
        raise Unsupported("TimeSeries.fold: statements after the kernel call changed")
    dims = [_zexpr(d, names, attr) for d in _reshape_dims(post[1], "fold_ar")]
    if not ast.unparse(post[2]).startswith("return FoldedData(fold_ar,"):
        raise Unsupported("TimeSeries.fold: return changed")
    out.append("(* fold_ar /= count_ar; fold_ar.reshape(" + ", ".join(dims) + ") *)")
    out.append(f"Definition ts_cube_dims (nints nbins : Z) : Z * Z * Z := ({dims[0]}, {dims[1]}, {dims[2]}).")
    return "\n".join(out) + "\n"


HEADER = """(* GENERATED by tools/py2coq/gen_c11.py from sigpyproc/core/kernels.py (fold), sigpyproc/base.py (Filterbank.fold)
   and sigpyproc/timeseries.py (TimeSeries.fold) -- do not edit *)
From Coq Require Import ZArith QArith Qround Qabs List Bool.
Require Import SPP.Base.Rt SPP.Model.C11_rt.
Import ListNotations.
Open Scope Z_scope.
"""


def gen_c11(repo="/repo"):
    errors = []
    out = [HEADER]
    kmeta = None
    try:
        txt, kmeta = gen_kernel(repo, errors)
        out.append(txt)
    except (Unsupported, SyntaxError, OSError) as e:
        errors.append(f"kernels.fold: {e}")
        out.append(f"(* UNSUPPORTED kernels.fold: {str(e).replace('*)', '* )')} *)\n")
    if kmeta is not None:
        for nm, g in (("Filterbank.fold", gen_fil_site), ("TimeSeries.fold", gen_ts_site)):
            try:
                out.append(g(repo, kmeta))
            except (Unsupported, SyntaxError, OSError, ValueError) as e:
                errors.append(f"{nm}: {e}")
                out.append(f"(* UNSUPPORTED {nm}: {str(e).replace('*)', '* )')} *)\n")
    return "\n".join(out), errors


GENERATORS = {"C11Fold.v": gen_c11}

if __name__ == "__main__":
    import sys
    t, errs = gen_c11(sys.argv[1] if len(sys.argv) > 1 else "/repo")
    print(t)
    for e in errs:
        print("ERROR", e, file=sys.stderr)
