"""py2coq plug-in for C09 (one dispersion law, applied identically by every dedispersion path): Gen/C09.v.

Read from the ast of /repo's CURRENT sources on every run (anything not recognised is an error: fail closed):

  * sigpyproc/core/kernels.py: roll_block, roll_block_valid, dmt_block, dmt_block_valid -> Gallina terms
    `<k>_run` over 2-D arrays (row, column) -> Z with explicit shapes, and `<k>_shape` (shape of the returned
    array).  Unit-step slices become index maps with NumPy's bound normalisation (Model/C09_Arr2.v), a slice
    assignment of the wrong length and `raise ValueError` become None, `np.empty*` becomes an arbitrary array
    (`junk_res`; one per call for nested calls: `junk_call idm`).
  * sigpyproc/block.py: the call sites in FilterbankBlock.dedisperse / dmt_transform, in particular whether the
    kernels receive `delays` or `-delays` (`block_dedisperse_run`, `dmt_transform_run`).
  * sigpyproc/params.py, sigpyproc/header.py: the dispersion law of compute_dmdelays over Q
    (`dmdelay_sec`, `dmdelay_samples`; ndarray.round() is round-half-even `rhe`), the DM constant, the argument
    order of the call in Header.get_dmdelays, the admissible reference names and the header frequency formulas.
  * sigpyproc/readers.py: FilReader.read_dedisp_block: the channel windows, the range check, the seek position,
    the range of the sample loop, the per-sample offset, the relevance test and whether the selected channels are
    the relevant ones or their contiguous hull (`rdb_*`); the loop itself is Model/C09_Rdb.v.

Semantics assumed (trusted): unbounded integers; NumPy/numba slicing and broadcasting as stated in
Model/C09_Arr2.v; float32 evaluation of the law is NOT modelled (Q), the correspondence bounds it."""
from __future__ import annotations

import ast
from fractions import Fraction


class Unsupported(Exception):
    pass


RESERVED = {"arr": "arr_", "end": "end_", "at": "at_", "in": "in_", "fun": "fun_", "mod": "mod_", "iter": "iter_",
            "upd": "upd_", "zeros": "zeros_", "Type": "Type_", "Set": "Set_", "Prop": "Prop_", "as": "as_", "vec": "vec_",
            "arr2": "arr2_", "do": "do_"}


def ident(n):
    return RESERVED.get(n, n)


def _strip_doc(body):
    return [s for s in body if not (isinstance(s, ast.Expr) and isinstance(s.value, ast.Constant) and isinstance(s.value.value, str))]


def _functions(path):
    mod = ast.parse(open(path).read())
    fns = {}
    for node in mod.body:
        if isinstance(node, ast.FunctionDef):
            if node.name in fns:
                raise Unsupported(f"{node.name} defined twice")
            fns[node.name] = node
    return mod, fns


def _method(path, cls, name):
    mod = ast.parse(open(path).read())
    for node in mod.body:
        if isinstance(node, ast.ClassDef) and node.name == cls:
            found = [f for f in node.body if isinstance(f, ast.FunctionDef) and f.name == name]
            if len(found) != 1:
                raise Unsupported(f"{cls}.{name}: found {len(found)} definitions")
            return found[0]
    raise Unsupported(f"class {cls} not found in {path}")


# ================================================================================================
# A. 2-D kernels
# ================================================================================================

KERNELS2 = {
    "roll_block": [("arr", 2), ("shifts", 1)],
    "roll_block_valid": [("arr", 2), ("shifts", 1)],
    "dmt_block": [("arr", 2), ("dm_delays", 2)],
    "dmt_block_valid": [("arr", 2), ("dm_delays", 2)],
}
BIN = {ast.Add: "+", ast.Sub: "-", ast.Mult: "*"}
CMP = {ast.Lt: "<?", ast.LtE: "<=?", ast.Gt: ">?", ast.GtE: ">=?", ast.Eq: "=?"}


class K2:
    """translator of one kernel"""

    def __init__(self, fn, params, done):
        self.fn = fn
        self.name = fn.name
        self.params = params                      # [(python name, ndim)]
        self.done = done                          # already translated kernels: name -> K2
        self.dim = {}                             # array name -> ndim
        self.shape = {}                           # array name -> (nrows, ncols) | (size,)  as Coq terms
        self.scalars = set()
        self.alias = {}                           # scalar name -> canonical symbol
        self.result = None                        # name of the np.empty array
        self.result_shape = None
        self.prefix = []                          # pure scalar lets preceding np.empty (for <k>_shape)
        self.uses_call = False
        self.shterm = {}
        for p, nd in params:
            q = ident(p)
            self.dim[p] = nd
            self.shape[p] = (f"{q}_nrows", f"{q}_ncols") if nd == 2 else (f"{q}_size",)
        decos = " ".join(ast.unparse(d) for d in fn.decorator_list)
        if "njit" not in decos or "parallel=True" in decos:
            raise Unsupported(f"{self.name}: decorator {decos}")
        a = fn.args
        if [x.arg for x in a.args] != [p for p, _ in params] or a.vararg or a.kwarg or a.kwonlyargs or a.defaults:
            raise Unsupported(f"{self.name}: parameters are {[x.arg for x in a.args]}")

    # ---- scalar expressions ---------------------------------------------------------------------
    def canon(self, t):
        seen = 0
        while t in self.alias and seen < 20:
            t = self.alias[t]
            seen += 1
        return t

    def sx(self, e):
        if isinstance(e, ast.Constant) and isinstance(e.value, int) and not isinstance(e.value, bool):
            return str(e.value) if e.value >= 0 else f"({e.value})"
        if isinstance(e, ast.Name):
            if e.id in self.scalars:
                return ident(e.id)
            raise Unsupported(f"{self.name}: name {e.id} is not a known scalar")
        if isinstance(e, ast.UnaryOp) and isinstance(e.op, ast.USub):
            return f"(- {self.sx(e.operand)})"
        if isinstance(e, ast.BinOp):
            l, r = self.sx(e.left), self.sx(e.right)
            if type(e.op) in BIN:
                return f"({l} {BIN[type(e.op)]} {r})"
            if isinstance(e.op, ast.Mod):
                return f"({l} mod {r})"
            if isinstance(e.op, ast.FloorDiv):
                return f"({l} / {r})"
            raise Unsupported(f"{self.name}: operator {type(e.op).__name__}")
        if isinstance(e, ast.Subscript):
            # shifts[irow]  |  arr.shape[k]
            if isinstance(e.value, ast.Name) and self.dim.get(e.value.id) == 1 and not isinstance(e.slice, (ast.Slice, ast.Tuple)):
                return f"({ident(e.value.id)} {self.sx(e.slice)})"
            if (isinstance(e.value, ast.Attribute) and e.value.attr == "shape" and isinstance(e.value.value, ast.Name)
                    and e.value.value.id in self.shape and isinstance(e.slice, ast.Constant)
                    and e.slice.value in range(len(self.shape[e.value.value.id]))):
                return self.shape[e.value.value.id][e.slice.value]
            raise Unsupported(f"{self.name}: subscript {ast.unparse(e)}")
        if isinstance(e, ast.Call) and not e.keywords:
            f = ast.unparse(e.func)
            if f in ("max", "min") and len(e.args) == 2:
                return f"(Z.{f} {self.sx(e.args[0])} {self.sx(e.args[1])})"
            if f == "len" and len(e.args) == 1 and isinstance(e.args[0], ast.Name) and e.args[0].id in self.shape:
                return self.shape[e.args[0].id][0]
            if f in ("np.max", "np.min") and len(e.args) == 1 and isinstance(e.args[0], ast.Name) and e.args[0].id in self.shape:
                a = e.args[0].id
                op = "amax" if f == "np.max" else "amin"
                if self.dim[a] == 1:
                    return f"({op} {self.shape[a][0]} {ident(a)})"
                return f"({op}2 {self.shape[a][0]} {self.shape[a][1]} {ident(a)})"
        raise Unsupported(f"{self.name}: expression {ast.unparse(e)[:80]}")

    def bx(self, e):
        if isinstance(e, ast.Compare) and len(e.ops) == 1:
            l, r = self.sx(e.left), self.sx(e.comparators[0])
            t = type(e.ops[0])
            if t in CMP:
                return f"({l} {CMP[t]} {r})"
            if t is ast.NotEq:
                return f"(negb ({l} =? {r}))"
        if isinstance(e, ast.BoolOp):
            op = " && " if isinstance(e.op, ast.And) else " || "
            return "(" + op.join(self.bx(v) for v in e.values) + ")"
        raise Unsupported(f"{self.name}: condition {ast.unparse(e)[:80]}")

    # ---- static ndim guards -----------------------------------------------------------------------
    def _static_ndim(self, e):
        """`X.ndim != k` with k the configured rank -> statically false -> True if the whole test is such"""
        if isinstance(e, ast.BoolOp) and isinstance(e.op, ast.Or):
            return all(self._static_ndim(v) for v in e.values)
        if (isinstance(e, ast.Compare) and len(e.ops) == 1 and isinstance(e.ops[0], ast.NotEq)
                and isinstance(e.left, ast.Attribute) and e.left.attr == "ndim" and isinstance(e.left.value, ast.Name)
                and e.left.value.id in self.dim and isinstance(e.comparators[0], ast.Constant)):
            if e.comparators[0].value != self.dim[e.left.value.id]:
                raise Unsupported(f"{self.name}: rank test {ast.unparse(e)} contradicts the configured rank")
            return True
        return False

    @staticmethod
    def _is_raise_block(body):
        if not body or not isinstance(body[-1], ast.Raise):
            return False
        exc = body[-1].exc
        name = ast.unparse(exc.func) if isinstance(exc, ast.Call) else ast.unparse(exc)
        if name != "ValueError":
            raise Unsupported("raise of " + name)
        for s in body[:-1]:
            if not (isinstance(s, ast.Assign) and len(s.targets) == 1 and isinstance(s.targets[0], ast.Name) and s.targets[0].id == "msg"):
                raise Unsupported("statement beside raise: " + ast.unparse(s)[:60])
        return True

    # ---- array-valued expressions -------------------------------------------------------------
    def _slice_bounds(self, sl, dimterm):
        if sl.step is not None:
            raise Unsupported(f"{self.name}: slice with a step")
        lo = "0" if sl.lower is None else self.sx(sl.lower)
        hi = dimterm if sl.upper is None else self.sx(sl.upper)
        return lo, hi

    def _row_index(self, a, idx, loopvar, loopbound):
        """the row subscript must be the loop variable of a loop running over exactly the rows of [a]"""
        if not (isinstance(idx, ast.Name) and idx.id == loopvar):
            raise Unsupported(f"{self.name}: row index {ast.unparse(idx)} of {a} is not the loop variable")
        if self.canon(self.shape[a][0]) != self.canon(loopbound):
            raise Unsupported(f"{self.name}: loop bound {loopbound} is not the number of rows of {a} ({self.shape[a][0]})")
        return ident(idx.id)

    def vexpr(self, e, loopvar, loopbound, binds):
        """1-D view valued expression -> Coq term of type vec; kernel calls are hoisted into [binds]"""
        if isinstance(e, ast.Subscript) and isinstance(e.value, ast.Name) and self.dim.get(e.value.id) == 2:
            a = e.value.id
            nc = self.shape[a][1]
            if isinstance(e.slice, ast.Tuple):
                if len(e.slice.elts) != 2 or not isinstance(e.slice.elts[1], ast.Slice):
                    raise Unsupported(f"{self.name}: subscript {ast.unparse(e)}")
                r = self._row_index(a, e.slice.elts[0], loopvar, loopbound)
                lo, hi = self._slice_bounds(e.slice.elts[1], nc)
                return f"(slice_row {ident(a)} {nc} {r} {lo} {hi})"
            if isinstance(e.slice, ast.Slice):
                raise Unsupported(f"{self.name}: row slice {ast.unparse(e)}")
            r = self._row_index(a, e.slice, loopvar, loopbound)
            return f"(row2 {ident(a)} {nc} {r})"
        if (isinstance(e, ast.Call) and ast.unparse(e.func) == "np.sum" and len(e.args) == 1 and len(e.keywords) == 1
                and e.keywords[0].arg == "axis" and isinstance(e.keywords[0].value, ast.Constant) and e.keywords[0].value.value == 0):
            sh, term = self.a2expr(e.args[0], loopvar, binds)
            return f"(sum_axis0 {sh} {term})"
        raise Unsupported(f"{self.name}: array expression {ast.unparse(e)[:80]}")

    def a2expr(self, e, loopvar, binds):
        """2-D array valued expression -> (shape term, array term)"""
        if isinstance(e, ast.Name) and self.dim.get(e.id) == 2:
            return self.shterm.get(e.id, f"({self.shape[e.id][0]}, {self.shape[e.id][1]})"), ident(e.id)
        if isinstance(e, ast.Call):
            tmp = f"tmp{len(binds)}"
            sh = self.call(e, loopvar, tmp, binds)
            return sh, tmp
        if (isinstance(e, ast.Subscript) and isinstance(e.slice, ast.Tuple) and len(e.slice.elts) == 2
                and isinstance(e.slice.elts[0], ast.Slice) and isinstance(e.slice.elts[1], ast.Slice)):
            s0 = e.slice.elts[0]
            if s0.lower is not None or s0.upper is not None or s0.step is not None:
                raise Unsupported(f"{self.name}: row range in {ast.unparse(e)}")
            sh, term = self.a2expr(e.value, loopvar, binds)
            s1 = e.slice.elts[1]
            if s1.step is not None:
                raise Unsupported(f"{self.name}: slice with a step")
            lo = "0" if s1.lower is None else self.sx(s1.lower)
            hi = f"(snd {sh})" if s1.upper is None else self.sx(s1.upper)
            return f"(cols_shape {sh} {lo} {hi})", f"(cols2 {sh} {term} {lo} {hi})"
        raise Unsupported(f"{self.name}: 2-D expression {ast.unparse(e)[:80]}")

    def call(self, e, loopvar, tmp, binds):
        """call of an already translated kernel; binds tmp; returns the shape term of the result"""
        f = ast.unparse(e.func)
        if f not in self.done or e.keywords:
            raise Unsupported(f"{self.name}: call {f}")
        callee = self.done[f]
        if len(e.args) != len(callee.params):
            raise Unsupported(f"{self.name}: call {ast.unparse(e)}")
        args = []
        for (pn, nd), a in zip(callee.params, e.args):
            if isinstance(a, ast.Name) and self.dim.get(a.id) == nd:
                args.append(" ".join([ident(a.id)] + list(self.shape[a.id])))
            elif (nd == 1 and isinstance(a, ast.Subscript) and isinstance(a.value, ast.Name) and self.dim.get(a.value.id) == 2
                  and isinstance(a.slice, ast.Name) and a.slice.id == loopvar):
                b = a.value.id
                args.append(f"({ident(b)} {ident(loopvar)}) {self.shape[b][1]}")
            else:
                raise Unsupported(f"{self.name}: argument {ast.unparse(a)} of {f}")
        self.uses_call = True
        argtxt = " ".join(args)
        binds.append(f"do {tmp} <- {f}_run (junk_call {ident(loopvar)}) {argtxt};")
        return f"({f}_shape {argtxt})"

    # ---- statements ---------------------------------------------------------------------------------
    def loop_body(self, stmts, loopvar, loopbound, ind):
        """statements of a loop body (or a branch of it) -> lines; the state is the result array"""
        pad = "  " * ind
        res = ident(self.result)
        out = []
        for s in stmts:
            if isinstance(s, ast.Assign) and len(s.targets) == 1 and isinstance(s.targets[0], ast.Name):
                t = s.targets[0].id
                if t in self.dim or t == self.result:
                    raise Unsupported(f"{self.name}: reassignment of array {t}")
                if isinstance(s.value, ast.Call) and ast.unparse(s.value.func) in self.done:
                    binds = []
                    sh = self.call(s.value, loopvar, ident(t), binds)
                    out += [pad + b for b in binds]
                    out.append(f"{pad}let {ident(t)}_shape := {sh} in")
                    self.dim[t] = 2
                    self.shape[t] = (f"(fst {ident(t)}_shape)", f"(snd {ident(t)}_shape)")
                    self.shterm[t] = f"{ident(t)}_shape"
                    continue
                v = self.sx(s.value)
                self.scalars.add(t)
                out.append(f"{pad}let {ident(t)} := {v} in")
                continue
            if isinstance(s, ast.Assign) and len(s.targets) == 1 and isinstance(s.targets[0], ast.Subscript):
                t = s.targets[0]
                if not (isinstance(t.value, ast.Name) and t.value.id == self.result):
                    raise Unsupported(f"{self.name}: store into {ast.unparse(t.value)}")
                nc = self.result_shape[1]
                binds = []
                v = self.vexpr(s.value, loopvar, loopbound, binds)
                out += [pad + b for b in binds]
                if isinstance(t.slice, ast.Tuple):
                    if len(t.slice.elts) != 2 or not isinstance(t.slice.elts[1], ast.Slice):
                        raise Unsupported(f"{self.name}: store target {ast.unparse(t)}")
                    r = self._row_index(self.result, t.slice.elts[0], loopvar, loopbound)
                    lo, hi = self._slice_bounds(t.slice.elts[1], nc)
                    out.append(f"{pad}do {res} <- set_slice_row {res} {nc} {r} {lo} {hi} {v};")
                elif isinstance(t.slice, ast.Slice):
                    raise Unsupported(f"{self.name}: store target {ast.unparse(t)}")
                else:
                    r = self._row_index(self.result, t.slice, loopvar, loopbound)
                    out.append(f"{pad}do {res} <- set_row {res} {nc} {r} {v};")
                continue
            if isinstance(s, ast.If):
                c = self.bx(s.test)
                saved = (set(self.scalars), dict(self.dim), dict(self.shape))
                saved_sh = dict(self.shterm)
                tb = self.loop_body(s.body, loopvar, loopbound, ind + 2)
                self.scalars, self.dim, self.shape = set(saved[0]), dict(saved[1]), dict(saved[2])
                eb = self.loop_body(s.orelse, loopvar, loopbound, ind + 2) if s.orelse else []
                self.scalars, self.dim, self.shape = saved
                self.shterm = saved_sh
                out.append(f"{pad}do {res} <- (if {c} then (")
                out += tb + [f"{pad}    Some {res}) else ("] + eb + [f"{pad}    Some {res}));"]
                continue
            raise Unsupported(f"{self.name}: statement in loop: {ast.unparse(s)[:70]}")
        return out

    def translate(self):
        body = _strip_doc(self.fn.body)
        lines = []
        seen_loop = False
        returned = False
        for s in body:
            if returned:
                raise Unsupported(f"{self.name}: code after return")
            if isinstance(s, ast.If) and not s.orelse and self._is_raise_block(s.body):
                if seen_loop:
                    raise Unsupported(f"{self.name}: raise after the loop")
                if self._static_ndim(s.test):
                    lines.append(f"  (* `{ast.unparse(s.test)}`: ranks are fixed by the model's types *)")
                    continue
                lines.append(f"  if {self.bx(s.test)} then None else   (* raise ValueError *)")
                continue
            if isinstance(s, ast.Assign) and len(s.targets) == 1 and isinstance(s.targets[0], ast.Tuple):
                # nrows, ncols = arr.shape
                v = s.value
                if not (isinstance(v, ast.Attribute) and v.attr == "shape" and isinstance(v.value, ast.Name) and v.value.id in self.shape):
                    raise Unsupported(f"{self.name}: tuple assignment {ast.unparse(s)[:60]}")
                sh = self.shape[v.value.id]
                names = s.targets[0].elts
                if len(names) != len(sh) or not all(isinstance(n, ast.Name) for n in names):
                    raise Unsupported(f"{self.name}: tuple assignment {ast.unparse(s)[:60]}")
                for n, t in zip(names, sh):
                    if n.id == "_":
                        continue
                    if n.id in self.scalars or n.id in self.dim:
                        raise Unsupported(f"{self.name}: {n.id} assigned twice")
                    self.scalars.add(n.id)
                    self.alias[ident(n.id)] = t
                    ln = f"  let {ident(n.id)} := {t} in"
                    lines.append(ln)
                    if self.result is None:
                        self.prefix.append(ln)
                continue
            if isinstance(s, ast.Assign) and len(s.targets) == 1 and isinstance(s.targets[0], ast.Name):
                t = s.targets[0].id
                if t in self.scalars or t in self.dim:
                    raise Unsupported(f"{self.name}: {t} assigned twice")
                if isinstance(s.value, ast.Call) and ast.unparse(s.value.func) in ("np.empty", "np.empty_like"):
                    if self.result is not None or seen_loop:
                        raise Unsupported(f"{self.name}: second allocation")
                    f = ast.unparse(s.value.func)
                    c = s.value
                    if f == "np.empty_like":
                        if not (len(c.args) == 1 and not c.keywords and isinstance(c.args[0], ast.Name) and self.dim.get(c.args[0].id) == 2):
                            raise Unsupported(f"{self.name}: {ast.unparse(c)}")
                        sh = self.shape[c.args[0].id]
                    else:
                        ok_kw = all(k.arg == "dtype" and ast.unparse(k.value).endswith(".dtype") for k in c.keywords)
                        if not (len(c.args) == 1 and isinstance(c.args[0], ast.Tuple) and len(c.args[0].elts) == 2 and ok_kw):
                            raise Unsupported(f"{self.name}: {ast.unparse(c)}")
                        sh = tuple(self.sx(x) for x in c.args[0].elts)
                    self.result, self.result_shape = t, sh
                    self.dim[t] = 2
                    self.shape[t] = sh
                    lines.append(f"  let {ident(t)} := junk_res in   (* {ast.unparse(c)}: arbitrary content, shape ({sh[0]}, {sh[1]}) *)")
                    continue
                v = self.sx(s.value)
                self.scalars.add(t)
                if isinstance(s.value, ast.Name):
                    self.alias[ident(t)] = ident(s.value.id)
                ln = f"  let {ident(t)} := {v} in"
                lines.append(ln)
                if self.result is None:
                    self.prefix.append(ln)
                continue
            if isinstance(s, ast.For):
                if seen_loop or self.result is None:
                    raise Unsupported(f"{self.name}: loop structure")
                if (s.orelse or not isinstance(s.target, ast.Name) or not isinstance(s.iter, ast.Call) or ast.unparse(s.iter.func) != "range"
                        or len(s.iter.args) != 1 or s.iter.keywords):
                    raise Unsupported(f"{self.name}: loop header {ast.unparse(s.iter)}")
                seen_loop = True
                lv = s.target.id
                bound = self.sx(s.iter.args[0])
                self.scalars.add(lv)
                res = ident(self.result)
                lines.append(f"  do {res} <- iter_opt (Z.to_nat {bound}) (fun {ident(lv)} {res} =>")
                lines += self.loop_body(s.body, lv, bound, 3)
                lines.append(f"      Some {res}) {res};   (* for {lv} in range({ast.unparse(s.iter.args[0])}) *)")
                self.scalars.discard(lv)
                continue
            if isinstance(s, ast.Return):
                if not (isinstance(s.value, ast.Name) and s.value.id == self.result and seen_loop):
                    raise Unsupported(f"{self.name}: return {ast.unparse(s)}")
                lines.append(f"  Some {ident(self.result)}.")
                returned = True
                continue
            raise Unsupported(f"{self.name}: statement {ast.unparse(s)[:70]}")
        if not returned:
            raise Unsupported(f"{self.name}: no return")
        sig = []
        for p, nd in self.params:
            q = ident(p)
            sig.append(f"({q} : arr2) ({q}_nrows {q}_ncols : Z)" if nd == 2 else f"({q} : arr) ({q}_size : Z)")
        sig = " ".join(sig)
        junk = "(junk_res : arr2)" + (" (junk_call : Z -> arr2)" if self.uses_call else "")
        txt = [f"(* from kernels.{self.name} *)",
               f"Definition {self.name}_shape {sig} : Z * Z :="] + self.prefix + [f"  ({self.result_shape[0]}, {self.result_shape[1]}).", "",
               f"Definition {self.name}_run {junk} {sig} : option arr2 :="] + lines + [""]
        return "\n".join(txt)


def gen_kernels2(repo, out, errors):
    _, fns = _functions(f"{repo}/sigpyproc/core/kernels.py")
    done = {}
    for name, params in KERNELS2.items():
        try:
            if name not in fns:
                raise Unsupported(f"{name}: not found in kernels.py")
            k = K2(fns[name], params, done)
            out.append(k.translate())
            done[name] = k
        except Unsupported as e:
            errors.append(str(e))
            out.append(f"(* UNSUPPORTED {name}: {str(e).replace('*)', '* )')} *)\n")
    return done


# ================================================================================================
# B. call sites in block.py
# ================================================================================================

def _signed_arg(e, name):
    """`name` -> +1, `-name` -> -1"""
    if isinstance(e, ast.Name) and e.id == name:
        return 1
    if isinstance(e, ast.UnaryOp) and isinstance(e.op, ast.USub) and isinstance(e.operand, ast.Name) and e.operand.id == name:
        return -1
    raise Unsupported(f"kernel argument {ast.unparse(e)} is neither {name} nor -{name}")


def _callsite(fn, flag, dname, kvalid, kfull):
    """find  `<dname> = self.header.get_dmdelays(...)` and `if <flag>: new_ar = kernels.<kvalid>(self.data, +-d) else: ...`"""
    body = _strip_doc(fn.body)
    got = [s for s in body if isinstance(s, ast.Assign) and ast.unparse(s.targets[0]) == dname]
    if len(got) != 1 or not ast.unparse(got[0].value).startswith("self.header.get_dmdelays("):
        raise Unsupported(f"{fn.name}: `{dname} = self.header.get_dmdelays(...)` not found exactly once")
    ifs = [s for s in body if isinstance(s, ast.If) and ast.unparse(s.test) == flag]
    if len(ifs) != 1:
        raise Unsupported(f"{fn.name}: `if {flag}:` not found exactly once")
    signs = []
    for branch, kern in ((ifs[0].body, kvalid), (ifs[0].orelse, kfull)):
        if len(branch) != 1 or not isinstance(branch[0], ast.Assign) or ast.unparse(branch[0].targets[0]) != "new_ar":
            raise Unsupported(f"{fn.name}: branch of `if {flag}` is not a single assignment to new_ar")
        c = branch[0].value
        if not (isinstance(c, ast.Call) and ast.unparse(c.func) == f"kernels.{kern}" and len(c.args) == 2 and not c.keywords
                and ast.unparse(c.args[0]) == "self.data"):
            raise Unsupported(f"{fn.name}: expected kernels.{kern}(self.data, ...), found {ast.unparse(c)[:70]}")
        signs.append(_signed_arg(c.args[1], dname))
    # nothing else may touch new_ar or the delays between
    for s in body:
        if s is ifs[0] or s is got[0]:
            continue
        for n in ast.walk(s):
            if isinstance(n, ast.Name) and isinstance(n.ctx, ast.Store) and n.id in (dname, "new_ar"):
                raise Unsupported(f"{fn.name}: {n.id} is assigned elsewhere")
    return signs


def gen_callsites(repo, out, errors, done):
    path = f"{repo}/sigpyproc/block.py"
    try:
        if "roll_block" not in done or "roll_block_valid" not in done:
            raise Unsupported("block.dedisperse: kernels not translated")
        fn = _method(path, "FilterbankBlock", "dedisperse")
        sv, sf = _callsite(fn, "only_valid_samples", "delays", "roll_block_valid", "roll_block")
        neg = lambda s: "(fun k => - (delays k))" if s < 0 else "(fun k => delays k)"
        out.append("(* from FilterbankBlock.dedisperse: kernels.roll_block_valid(self.data, %sdelays) / kernels.roll_block(self.data, %sdelays) *)"
                   % ("-" if sv < 0 else "", "-" if sf < 0 else ""))
        out.append("Definition block_dedisperse_run (only_valid : bool) (junk_res : arr2) (data : arr2) (data_nrows data_ncols : Z) "
                   "(delays : arr) (delays_size : Z) : option arr2 :=\n"
                   f"  if only_valid then roll_block_valid_run junk_res data data_nrows data_ncols {neg(sv)} delays_size\n"
                   f"  else roll_block_run junk_res data data_nrows data_ncols {neg(sf)} delays_size.\n")
    except Unsupported as e:
        errors.append(str(e))
        out.append(f"(* UNSUPPORTED block.dedisperse: {str(e).replace('*)', '* )')} *)\n")
    try:
        if "dmt_block" not in done or "dmt_block_valid" not in done:
            raise Unsupported("block.dmt_transform: kernels not translated")
        fn = _method(path, "FilterbankBlock", "dmt_transform")
        sv, sf = _callsite(fn, "only_valid_samples", "dm_delays", "dmt_block_valid", "dmt_block")
        neg = lambda s: "(fun i k => - (dm_delays i k))" if s < 0 else "(fun i k => dm_delays i k)"
        out.append("(* from FilterbankBlock.dmt_transform: kernels.dmt_block_valid(self.data, %sdm_delays) / kernels.dmt_block(self.data, %sdm_delays) *)"
                   % ("-" if sv < 0 else "", "-" if sf < 0 else ""))
        out.append("Definition dmt_transform_run (only_valid : bool) (junk_res : arr2) (junk_call : Z -> arr2) (data : arr2) (data_nrows data_ncols : Z) "
                   "(dm_delays : arr2) (dm_delays_nrows dm_delays_ncols : Z) : option arr2 :=\n"
                   f"  if only_valid then dmt_block_valid_run junk_res junk_call data data_nrows data_ncols {neg(sv)} dm_delays_nrows dm_delays_ncols\n"
                   f"  else dmt_block_run junk_res junk_call data data_nrows data_ncols {neg(sf)} dm_delays_nrows dm_delays_ncols.\n")
    except Unsupported as e:
        errors.append(str(e))
        out.append(f"(* UNSUPPORTED block.dmt_transform: {str(e).replace('*)', '* )')} *)\n")


# ================================================================================================
# C. the law (params.compute_dmdelays, Header.get_dmdelays, header frequencies) over Q
# ================================================================================================

def _decimal_q(src):
    """decimal literal text -> exact rational as a Coq Q term"""
    from decimal import Decimal
    fr = Fraction(Decimal(src))
    return f"({fr.numerator} # {fr.denominator})" if fr >= 0 else f"(({fr.numerator}) # {fr.denominator})"


class QX:
    """scalar float expressions -> Q terms (elementwise reading of NumPy broadcasting)"""

    def __init__(self, names, source):
        self.names = names      # python expression text -> Coq term
        self.source = source

    def qx(self, e):
        txt = ast.unparse(e)
        if txt in self.names:
            return self.names[txt]
        if isinstance(e, ast.Constant) and isinstance(e.value, (int, float)) and not isinstance(e.value, bool):
            seg = ast.get_source_segment(self.source, e)
            return _decimal_q(seg if seg is not None else repr(e.value))
        if isinstance(e, ast.UnaryOp) and isinstance(e.op, ast.USub):
            return f"(- {self.qx(e.operand)})"
        if isinstance(e, ast.BinOp):
            if isinstance(e.op, ast.Pow):
                k = e.right
                neg = isinstance(k, ast.UnaryOp) and isinstance(k.op, ast.USub)
                kk = k.operand if neg else k
                if not (isinstance(kk, ast.Constant) and kk.value == 2):
                    raise Unsupported("power " + ast.unparse(e))
                b = self.qx(e.left)
                return f"(/ ({b} * {b}))" if neg else f"({b} * {b})"
            ops = {ast.Add: "+", ast.Sub: "-", ast.Mult: "*", ast.Div: "/"}
            if type(e.op) in ops:
                return f"({self.qx(e.left)} {ops[type(e.op)]} {self.qx(e.right)})"
        raise Unsupported("float expression " + txt[:80])


def gen_law(repo, out, errors):
    try:
        path = f"{repo}/sigpyproc/params.py"
        src = open(path).read()
        mod, fns = _functions(path)
        consts = {}
        for s in mod.body:
            if isinstance(s, ast.Assign) and len(s.targets) == 1 and isinstance(s.targets[0], ast.Name) and s.targets[0].id.startswith("DM_CONSTANT"):
                consts[s.targets[0].id] = s.value
        fn = fns.get("compute_dmdelays")
        if fn is None:
            raise Unsupported("compute_dmdelays not found")
        pos = [a.arg for a in fn.args.args]
        if pos != ["freqs", "dm", "tsamp", "ref_freq"] or [a.arg for a in fn.args.kwonlyargs] != ["in_samples"]:
            raise Unsupported(f"compute_dmdelays parameters {pos}")
        body = _strip_doc(fn.body)
        expect_casts = {"freqs": "np.atleast_1d(freqs).astype(np.float32)", "dm": "np.atleast_1d(dm)[:, np.newaxis].astype(np.float32)"}
        i = 0
        keeps_axis = False
        if ast.unparse(body[0]) == "scalar_dm = np.ndim(dm) == 0":
            keeps_axis = True; i = 1
        for name, txt in expect_casts.items():
            s = body[i]
            if not (isinstance(s, ast.Assign) and ast.unparse(s.targets[0]) == name and ast.unparse(s.value) == txt):
                raise Unsupported(f"compute_dmdelays: expected `{name} = {txt}`, found `{ast.unparse(s)[:80]}`")
            i += 1
        s = body[i]
        if not (isinstance(s, ast.Assign) and ast.unparse(s.targets[0]) == "delays"):
            raise Unsupported("compute_dmdelays: expected the assignment of delays")
        used = [n.id for n in ast.walk(s.value) if isinstance(n, ast.Name) and n.id.startswith("DM_CONSTANT")]
        if len(used) != 1 or used[0] not in consts:
            raise Unsupported(f"compute_dmdelays: DM constant {used}")
        cval = consts[used[0]]
        if not (isinstance(cval, ast.Constant) and isinstance(cval.value, float)):
            raise Unsupported(f"{used[0]} is not a literal")
        cq = _decimal_q(ast.get_source_segment(src, cval))
        qx = QX({"freqs": "freq", "dm": "dm", "ref_freq": "ref_freq", "tsamp": "tsamp", used[0]: "dm_constant"}, src)
        sec = qx.qx(s.value)
        i += 1
        s = body[i]
        if not (isinstance(s, ast.If) and ast.unparse(s.test) == "in_samples" and not s.orelse and len(s.body) == 1
                and isinstance(s.body[0], ast.Assign) and ast.unparse(s.body[0].targets[0]) == "delays"):
            raise Unsupported("compute_dmdelays: expected `if in_samples: delays = ...`")
        v = s.body[0].value
        # (delays / tsamp).round().astype(np.int32)
        if not (isinstance(v, ast.Call) and ast.unparse(v.func).endswith(".round().astype") and ast.unparse(v.args[0]) == "np.int32"
                and isinstance(v.func.value, ast.Call) and not v.func.value.args and not v.func.value.keywords):
            raise Unsupported("compute_dmdelays: rounding expression " + ast.unparse(v)[:80])
        inner = v.func.value.func.value
        qx2 = QX({"delays": "(dmdelay_sec freq dm ref_freq)", "tsamp": "tsamp"}, src)
        samp = qx2.qx(inner)
        i += 1
        tail_ok = ("return delays[0] if scalar_dm else delays",) if keeps_axis else ("return delays.squeeze()",)
        if i != len(body) - 1 or ast.unparse(body[i]) not in tail_ok:
            raise Unsupported("compute_dmdelays: tail " + ast.unparse(body[i])[:60])
        out.append(f"(* from params.{used[0]} = {ast.get_source_segment(src, cval)} and params.compute_dmdelays (elementwise; float32 casts not modelled) *)")
        out.append(f"Definition dm_constant : Q := {cq}.")
        out.append(f"Definition dmdelay_sec (freq dm ref_freq : Q) : Q :=\n  {sec}.")
        out.append(f"Definition dmdelay_samples (freq dm tsamp ref_freq : Q) : Z :=\n  rhe {samp}.   (* .round().astype(np.int32) *)\n")
        # shape of the result: dm is cast to (ndm, 1) (ndm = 1 for a scalar), freqs to (nchans,), the product broadcasts to (ndm, nchans)
        out.append("(* shape of the returned array for ndm DMs (scalar_dm: dm was a scalar, then ndm = 1) and nchans channels: the broadcast (ndm, nchans),\n"
                   f"   then `{ast.unparse(body[-1])}` *)")
        if keeps_axis:
            out.append("Definition dmdelays_shape (scalar_dm : bool) (ndm nchans : Z) : list Z :=\n  if scalar_dm then [nchans] else [ndm; nchans].\n")
        else:
            out.append("Definition dmdelays_shape (scalar_dm : bool) (ndm nchans : Z) : list Z :=\n"
                       "  filter (fun k => negb (k =? 1)%Z) [if scalar_dm then 1%Z else ndm; nchans].   (* ndarray.squeeze() drops every axis of length 1 *)\n")

        # Header.get_dmdelays
        hpath = f"{repo}/sigpyproc/header.py"
        hsrc = open(hpath).read()
        g = _method(hpath, "Header", "get_dmdelays")
        gtxt = ast.unparse(g)
        refs = None
        for n in ast.walk(g):
            if isinstance(n, ast.Compare) and isinstance(n.ops[0], ast.NotIn) and ast.unparse(n.left) == "ref_freq" and isinstance(n.comparators[0], ast.Set):
                refs = sorted(c.value for c in n.comparators[0].elts)
        if refs != ["center", "ch1", "max", "min"]:
            raise Unsupported(f"get_dmdelays: admissible reference names {refs}")
        for need in ("fch_ref = float(getattr(self, f'f{ref_freq}'))", "fch_ref = float(ref_freq)",
                     "return params.compute_dmdelays(self.chan_freqs, dm, self.tsamp, fch_ref, in_samples=in_samples)"):
            if need not in gtxt:
                raise Unsupported("get_dmdelays: expected `" + need + "`")
        attrs = {"self.fch1": "fch1", "self.foff": "foff", "self.nchans": "(inject_Z nchans)", "self.ftop": "(hdr_ftop fch1 foff)"}
        def prop(name):
            f = _method(hpath, "Header", name)
            b = _strip_doc(f.body)
            if len(b) != 1 or not isinstance(b[0], ast.Return):
                raise Unsupported(f"Header.{name}: not a single return")
            return b[0].value
        cf = prop("chan_freqs")
        if ast.unparse(cf) != "np.arange(self.nchans, dtype=np.float32) * self.foff + self.fch1":
            raise Unsupported("Header.chan_freqs: " + ast.unparse(cf))
        qh = QX(dict(attrs, **{"np.arange(self.nchans, dtype=np.float32)": "(inject_Z i)"}), hsrc)
        out.append("(* from Header.chan_freqs / ftop / fcenter / fmax / fmin (float32 storage of chan_freqs not modelled) *)")
        out.append(f"Definition hdr_chan_freq (fch1 foff : Q) (i : Z) : Q :=\n  {qh.qx(cf)}.")
        out.append(f"Definition hdr_ftop (fch1 foff : Q) : Q :=\n  {QX(attrs, hsrc).qx(prop('ftop'))}.")
        out.append(f"Definition hdr_fcenter (fch1 foff : Q) (nchans : Z) : Q :=\n  {QX(attrs, hsrc).qx(prop('fcenter'))}.")
        for nm, op in (("fmax", "max"), ("fmin", "min")):
            if ast.unparse(prop(nm)) != f"self.chan_freqs.{op}()":
                raise Unsupported(f"Header.{nm}: " + ast.unparse(prop(nm)))
        out.append("(* fmax / fmin = chan_freqs.max() / .min(); reference names accepted by get_dmdelays: ch1, max, min, center, or a number;\n"
                   "   call: compute_dmdelays(self.chan_freqs, dm, self.tsamp, fch_ref) *)")
        out.append("Definition hdr_fmax (fch1 foff : Q) (nchans : Z) : Q := qmax_n nchans (hdr_chan_freq fch1 foff).")
        out.append("Definition hdr_fmin (fch1 foff : Q) (nchans : Z) : Q := qmin_n nchans (hdr_chan_freq fch1 foff).")
        out.append("Definition hdr_delay (fch1 foff tsamp dm fref : Q) (i : Z) : Z := dmdelay_samples (hdr_chan_freq fch1 foff i) dm tsamp fref.\n")
    except Unsupported as e:
        errors.append("law: " + str(e))
        out.append(f"(* UNSUPPORTED law: {str(e).replace('*)', '* )')} *)\n")


# ================================================================================================
# D. FilReader.read_dedisp_block
# ================================================================================================

class RX:
    """integer expressions of read_dedisp_block: scalars and per-channel arrays (functions of the channel c)"""

    def __init__(self):
        self.scal = {"start": "start", "nsamps": "nsamps", "self.header.nsamples": "file_nsamples", "self.header.nchans": "nchans"}
        self.arrs = {"delays": "(delays c)"}     # python name -> term with free variable c

    def is_arr(self, e):
        return any(isinstance(n, ast.Name) and n.id in self.arrs for n in ast.walk(e))

    def x(self, e):
        """scalar or elementwise-at-c term"""
        txt = ast.unparse(e)
        if txt in self.scal:
            return self.scal[txt]
        if isinstance(e, ast.Name) and e.id in self.arrs:
            return self.arrs[e.id]
        if isinstance(e, ast.Constant) and isinstance(e.value, int) and not isinstance(e.value, bool):
            return str(e.value) if e.value >= 0 else f"({e.value})"
        if isinstance(e, ast.BinOp) and type(e.op) in BIN:
            return f"({self.x(e.left)} {BIN[type(e.op)]} {self.x(e.right)})"
        if isinstance(e, ast.Call) and ast.unparse(e.func) == "int" and len(e.args) == 1:
            return self.x(e.args[0])
        if (isinstance(e, ast.Call) and isinstance(e.func, ast.Attribute) and e.func.attr in ("min", "max") and not e.args and not e.keywords
                and self.is_arr(e.func.value)):
            inner = self.x(e.func.value)
            return f"(a{e.func.attr} nchans (fun c => {inner}))"
        raise Unsupported("read_dedisp_block: expression " + txt[:80])

    def cmp(self, e):
        if isinstance(e, ast.Compare) and len(e.ops) == 1 and type(e.ops[0]) in CMP:
            return f"({self.x(e.left)} {CMP[type(e.ops[0])]} {self.x(e.comparators[0])})"
        raise Unsupported("read_dedisp_block: comparison " + ast.unparse(e)[:80])

    def anyc(self, e):
        """np.any(<elementwise comparison>) -> existsb over the channels"""
        if isinstance(e, ast.Call) and ast.unparse(e.func) == "np.any" and len(e.args) == 1:
            return f"(existsb (fun c => {self.cmp(e.args[0])}) (zrange nchans))"
        raise Unsupported("read_dedisp_block: " + ast.unparse(e)[:80])


def gen_rdb(repo, out, errors):
    try:
        fn = _method(f"{repo}/sigpyproc/readers.py", "FilReader", "read_dedisp_block")
        if [a.arg for a in fn.args.args] != ["self", "start", "nsamps", "dm"]:
            raise Unsupported("read_dedisp_block: parameters")
        body = _strip_doc(fn.body)
        rx = RX()
        it = iter(body)
        s = next(it)
        if ast.unparse(s) != "delays = self.header.get_dmdelays(dm)":
            raise Unsupported("read_dedisp_block: first statement " + ast.unparse(s)[:60])
        defs = []
        loop = None
        seek = None
        precheck = None
        zero_init = {"samples_read": False, "data": False}
        for s in it:
            if loop is not None:
                if ast.unparse(s) in ("start_mjd = self.header.mjd_after_nsamps(start)",
                                      "new_header = self.header.new_header({'tstart': start_mjd, 'nsamples': nsamps})",
                                      "return FilterbankBlock(data, new_header, dm=dm)"):
                    continue
                raise Unsupported("read_dedisp_block: statement after the loop: " + ast.unparse(s)[:70])
            if isinstance(s, ast.Assign) and len(s.targets) == 1 and isinstance(s.targets[0], ast.Name):
                t = s.targets[0].id
                u = ast.unparse(s.value)
                if t == "samples_read":
                    if u != "np.zeros(self.header.nchans, dtype=int)":
                        raise Unsupported("read_dedisp_block: samples_read = " + u)
                    zero_init[t] = True
                    continue
                if t == "data":
                    if u != "np.zeros((self.header.nchans, nsamps), dtype=self._file.bitsinfo.dtype)":
                        raise Unsupported("read_dedisp_block: data = " + u)
                    zero_init[t] = True
                    continue
                if t in rx.scal or t in rx.arrs or loop is not None:
                    raise Unsupported(f"read_dedisp_block: assignment of {t}")
                term = rx.x(s.value)
                if rx.is_arr(s.value) and not (isinstance(s.value, ast.Call)):
                    defs.append(f"Definition rdb_{t} (delays : arr) (nchans start nsamps : Z) (c : Z) : Z :=\n  {term}.")
                    rx.arrs[t] = f"(rdb_{t} delays nchans start nsamps c)"
                else:
                    defs.append(f"Definition rdb_{t} (delays : arr) (nchans start nsamps : Z) : Z :=\n  {term}.")
                    rx.scal[t] = f"(rdb_{t} delays nchans start nsamps)"
                continue
            if isinstance(s, ast.If) and not s.orelse and K2._is_raise_block(s.body):
                if precheck is not None or seek is not None:
                    raise Unsupported("read_dedisp_block: second range check")
                t = s.test
                if not (isinstance(t, ast.BoolOp) and isinstance(t.op, ast.Or)):
                    raise Unsupported("read_dedisp_block: range check " + ast.unparse(t)[:80])
                precheck = "(" + " || ".join(rx.anyc(v) for v in t.values) + ")"
                continue
            if isinstance(s, ast.Expr) and isinstance(s.value, ast.Call) and ast.unparse(s.value.func) == "self._file.seek":
                a = s.value.args
                if seek is not None or loop is not None or len(a) != 1 or not (isinstance(a[0], ast.BinOp) and isinstance(a[0].op, ast.Mult)
                                                                              and ast.unparse(a[0].right) == "self.samp_stride"):
                    raise Unsupported("read_dedisp_block: seek " + ast.unparse(s)[:80])
                seek = rx.x(a[0].left)
                continue
            if isinstance(s, ast.For):
                if loop is not None:
                    raise Unsupported("read_dedisp_block: second loop")
                loop = s
                continue
            raise Unsupported("read_dedisp_block: statement " + ast.unparse(s)[:70])
        if loop is None or seek is None or precheck is None or not all(zero_init.values()):
            raise Unsupported("read_dedisp_block: structure (range check, seek, zero buffers, loop)")
        # loop header: for v in track(range(a[, b]), description=...)
        itx = loop.iter
        if not (isinstance(itx, ast.Call) and ast.unparse(itx.func) == "track" and len(itx.args) == 1 and isinstance(itx.args[0], ast.Call)
                and ast.unparse(itx.args[0].func) == "range" and len(itx.args[0].args) in (1, 2) and isinstance(loop.target, ast.Name)):
            raise Unsupported("read_dedisp_block: loop header " + ast.unparse(itx)[:80])
        ra = itx.args[0].args
        lo = "0" if len(ra) == 1 else rx.x(ra[0])
        hi = rx.x(ra[-1])
        lv = loop.target.id
        rx.scal[lv] = "v"
        lb = list(loop.body)
        offs = None
        if lv != "samples_offset":
            s = lb.pop(0)
            if not (isinstance(s, ast.Assign) and ast.unparse(s.targets[0]) == "samples_offset"):
                raise Unsupported("read_dedisp_block: loop body starts with " + ast.unparse(s)[:60])
            offs = rx.x(s.value)
        else:
            offs = "v"
        rx.scal["samples_offset"] = "s"
        # relevant channels
        s = lb.pop(0)
        u = ast.unparse(s.value) if isinstance(s, ast.Assign) else ""
        if not (isinstance(s, ast.Assign) and ast.unparse(s.targets[0]) == "relevant_chans"):
            raise Unsupported("read_dedisp_block: expected relevant_chans, found " + ast.unparse(s)[:60])
        v = s.value
        inner = None
        if (isinstance(v, ast.Call) and ast.unparse(v.func).endswith(".flatten") and isinstance(v.func.value, ast.Call)
                and ast.unparse(v.func.value.func) == "np.argwhere" and len(v.func.value.args) == 1):
            inner = v.func.value.args[0]
        elif isinstance(v, ast.Call) and ast.unparse(v.func) == "np.flatnonzero" and len(v.args) == 1:
            inner = v.args[0]
        if not (inner is not None and isinstance(inner, ast.Call) and ast.unparse(inner.func) == "np.logical_and" and len(inner.args) == 2):
            raise Unsupported("read_dedisp_block: relevant_chans = " + u[:80])
        rel = "(" + " && ".join(rx.cmp(a) for a in inner.args) + ")"
        # selection: the relevant channels or their contiguous hull
        s = lb.pop(0)
        hull = None
        sel = "relevant_chans"
        if isinstance(s, ast.Assign) and ast.unparse(s.targets[0]) == "chans_slice":
            if ast.unparse(s.value) != "np.arange(relevant_chans.min(), relevant_chans.max() + 1, dtype=int)":
                raise Unsupported("read_dedisp_block: chans_slice = " + ast.unparse(s.value)[:80])
            hull = True
            sel = "chans_slice"
            s = lb.pop(0)
        else:
            hull = False
        rest = [ast.unparse(s)] + [ast.unparse(t) for t in lb]
        want = ["sample_data = self._file.cread(self.header.nchans)",
                f"data[{sel}, samples_read[{sel}]] = sample_data[{sel}]",
                f"samples_read[{sel}] += 1"]
        if rest != want:
            raise Unsupported("read_dedisp_block: loop body tail " + " | ".join(rest)[:160])
        out.append("(* from FilReader.read_dedisp_block *)")
        out += defs
        P = "(delays : arr) (nchans start nsamps : Z)"
        out.append(f"(* ValueError test before any read *)\nDefinition rdb_out_of_range {P} (file_nsamples : Z) : bool :=\n  {precheck}.")
        out.append(f"(* self._file.seek(<this> * samp_stride); the loop is `for {lv} in range(lo, hi)` *)")
        out.append(f"Definition rdb_seek {P} : Z :=\n  {seek}.")
        out.append(f"Definition rdb_loop_lo {P} : Z :=\n  {lo}.")
        out.append(f"Definition rdb_loop_hi {P} : Z :=\n  {hi}.")
        out.append(f"(* samples_offset as a function of the loop variable *)\nDefinition rdb_offset {P} (v : Z) : Z :=\n  {offs}.")
        out.append(f"(* membership of channel c in relevant_chans at samples_offset = s *)\nDefinition rdb_relevant {P} (s c : Z) : bool :=\n  {rel}.")
        out.append(f"(* channels written per sample: {'np.arange(relevant.min(), relevant.max() + 1)' if hull else 'relevant_chans'} *)")
        out.append(f"Definition rdb_hull : bool := {'true' if hull else 'false'}.\n")
    except (Unsupported, StopIteration) as e:
        errors.append(str(e) or "read_dedisp_block: truncated")
        out.append(f"(* UNSUPPORTED read_dedisp_block: {str(e).replace('*)', '* )')} *)\n")


# ================================================================================================
# E. Filterbank.dedisperse (streamed): the delays, sizes and per-block kernel arguments of the call site
# ================================================================================================

class SX(RX):
    """integer expressions of Filterbank.dedisperse: RX plus the builtins min(a, b) / max(a, b)"""

    def __init__(self):
        self.scal = {"gulp": "gulp", "self.header.nchans": "nchans"}
        self.arrs = {}

    def x(self, e):
        if (isinstance(e, ast.Call) and isinstance(e.func, ast.Name) and e.func.id in ("min", "max") and len(e.args) == 2 and not e.keywords):
            return f"(Z.{e.func.id} {self.x(e.args[0])} {self.x(e.args[1])})"
        try:
            return RX.x(self, e)
        except Unsupported as ex:
            raise Unsupported(str(ex).replace("read_dedisp_block", "Filterbank.dedisperse"))


def gen_stream(repo, out, errors):
    try:
        fn = _method(f"{repo}/sigpyproc/base.py", "Filterbank", "dedisperse")
        if [a.arg for a in fn.args.args] != ["self", "dm", "gulp", "start", "nsamps"] or fn.args.kwarg is None or fn.args.kwarg.arg != "plan_kwargs":
            raise Unsupported("Filterbank.dedisperse: parameters")
        body = _strip_doc(fn.body)
        sx = SX()
        P = "(d : arr) (nchans gulp nsamps_sel : Z)"
        A = "d nchans gulp nsamps_sel"
        defs = []
        count = {}
        loop = None
        ret = None
        sel_seen = False
        tim_len_name = None

        def define(t, term, is_arr):
            k = count.get(t, 0) + 1
            count[t] = k
            nm = f"stream_{t}" + ("" if k == 1 else f"_{k}")
            if is_arr:
                defs.append(f"Definition {nm} {P} (c : Z) : Z :=\n  {term}.")
                sx.arrs[t] = f"({nm} {A} c)"
            else:
                defs.append(f"Definition {nm} {P} : Z :=\n  {term}.")
                sx.scal[t] = f"({nm} {A})"

        for s in body:
            if ret is not None:
                raise Unsupported("Filterbank.dedisperse: statement after return")
            if loop is not None:
                if not isinstance(s, ast.Return):
                    raise Unsupported("Filterbank.dedisperse: statement after the loop: " + ast.unparse(s)[:70])
                ret = s
                continue
            if isinstance(s, ast.For):
                loop = s
                continue
            if not (isinstance(s, ast.Assign) and len(s.targets) == 1 and isinstance(s.targets[0], ast.Name)):
                raise Unsupported("Filterbank.dedisperse: statement " + ast.unparse(s)[:70])
            t = s.targets[0].id
            u = ast.unparse(s.value)
            if t == "chan_delays" and "chan_delays" not in sx.arrs:
                if u != "self.header.get_dmdelays(dm)":
                    raise Unsupported("Filterbank.dedisperse: chan_delays = " + u[:70])
                sx.arrs[t] = "(d c)"
                continue
            if t == "nsamps_sel":
                if u != "self.header.nsamples - start if nsamps is None else nsamps":
                    raise Unsupported("Filterbank.dedisperse: nsamps_sel = " + u[:80])
                sx.scal[t] = "nsamps_sel"
                sel_seen = True
                continue
            if t == "tim_ar":
                v = s.value
                if not (isinstance(v, ast.Call) and ast.unparse(v.func) == "np.zeros" and len(v.args) == 1 and isinstance(v.args[0], ast.Name)
                        and [ast.unparse(k.value) for k in v.keywords] == ["np.float32"]):
                    raise Unsupported("Filterbank.dedisperse: tim_ar = " + u[:70])
                tim_len_name = v.args[0].id
                defs.append(f"(* tim_ar = np.zeros({tim_len_name}, dtype=np.float32): the length of the returned series *)\n"
                            f"Definition stream_out_len {P} : Z :=\n  {sx.x(v.args[0])}.")
                continue
            if t in ("start", "nsamps", "dm", "self"):
                raise Unsupported(f"Filterbank.dedisperse: assignment of {t}")
            define(t, sx.x(s.value), sx.is_arr(s.value) and not isinstance(s.value, ast.Call))
        if loop is None or ret is None or not sel_seen or tim_len_name is None or "chan_delays" not in sx.arrs:
            raise Unsupported("Filterbank.dedisperse: structure (delays, nsamps_sel, tim_ar, loop, return)")
        # for nsamps_r, ii, data in self.read_plan(gulp=.., start=start, nsamps=nsamps, skipback=.., **plan_kwargs):
        it = loop.iter
        if not (isinstance(loop.target, ast.Tuple) and [ast.unparse(e) for e in loop.target.elts] == ["nsamps_r", "ii", "data"]
                and isinstance(it, ast.Call) and ast.unparse(it.func) == "self.read_plan" and not it.args):
            raise Unsupported("Filterbank.dedisperse: loop header " + ast.unparse(it)[:80])
        kw = {k.arg: k.value for k in it.keywords}
        if set(kw) != {"gulp", "start", "nsamps", "skipback", None} or ast.unparse(kw["start"]) != "start" or ast.unparse(kw["nsamps"]) != "nsamps" \
                or ast.unparse(kw[None]) != "plan_kwargs":
            raise Unsupported("Filterbank.dedisperse: read_plan arguments " + ast.unparse(it)[:120])
        plan_gulp = sx.x(kw["gulp"])
        plan_skip = sx.x(kw["skipback"])
        if len(loop.body) != 1 or not (isinstance(loop.body[0], ast.Expr) and isinstance(loop.body[0].value, ast.Call)
                                       and ast.unparse(loop.body[0].value.func) == "kernels.dedisperse"):
            raise Unsupported("Filterbank.dedisperse: loop body " + ast.unparse(loop.body[0])[:80])
        ka = loop.body[0].value.args
        if len(ka) != 7 or loop.body[0].value.keywords or ast.unparse(ka[0]) != "data" or ast.unparse(ka[1]) != "tim_ar" \
                or not isinstance(ka[2], ast.Name) or ka[2].id not in sx.arrs or ast.unparse(ka[5]) != "nsamps_r":
            raise Unsupported("Filterbank.dedisperse: kernel arguments " + ast.unparse(loop.body[0])[:140])
        sx.scal["ii"] = "ii"
        k_delays = sx.arrs[ka[2].id]
        k_maxdelay = sx.x(ka[3])
        k_nchans = sx.x(ka[4])
        k_index = sx.x(ka[6])
        # return TimeSeries(tim_ar, self.header.new_header({... 'nsamples': <declared> ...}))
        rv = ret.value
        declared = None
        if (isinstance(rv, ast.Call) and ast.unparse(rv.func) == "TimeSeries" and len(rv.args) == 2 and ast.unparse(rv.args[0]) == "tim_ar"
                and isinstance(rv.args[1], ast.Call) and ast.unparse(rv.args[1].func) == "self.header.new_header" and len(rv.args[1].args) == 1
                and isinstance(rv.args[1].args[0], ast.Dict)):
            dct = {ast.unparse(k): v for k, v in zip(rv.args[1].args[0].keys, rv.args[1].args[0].values)}
            if "'nsamples'" in dct and ast.unparse(dct.get("'dm'", ast.Constant(0))) == "dm" and ast.unparse(dct.get("'nchans'", ast.Constant(0))) == "1":
                declared = sx.x(dct["'nsamples'"])
        if declared is None:
            raise Unsupported("Filterbank.dedisperse: return " + ast.unparse(rv)[:120])
        out.append("(* from Filterbank.dedisperse: d = self.header.get_dmdelays(dm) (reference ch1); nsamps_sel = header.nsamples - start, or nsamps if given;\n"
                   "   every assignment in source order (a name assigned twice gets the suffix _2) *)")
        out += defs
        out.append(f"(* self.read_plan(gulp=<this>, start=start, nsamps=nsamps, skipback=<this>) *)")
        out.append(f"Definition stream_plan_gulp {P} : Z :=\n  {plan_gulp}.")
        out.append(f"Definition stream_plan_skipback {P} : Z :=\n  {plan_skip}.")
        out.append("(* kernels.dedisperse(data, tim_ar, <delays>, <maxdelay>, <nchans>, nsamps_r, <index of block ii>) *)")
        out.append(f"Definition stream_kernel_delay {P} (c : Z) : Z :=\n  {k_delays}.")
        out.append(f"Definition stream_kernel_maxdelay {P} : Z :=\n  {k_maxdelay}.")
        out.append(f"Definition stream_kernel_nchans {P} : Z :=\n  {k_nchans}.")
        out.append(f"Definition stream_kernel_index {P} (ii : Z) : Z :=\n  {k_index}.")
        out.append(f"(* header of the returned TimeSeries: nsamples (dm = dm, nchans = 1) *)\nDefinition stream_declared_nsamples {P} : Z :=\n  {declared}.\n")
    except Unsupported as e:
        errors.append(str(e))
        out.append(f"(* UNSUPPORTED Filterbank.dedisperse: {str(e).replace('*)', '* )')} *)\n")


def gen_c09(repo="/repo"):
    out = ["(* GENERATED by tools/py2coq/gen_c09.py from sigpyproc/core/kernels.py, block.py, params.py, header.py, readers.py, base.py -- do not edit *)",
           "From Coq Require Import ZArith List Bool QArith.", "Require Import SPP.Base.Rt SPP.Model.C09_Arr2.",
           "Import ListNotations.", "Open Scope Z_scope.", ""]
    errors = []
    done = gen_kernels2(repo, out, errors)
    gen_callsites(repo, out, errors, done)
    gen_rdb(repo, out, errors)
    gen_stream(repo, out, errors)
    out.append("Open Scope Q_scope.")
    gen_law(repo, out, errors)
    return "\n".join(out), errors


GENERATORS = {"C09.v": gen_c09}

if __name__ == "__main__":
    import sys
    t, errs = gen_c09(sys.argv[1] if len(sys.argv) > 1 else "/repo")
    print(t)
    for e in errs:
        print("ERROR", e, file=sys.stderr)
