"""py2coq plug-in for C16 (RFI masks): Gen/C16Rfi.v.

Read from the Python `ast` of /repo's CURRENT sources (fresh on every run):

  sigpyproc/core/rfi.py
    * double_mad_mask, iqrm_mask      -> the thresholding of the z-scores (the z-score estimators themselves stay
                                         external: `zscore_doublemad`, `zscore_iqr` are function parameters);
                                         for iqrm_mask also how the window of lagged neighbours is built
                                         (np.pad edge mode + as_strided / sliding_window_view) and which lags are used
    * RFIMask.apply_mask / apply_method / apply_funcn   -> statement by statement over boolean channel vectors
    * the four `@<mask>.default` initialisers           -> RFIMask_init
  sigpyproc/base.py
    * Filterbank.clean_rfi            -> which operations are applied, in which order and under which guards; which
                                         mask and which value are handed to apply_channel_mask; the default mask value
    * Filterbank.apply_channel_mask   -> the casts of mask / mask value and the per-block body (arguments of the
                                         kernel call, what is written)

Vocabulary of the emitted terms: coq/Model/C16_Vec.v (bvec, qvec, vor, vand, vge, ..., mstate, as_strided2, pad_edge).
Typing: every Python name has one of the kinds  B (bool vector) | V (rational vector) | Q | Z | R (pair of Q) |
LR (list of pairs) | LZ (list of Z) | LV (list of vectors) | F (custom function bvec -> bvec) | M (method) | S (self).
Anything outside the recognised forms raises `Unsupported`: the definition is replaced by a comment, whatever depends
on it stops compiling and the error is reported (fail closed).  Standard library only.
"""
from __future__ import annotations

import ast

RFI = "sigpyproc/core/rfi.py"
BASE = "sigpyproc/base.py"


class Unsupported(Exception):
    pass


def _strip(body):
    """drop the docstring"""
    if body and isinstance(body[0], ast.Expr) and isinstance(body[0].value, ast.Constant) and isinstance(body[0].value.value, str):
        return body[1:]
    return body


def _u(e):
    return ast.unparse(e)


def _safe(s):
    return s.replace("(*", "( *").replace("*)", "* )")


def _find(mod, name, cls=None):
    for node in mod.body:
        if cls is None and isinstance(node, ast.FunctionDef) and node.name == name:
            return node
        if cls is not None and isinstance(node, ast.ClassDef) and node.name == cls:
            for f in node.body:
                if isinstance(f, ast.FunctionDef) and f.name == name:
                    return f
    raise Unsupported(f"{cls + '.' if cls else ''}{name} not found")


def _is_raise_guard(s, exc):
    """`if <test>: [msg = f"..."]; raise <exc>(...)` without else -> test, else None"""
    if not isinstance(s, ast.If) or s.orelse:
        return None
    body = [b for b in s.body if not (isinstance(b, ast.Assign) and isinstance(b.value, (ast.JoinedStr, ast.Constant)))]
    if len(body) != 1 or not isinstance(body[0], ast.Raise):
        return None
    r = body[0].exc
    name = _u(r.func) if isinstance(r, ast.Call) else _u(r)
    if name != exc:
        raise Unsupported(f"raise of {name}, expected {exc}")
    return s.test


class Tr:
    """expression / statement translator over the vector vocabulary; `env` maps Python names to kinds"""

    def __init__(self, env, attrs=None):
        self.env = dict(env)
        self.attrs = dict(attrs or {})     # python attribute text -> (coq term, kind)
        self.ext = []                      # external functions used (zscore_<method>)

    # -- expressions -----------------------------------------------------------------------------
    def ex(self, e):
        """-> (coq term, kind)"""
        if isinstance(e, ast.Constant):
            if isinstance(e.value, bool) or not isinstance(e.value, int):
                raise Unsupported(f"constant {e.value!r}")
            return (str(e.value) if e.value >= 0 else f"({e.value})"), "Z"
        if isinstance(e, ast.Name):
            if e.id not in self.env:
                raise Unsupported(f"unknown name {e.id}")
            return e.id, self.env[e.id]
        if isinstance(e, ast.Attribute):
            t = _u(e)
            if t in self.attrs:
                return self.attrs[t]
            # <zscore result>.data
            if e.attr == "data" and isinstance(e.value, ast.Name) and self.env.get(e.value.id) == "ZS":
                return e.value.id, "V"
            raise Unsupported(f"attribute {t}")
        if isinstance(e, ast.UnaryOp) and isinstance(e.op, ast.USub):
            t, k = self.ex(e.operand)
            if k != "Z":
                raise Unsupported("negation of " + k)
            return f"(- {t})", "Z"
        if isinstance(e, ast.UnaryOp) and isinstance(e.op, ast.Invert):
            t, k = self.ex(e.operand)
            if k != "B":
                raise Unsupported("~ of " + k)
            return f"(vnot {t})", "B"
        if isinstance(e, ast.BinOp) and isinstance(e.op, (ast.Add, ast.Sub, ast.Mult)):
            (l, kl), (r, kr) = self.ex(e.left), self.ex(e.right)
            op = {ast.Add: "+", ast.Sub: "-", ast.Mult: "*"}[type(e.op)]
            if kl == kr == "Z":
                return f"({l} {op} {r})", "Z"
            raise Unsupported(f"arithmetic on {kl},{kr}: {_u(e)}")
        if isinstance(e, ast.Subscript):
            t, k = self.ex(e.value)
            if k == "R" and isinstance(e.slice, ast.Constant) and e.slice.value in (0, 1):
                return f"({'fst' if e.slice.value == 0 else 'snd'} {t})", "Q"
            raise Unsupported("subscript " + _u(e))
        if isinstance(e, ast.Compare) and len(e.ops) == 1:
            (l, kl), (r, kr) = self.ex(e.left), self.ex(e.comparators[0])
            op = type(e.ops[0])
            if kl == "V" and kr == "Q":
                f = {ast.GtE: "vge", ast.LtE: "vle", ast.Gt: "vgt", ast.Lt: "vlt"}.get(op)
                if f is None:
                    raise Unsupported("comparison " + _u(e))
                return f"({f} {l} {r})", "B"
            raise Unsupported(f"comparison of {kl} with {kr}: {_u(e)}")
        if isinstance(e, ast.Call):
            f = _u(e.func)
            kw = {k.arg: k.value for k in e.keywords}
            if f in ("np.zeros", "np.zeros_like") and len(e.args) == 1 and set(kw) == {"dtype"} \
                    and isinstance(kw["dtype"], ast.Constant) and kw["dtype"].value == "bool":
                a, k = self.ex(e.args[0])
                if (f == "np.zeros" and k != "Z") or (f == "np.zeros_like" and k != "V"):
                    raise Unsupported("size of " + _u(e))
                return "vfalse", "B"
            if f in ("np.logical_or", "np.logical_and") and len(e.args) == 2 and not kw:
                (a, ka), (b, kb) = self.ex(e.args[0]), self.ex(e.args[1])
                if ka != "B" or kb != "B":
                    raise Unsupported(f"{f} of {ka},{kb}")
                return f"({'vor' if f.endswith('or') else 'vand'} {a} {b})", "B"
            if f in ("np.logical_or.reduce", "np.logical_and.reduce") and len(e.args) == 1 and not kw \
                    and isinstance(e.args[0], (ast.Tuple, ast.List)) and e.args[0].elts:
                parts = [self.ex(x) for x in e.args[0].elts]
                if any(k != "B" for _, k in parts):
                    raise Unsupported("reduce over non-boolean vectors")
                op = "vor" if ".logical_or." in f else "vand"
                t = parts[-1][0]
                for p, _ in reversed(parts[:-1]):
                    t = f"({op} {p} {t})"
                return t, "B"
            if f == "np.abs" and len(e.args) == 1 and not kw:
                a, k = self.ex(e.args[0])
                if k != "V":
                    raise Unsupported("np.abs of " + k)
                return f"(vabs {a})", "V"
            if f == "np.arange" and len(e.args) == 2 and not kw:
                (a, ka), (b, kb) = self.ex(e.args[0]), self.ex(e.args[1])
                if ka != "Z" or kb != "Z":
                    raise Unsupported("np.arange bounds")
                return f"(arange {a} {b})", "LZ"
            if f == "np.concatenate" and len(e.args) == 1 and not kw and isinstance(e.args[0], ast.List):
                parts = [self.ex(x) for x in e.args[0].elts]
                if not parts or any(k != "LZ" for _, k in parts):
                    raise Unsupported("np.concatenate of " + _u(e.args[0]))
                return "(" + " ++ ".join(p for p, _ in parts) + ")", "LZ"
            if f == "stats.estimate_zscore" and len(e.args) == 1 and set(kw) == {"scale_method"} \
                    and isinstance(kw["scale_method"], ast.Constant) and isinstance(kw["scale_method"].value, str):
                a, k = self.ex(e.args[0])
                if k != "V":
                    raise Unsupported("estimate_zscore of " + k)
                name = "zscore_" + kw["scale_method"].value
                if not name.replace("_", "").isalnum():
                    raise Unsupported("scale method name")
                if name not in self.ext:
                    self.ext.append(name)
                return f"({name} {a})", "ZS"
            if f == "len" and len(e.args) == 1 and isinstance(e.args[0], ast.Name) and self.env.get(e.args[0].id) == "V":
                return f"{e.args[0].id}_size", "Z"
            if isinstance(e.func, ast.Name) and self.env.get(e.func.id) == "F" and len(e.args) == 1 and not kw:
                a, k = self.ex(e.args[0])
                if k != "B":
                    raise Unsupported("custom function applied to " + k)
                return f"({e.func.id} {a})", "B"
            raise Unsupported("call " + _u(e)[:80])
        raise Unsupported("expression " + _u(e)[:80])

    # -- statements ------------------------------------------------------------------------------
    def assigned(self, stmts):
        out = []
        for s in stmts:
            if isinstance(s, ast.Assign) and len(s.targets) == 1:
                t = s.targets[0]
                n = t.id if isinstance(t, ast.Name) else ("self" if _u(t).startswith("self.") else None)
                if n is None:
                    raise Unsupported("target " + _u(t))
                if n not in out:
                    out.append(n)
            else:
                raise Unsupported("statement in loop body: " + _u(s)[:60])
        return out

    def block(self, stmts, final, ind=1, opt=True):
        """let-chain for `stmts`; `final(tr)` gives the closing term.  With `opt` the result type is an option
        (raise -> None)."""
        pad = "  " * ind
        if not stmts:
            return pad + final(self)
        s, rest = stmts[0], stmts[1:]
        cont = lambda: self.block(rest, final, ind, opt)
        if isinstance(s, ast.Return):
            if rest:
                raise Unsupported("code after return")
            t, k = self.ex(s.value)
            self.ret_kind = k
            return pad + (f"Some {t}" if opt else t)
        if isinstance(s, ast.Assign) and len(s.targets) == 1:
            t = s.targets[0]
            if isinstance(t, ast.Name) and isinstance(s.value, (ast.JoinedStr,)):
                return cont()
            if isinstance(t, ast.Name):
                v, k = self.ex(s.value)
                self.env[t.id] = k
                return f"{pad}let {t.id} := {v} in\n" + cont()
            if isinstance(t, ast.Attribute) and isinstance(t.value, ast.Name) and t.value.id == "self" \
                    and t.attr in ("chan_mask", "user_mask", "stats_mask", "custom_mask"):
                v, k = self.ex(s.value)
                if k != "B":
                    raise Unsupported(f"self.{t.attr} assigned a {k}")
                return f"{pad}let self := set_{t.attr} self {v} in\n" + cont()
            raise Unsupported("assignment " + _u(s)[:80])
        if isinstance(s, ast.For) and not s.orelse and isinstance(s.target, ast.Name):
            it, k = self.ex(s.iter)
            elt = {"LR": "R", "LV": "V", "LZ": "Z"}.get(k)
            if elt is None:
                raise Unsupported("loop over " + k)
            carried = [n for n in self.assigned(s.body) if n in self.env]
            if len(carried) != 1:
                raise Unsupported("loop-carried state " + str(carried))
            st = carried[0]
            inner = Tr(self.env, self.attrs)
            inner.env[s.target.id] = elt
            inner.ext = self.ext
            body = inner.block(s.body, lambda tr: st, ind + 2, opt=False)
            return (f"{pad}let {st} := fold_left (fun {st} {s.target.id} =>\n{body}) {it} {st} in\n" + cont())
        raise Unsupported("statement " + type(s).__name__ + ": " + _u(s)[:80])


# ------------------------------------------------------------------------------------------------
# rfi.py
# ------------------------------------------------------------------------------------------------

def _threshold_guard(body, out):
    g = _is_raise_guard(body[0], "ValueError") if body else None
    if g is None:
        raise Unsupported("first statement is not the threshold guard")
    if _u(g) != "threshold <= 0":
        raise Unsupported("threshold guard is " + _u(g))
    out.append("  if Qle_bool threshold 0%Q then None else   (* raise ValueError *)")
    return body[1:]


def gen_double_mad(mod):
    fn = _find(mod, "double_mad_mask")
    args = [a.arg for a in fn.args.args]
    if args != ["array", "threshold"]:
        raise Unsupported("double_mad_mask signature " + str(args))
    lines = []
    body = _threshold_guard(_strip(fn.body), lines)
    tr = Tr({"array": "V", "threshold": "Q"})
    txt = tr.block(body, lambda t: (_ for _ in ()).throw(Unsupported("no return")), 1)
    if getattr(tr, "ret_kind", None) != "B":
        raise Unsupported("double_mad_mask does not return a boolean vector")
    ext = " ".join(f"({x} : qvec -> qvec)" for x in tr.ext)
    return (f"(* from double_mad_mask *)\nDefinition double_mad_mask {ext} (array : qvec) (threshold : Q) : option bvec :=\n"
            + "\n".join(lines) + "\n" + txt + ".\n"), tr.ext


def _match_window(s, tr):
    """the statement building `shifted_x`; returns (coq term, uses_input_strides)"""
    v = s.value
    if not isinstance(v, ast.Call):
        raise Unsupported("shifted_x = " + _u(v)[:80])
    f = _u(v.func)
    kw = {k.arg: k.value for k in v.keywords}

    def pad_of(e):
        if isinstance(e, ast.Name) and tr.env.get(e.id) == "PAD":
            return True
        return _u(e) == "np.pad(array, radius, mode='edge')"
    if f == "np.lib.stride_tricks.as_strided" and len(v.args) == 1 and set(kw) == {"shape", "strides"}:
        if not pad_of(v.args[0]):
            raise Unsupported("as_strided base " + _u(v.args[0]))
        if _u(kw["shape"]) not in ("(len(array), 2 * radius + 1)", "(array.size, 2 * radius + 1)"):
            raise Unsupported("as_strided shape " + _u(kw["shape"]))
        st = _u(kw["strides"])
        if st == "array.strides * 2":
            ratio = "stride_ratio"     # the INPUT's stride is applied to the padded copy
        elif isinstance(v.args[0], ast.Name) and st == f"{v.args[0].id}.strides * 2":
            ratio = "1"
        else:
            raise Unsupported("as_strided strides " + st)
        return f"as_strided2 (array_size + 2 * radius) {ratio} (pad_edge array_size array radius) oob", ratio != "1"
    if f in ("np.lib.stride_tricks.sliding_window_view", "sliding_window_view") and len(v.args) == 2 and not kw:
        if not pad_of(v.args[0]) or _u(v.args[1]) != "2 * radius + 1":
            raise Unsupported("sliding_window_view arguments " + _u(v))
        return "as_strided2 (array_size + 2 * radius) 1 (pad_edge array_size array radius) oob", False
    raise Unsupported("shifted_x = " + _u(v)[:80])


def gen_iqrm(mod):
    fn = _find(mod, "iqrm_mask")
    args = [a.arg for a in fn.args.args]
    if args != ["array", "threshold", "radius"]:
        raise Unsupported("iqrm_mask signature " + str(args))
    defaults = fn.args.defaults
    if len(defaults) != 2 or not isinstance(defaults[1], ast.Constant) or not isinstance(defaults[1].value, int):
        raise Unsupported("iqrm_mask default radius")
    radius0 = defaults[1].value
    lines = []
    body = _threshold_guard(_strip(fn.body), lines)
    tr = Tr({"array": "V", "threshold": "Q", "radius": "Z"})
    out = list(lines)
    uses_input = False
    i = 0
    # straight-line prefix up to the loop: generic statements, plus the three 2-D idioms matched textually
    while i < len(body) and not isinstance(body[i], ast.For):
        s = body[i]
        if not (isinstance(s, ast.Assign) and len(s.targets) == 1 and isinstance(s.targets[0], ast.Name)):
            raise Unsupported("iqrm_mask statement " + _u(s)[:80])
        name = s.targets[0].id
        txt = _u(s.value)
        if txt == "np.pad(array, radius, mode='edge')":
            tr.env[name] = "PAD"
            out.append(f"  (* {name} = {_safe(txt)} : pad_edge array_size array radius *)")
        elif name == "shifted_x":
            term, uses_input = _match_window(s, tr)
            tr.env["shifted_x"] = "W"
            out.append(f"  let shifted_x := {term} in   (* {_safe(txt)[:120]} *)")
        elif name == "lagged_diffs" and txt == "array[:, np.newaxis] - shifted_x[:, lags + radius]":
            if tr.env.get("lags") != "LZ" or tr.env.get("shifted_x") != "W":
                raise Unsupported("lagged_diffs before lags / shifted_x")
            tr.env["lagged_diffs"] = "LVT"   # indexed [channel, lag]
            out.append("  (* lagged_diffs[i, l] = array[i] - shifted_x[i, lags[l] + radius] *)")
        elif name == "lagged_diffs" and txt == "lagged_diffs.T":
            if tr.env.get("lagged_diffs") != "LVT":
                raise Unsupported("transpose of " + str(tr.env.get("lagged_diffs")))
            tr.env["lagged_diffs"] = "LV"    # one vector per lag
            out.append("  let lagged_diffs := map (fun lag => (fun i => Qminus (array i) (shifted_x i (lag + radius))) : qvec) lags in   (* .T : one row per lag *)")
        else:
            v, k = tr.ex(s.value)
            tr.env[name] = k
            out.append(f"  let {name} := {v} in")
        i += 1
    if tr.env.get("lagged_diffs") != "LV":
        raise Unsupported("lagged_diffs is not iterated lag by lag")
    rest = tr.block(body[i:], lambda t: (_ for _ in ()).throw(Unsupported("no return")), 1)
    if getattr(tr, "ret_kind", None) != "B":
        raise Unsupported("iqrm_mask does not return a boolean vector")
    ext = " ".join(f"({x} : qvec -> qvec)" for x in tr.ext)
    hdr = ("(* from iqrm_mask.  array_size = len(array); [stride_ratio] = (byte stride of the INPUT array) / (item size of the\n"
           "   padded copy), [oob] = memory outside the padded copy: both matter only if the window is built with the input's strides *)\n"
           f"Definition iqrm_mask {ext} (array_size stride_ratio : Z) (oob : qvec) (array : qvec) (threshold : Q) (radius : Z) : option bvec :=\n")
    txt = hdr + "\n".join(out) + "\n" + rest + ".\n"
    txt += f"\nDefinition iqrm_default_radius : Z := {radius0}.\n"
    txt += f"(* does the window of iqrm_mask depend on the memory layout of its input? *)\nDefinition iqrm_window_uses_input_strides : bool := {'true' if uses_input else 'false'}.\n"
    return txt, tr.ext


SELF_ATTRS = {
    "self.chan_mask": ("(chan_mask self)", "B"), "self.user_mask": ("(user_mask self)", "B"),
    "self.stats_mask": ("(stats_mask self)", "B"), "self.custom_mask": ("(custom_mask self)", "B"),
    "self.header.chan_freqs": ("chan_freqs", "V"), "self.header.nchans": ("nchans", "Z"),
    "self.chan_var": ("chan_var", "V"), "self.chan_skew": ("chan_skew", "V"), "self.chan_kurt": ("chan_kurt", "V"),
    "self.chan_mean": ("chan_mean", "V"), "self.threshold": ("threshold", "Q"),
}


def _apply_mask_body(mod):
    fn = _find(mod, "apply_mask", "RFIMask")
    if [a.arg for a in fn.args.args] != ["self", "freq_mask"]:
        raise Unsupported("apply_mask signature")
    tr = Tr({"freq_mask": "LR"}, SELF_ATTRS)
    return tr.block(_strip(fn.body), lambda t: "self", 1, opt=False)


def gen_apply_mask(mod):
    txt = _apply_mask_body(mod)
    return ("(* from RFIMask.apply_mask *)\nDefinition apply_mask (nchans : Z) (chan_freqs : qvec) (self : mstate) (freq_mask : list (Q * Q)) : mstate :=\n"
            + txt + ".\n")


def gen_apply_mask_x(mod):
    """the same statements with range end points that may be infinite (float("-inf"), float("inf")): the two comparisons of the channel
    frequencies with an end point become the extended ones of C16_Vec.v (vgex, vlex); any other use of an end point is not recognised"""
    import re as _re
    txt = _apply_mask_body(mod)
    if len(_re.findall(r"\bvge\b", txt)) != 1 or len(_re.findall(r"\bvle\b", txt)) != 1 or len(_re.findall(r"\bfreq_range\b", txt)) != 3:
        raise Unsupported("apply_mask uses a range end point other than in one >= and one <= comparison with the channel frequencies")
    txt_x = _re.sub(r"\bvle\b", "vlex", _re.sub(r"\bvge\b", "vgex", txt))
    return ("(* from RFIMask.apply_mask, end points in the extended rationals *)\n"
            "Definition apply_mask_x (nchans : Z) (chan_freqs : qvec) (self : mstate) (freq_mask : list (xq * xq)) : mstate :=\n"
            + txt_x + ".\n")


def gen_apply_method(mod):
    fn = _find(mod, "apply_method", "RFIMask")
    if [a.arg for a in fn.args.args] != ["self", "method"]:
        raise Unsupported("apply_method signature")
    body = _strip(fn.body)
    # dispatch:  if method == 'mad': method_funcn = double_mad_mask  elif method == 'iqrm': ... else: raise ValueError
    d = body[0]
    table = {}
    cur = d
    while True:
        if not isinstance(cur, ast.If) or not isinstance(cur.test, ast.Compare) or len(cur.test.ops) != 1 \
                or not isinstance(cur.test.ops[0], ast.Eq) or _u(cur.test.left) != "method" \
                or not isinstance(cur.test.comparators[0], ast.Constant):
            raise Unsupported("method dispatch " + _u(cur)[:80])
        key = cur.test.comparators[0].value
        if len(cur.body) != 1 or not isinstance(cur.body[0], ast.Assign) or _u(cur.body[0].targets[0]) != "method_funcn" \
                or not isinstance(cur.body[0].value, ast.Name):
            raise Unsupported("method dispatch branch " + _u(cur.body[0])[:80])
        table[key] = cur.body[0].value.id
        if len(cur.orelse) == 1 and isinstance(cur.orelse[0], ast.If):
            cur = cur.orelse[0]
            continue
        tail = [b for b in cur.orelse if not (isinstance(b, ast.Assign) and isinstance(b.value, ast.JoinedStr))]
        if len(tail) != 1 or not isinstance(tail[0], ast.Raise) or "ValueError" not in _u(tail[0]):
            raise Unsupported("method dispatch has no final raise ValueError")
        break
    if set(table) != {"mad", "iqrm"} or set(table.values()) - {"double_mad_mask", "iqrm_mask"}:
        raise Unsupported("method table " + str(table))
    out = ["  match (match method with M_mad => Some " + table["mad"] + " | M_iqrm => Some " + table["iqrm"] + " | M_other => None end) with",
           "  | None => None   (* raise ValueError *)", "  | Some method_funcn =>"]
    # the calls of method_funcn: each may raise -> option bind
    tr = Tr({}, SELF_ATTRS)
    closes = 1
    rest = body[1:]
    i = 0
    while i < len(rest):
        s = rest[i]
        if isinstance(s, ast.Assign) and isinstance(s.targets[0], ast.Name) and isinstance(s.value, ast.Call) \
                and _u(s.value.func) == "method_funcn":
            if len(s.value.args) != 2 or s.value.keywords:
                raise Unsupported("method_funcn call " + _u(s.value))
            (a, ka), (t, kt) = tr.ex(s.value.args[0]), tr.ex(s.value.args[1])
            if ka != "V" or kt != "Q":
                raise Unsupported("method_funcn arguments " + _u(s.value))
            n = s.targets[0].id
            tr.env[n] = "B"
            out.append(f"  match method_funcn {a} {t} with None => None | Some {n} =>")
            closes += 1
            i += 1
            continue
        break
    txt = tr.block(rest[i:], lambda t: "Some self", 1, opt=True)
    return ("(* from RFIMask.apply_method; the two mask functions are passed in (rfi.double_mad_mask, rfi.iqrm_mask with its default radius) *)\n"
            "Definition apply_method (double_mad_mask iqrm_mask : qvec -> Q -> option bvec) (chan_var chan_skew chan_kurt : qvec) (threshold : Q)\n"
            "           (self : mstate) (method : method_t) : option mstate :=\n"
            + "\n".join(out) + "\n" + txt + "\n  " + " ".join(["end"] * closes) + ".\n")


def gen_apply_funcn(mod):
    fn = _find(mod, "apply_funcn", "RFIMask")
    if [a.arg for a in fn.args.args] != ["self", "custom_funcn"]:
        raise Unsupported("apply_funcn signature")
    body = _strip(fn.body)
    g = _is_raise_guard(body[0], "TypeError") if body else None
    if g is not None:
        if _u(g) != "not callable(custom_funcn)":
            raise Unsupported("apply_funcn guard " + _u(g))
        body = body[1:]
    tr = Tr({"custom_funcn": "F"}, SELF_ATTRS)
    txt = tr.block(body, lambda t: "self", 1, opt=False)
    return ("(* from RFIMask.apply_funcn (the callable() guard is a type error, outside the model) *)\n"
            "Definition apply_funcn (self : mstate) (custom_funcn : bvec -> bvec) : mstate :=\n" + txt + ".\n")


def gen_init(mod):
    """the four attrs defaults  np.zeros(self.header.nchans, dtype='bool')"""
    cls = next((n for n in mod.body if isinstance(n, ast.ClassDef) and n.name == "RFIMask"), None)
    if cls is None:
        raise Unsupported("class RFIMask not found")
    found = {}
    for f in cls.body:
        if isinstance(f, ast.FunctionDef):
            for d in f.decorator_list:
                t = _u(d)
                if t.endswith(".default") and t.split(".")[0] in ("chan_mask", "user_mask", "stats_mask", "custom_mask"):
                    body = _strip(f.body)
                    if len(body) != 1 or not isinstance(body[0], ast.Return):
                        raise Unsupported("default of " + t)
                    v, k = Tr({}, SELF_ATTRS).ex(body[0].value)
                    found[t.split(".")[0]] = v
    if set(found) != {"chan_mask", "user_mask", "stats_mask", "custom_mask"}:
        raise Unsupported("mask defaults found: " + str(sorted(found)))
    # field order of the attrs class (positional constructor arguments)
    fields = [s.target.id for s in cls.body if isinstance(s, ast.AnnAssign) and isinstance(s.target, ast.Name)]
    return (f"(* from the attrs defaults of RFIMask *)\nDefinition RFIMask_init : mstate := MState {found['chan_mask']} {found['user_mask']} "
            f"{found['stats_mask']} {found['custom_mask']}.\n"), fields


# ------------------------------------------------------------------------------------------------
# base.py
# ------------------------------------------------------------------------------------------------

def _none_guard(s, var):
    """`if <var> is not None: rfimask.<op>(<var>)` -> op"""
    if isinstance(s, ast.If) and not s.orelse and _u(s.test) == f"{var} is not None" and len(s.body) == 1 \
            and isinstance(s.body[0], ast.Expr) and isinstance(s.body[0].value, ast.Call):
        c = s.body[0].value
        if isinstance(c.func, ast.Attribute) and _u(c.func.value) == "rfimask" and [_u(a) for a in c.args] == [var] and not c.keywords:
            return c.func.attr
    return None


def gen_clean_rfi(mod, fields):
    fn = _find(mod, "clean_rfi", "Filterbank")
    body = _strip(fn.body)
    names = [a.arg for a in fn.args.args]
    for need in ("method", "threshold", "freq_mask", "custom_funcn", "mask_value", "gulp", "start", "nsamps"):
        if need not in names:
            raise Unsupported("clean_rfi parameter " + need + " missing")
    out = []
    i = 0
    g = _is_raise_guard(body[i], "ValueError")
    if g is None or _u(g) != "method not in {'mad', 'iqrm'}":
        raise Unsupported("clean_rfi method guard " + (_u(g) if g is not None else _u(body[i])[:60]))
    out.append("  match method with M_other => None | _ =>   (* raise ValueError *)")
    i += 1
    # statistics pass and its type check: not part of the mask algebra
    if not (isinstance(body[i], ast.If) and _u(body[i].test) == "self.chan_stats is None"
            and _u(body[i].body[0]) == "self.compute_stats(gulp=gulp, start=start, nsamps=nsamps, **plan_kwargs)" and len(body[i].body) == 1):
        raise Unsupported("clean_rfi statistics pass " + _u(body[i])[:80])
    i += 1
    g = _is_raise_guard(body[i], "TypeError")
    if g is None or _u(g) != "not isinstance(self.chan_stats, ChannelStats)":
        raise Unsupported("clean_rfi ChannelStats check")
    i += 1
    # constructor: positional arguments against the attrs field order
    s = body[i]
    if not (isinstance(s, ast.Assign) and _u(s.targets[0]) == "rfimask" and isinstance(s.value, ast.Call) and _u(s.value.func) == "RFIMask"
            and not s.value.keywords):
        raise Unsupported("clean_rfi RFIMask construction " + _u(s)[:80])
    cargs = [_u(a) for a in s.value.args]
    want = {"threshold": "threshold", "header": "self.header", "chan_mean": "self.chan_stats.mean", "chan_var": "self.chan_stats.var",
            "chan_skew": "self.chan_stats.skew", "chan_kurt": "self.chan_stats.kurtosis", "chan_maxima": "self.chan_stats.maxima",
            "chan_minima": "self.chan_stats.minima"}
    if len(cargs) != 8:
        raise Unsupported("RFIMask(...) positional arguments: " + str(cargs))
    for fname, a in zip(fields, cargs):
        if want.get(fname) != a:
            raise Unsupported(f"RFIMask field {fname} is given {a}")
    out.append("  let rfimask := RFIMask_init in   (* RFIMask(threshold, header, mean, var, skew, kurtosis, maxima, minima) *)")
    i += 1
    # the operations
    closes = 1
    while i < len(body):
        s = body[i]
        op = _none_guard(s, "freq_mask")
        if op is not None:
            if op != "apply_mask":
                raise Unsupported("freq_mask handed to " + op)
            out.append("  let rfimask := match freq_mask with Some freq_mask => apply_mask nchans chan_freqs rfimask freq_mask | None => rfimask end in")
            i += 1
            continue
        op = _none_guard(s, "custom_funcn")
        if op is not None:
            if op != "apply_funcn":
                raise Unsupported("custom_funcn handed to " + op)
            out.append("  let rfimask := match custom_funcn with Some custom_funcn => apply_funcn rfimask custom_funcn | None => rfimask end in")
            i += 1
            continue
        if isinstance(s, ast.Expr) and _u(s) == "rfimask.apply_method(method)":
            out.append("  match apply_method double_mad_mask iqrm_mask chan_var chan_skew chan_kurt threshold rfimask method with None => None | Some rfimask =>")
            closes += 1
            i += 1
            continue
        break
    # default mask value
    s = body[i]
    if not (isinstance(s, ast.If) and _u(s.test) == "mask_value is None" and len(s.body) == 1 and not s.orelse
            and isinstance(s.body[0], ast.Assign) and _u(s.body[0].targets[0]) == "mask_value"):
        raise Unsupported("clean_rfi default mask value " + _u(s)[:80])
    dv = s.body[0].value
    if not (isinstance(dv, ast.Call) and _u(dv.func) == "np.median" and len(dv.args) == 1 and not dv.keywords
            and isinstance(dv.args[0], ast.Subscript) and _u(dv.args[0].value) == "self.chan_stats.mean"):
        raise Unsupported("default mask value expression " + _u(dv))
    tr = Tr({}, {"rfimask.chan_mask": ("(chan_mask rfimask)", "B"), "rfimask.stats_mask": ("(stats_mask rfimask)", "B"),
                 "rfimask.user_mask": ("(user_mask rfimask)", "B"), "rfimask.custom_mask": ("(custom_mask rfimask)", "B")})
    sel, k = tr.ex(dv.args[0].slice)
    if k != "B":
        raise Unsupported("default mask value selector")
    i += 1
    # the call of apply_channel_mask
    s = body[i]
    if not (isinstance(s, ast.Assign) and isinstance(s.value, ast.Call) and _u(s.value.func) == "self.apply_channel_mask"):
        raise Unsupported("clean_rfi does not call apply_channel_mask: " + _u(s)[:80])
    c = s.value
    if len(c.args) != 2 or _u(c.args[1]) != "mask_value":
        raise Unsupported("apply_channel_mask positional arguments " + str([_u(a) for a in c.args]))
    wm, k = tr.ex(c.args[0])
    if k != "B":
        raise Unsupported("mask handed to apply_channel_mask")
    kws = {kk.arg: _u(kk.value) for kk in c.keywords}
    if kws != {"outfile_name": "outfile_name", "gulp": "gulp", "start": "start", "nsamps": "nsamps", None: "plan_kwargs"}:
        raise Unsupported("apply_channel_mask keywords " + str(kws))
    outvar = _u(s.targets[0])
    i += 1
    s = body[i]
    if not (isinstance(s, ast.Return) and _u(s.value) == f"({outvar}, rfimask)") or i != len(body) - 1:
        raise Unsupported("clean_rfi return " + _u(s)[:60])
    out.append("  Some rfimask")
    txt = ("(* from Filterbank.clean_rfi: the mask it returns *)\n"
           "Definition clean_rfi (double_mad_mask iqrm_mask : qvec -> Q -> option bvec) (nchans : Z) (chan_freqs chan_var chan_skew chan_kurt : qvec)\n"
           "           (method : method_t) (threshold : Q) (freq_mask : option (list (Q * Q))) (custom_funcn : option (bvec -> bvec)) : option mstate :=\n"
           + "\n".join(out) + "\n  " + " ".join(["end"] * closes) + ".\n\n"
           "(* from Filterbank.clean_rfi: the channel mask handed to apply_channel_mask *)\n"
           f"Definition clean_rfi_written_mask (rfimask : mstate) : bvec := {wm}.\n\n"
           "(* from Filterbank.clean_rfi: the mask value when the caller gives none; np.median stays external *)\n"
           f"Definition default_mask_value (median : list Q -> Q) (nchans : Z) (chan_mean : qvec) (rfimask : mstate) : Q :=\n"
           f"  median (select nchans chan_mean {sel}).\n")
    return txt


def gen_apply_channel_mask(mod):
    fn = _find(mod, "apply_channel_mask", "Filterbank")
    body = _strip(fn.body)
    txts = [_u(s) for s in body]
    # the casts
    if "mask = np.array(chan_mask).astype('bool')" not in txts:
        raise Unsupported("apply_channel_mask: cast of the mask changed")
    if "mask_value = np.float32(mask_value).astype(self.header.dtype)" not in txts:
        raise Unsupported("apply_channel_mask: cast of the mask value changed")
    # the output header is the input header, except for the start time of a start/nsamps selection (C08)
    if ("out_file = self.header.prep_outfile(outfile_name)" not in txts
            and "out_file = self.header.prep_outfile(outfile_name, updates={'tstart': self.header.mjd_after_nsamps(start)})" not in txts):
        raise Unsupported("apply_channel_mask: output file is not prepared from the input header unchanged")
    loop = next((s for s in body if isinstance(s, ast.For)), None)
    if loop is None or loop.orelse:
        raise Unsupported("apply_channel_mask: no block loop")
    if _u(loop.target) != "(nsamps_r, _ii, data)":
        raise Unsupported("apply_channel_mask loop target " + _u(loop.target))
    if _u(loop.iter) != "self.read_plan(gulp=gulp, start=start, nsamps=nsamps, **plan_kwargs)":
        raise Unsupported("apply_channel_mask loop iterator " + _u(loop.iter))
    if body.index(loop) < max(txts.index("mask = np.array(chan_mask).astype('bool')"), next(i_ for i_, t_ in enumerate(txts) if t_.startswith("out_file = self.header.prep_outfile(outfile_name"))):
        raise Unsupported("apply_channel_mask: loop before set-up")
    lb = loop.body
    if len(lb) != 2:
        raise Unsupported("apply_channel_mask loop body has %d statements" % len(lb))
    k, w = lb
    if not (isinstance(k, ast.Expr) and isinstance(k.value, ast.Call) and _u(k.value.func) == "kernels.mask_channels" and not k.value.keywords
            and len(k.value.args) == 5):
        raise Unsupported("apply_channel_mask kernel call " + _u(k)[:80])
    amap = {"data": "data", "mask": "mask", "mask_value": "mask_value", "self.header.nchans": "nchans", "nsamps_r": "nsamps_r"}
    args = []
    for a in k.value.args:
        t = _u(a)
        if t not in amap:
            raise Unsupported("kernel argument " + t)
        args.append(amap[t])
    if _u(w) != "out_file.cwrite(data)":
        raise Unsupported("apply_channel_mask writes " + _u(w))
    after = body[body.index(loop) + 1:]
    tail = [_u(s) for s in after]
    if tail not in (["return outfile_name"], ["out_file.close()", "return outfile_name"]):
        raise Unsupported("apply_channel_mask after the loop: " + str(tail))
    return ("(* from Filterbank.apply_channel_mask: what is done to one block of nsamps_r samples before it is written\n"
            "   (mask = np.array(chan_mask).astype('bool');  mask_value = np.float32(mask_value).astype(self.header.dtype)) *)\n"
            "Definition apply_channel_mask_block (data mask : arr) (mask_value nchans nsamps_r : Z) : arr :=\n"
            f"  mask_channels_run {' '.join(args)}.\n")


def gen_c16rfi(repo="/repo"):
    out = ["(* GENERATED by tools/py2coq/gen_c16.py from sigpyproc/core/rfi.py and sigpyproc/base.py -- do not edit *)",
           "From Coq Require Import ZArith QArith Qabs List Bool.",
           "Require Import SPP.Base.Rt SPP.Gen.Kernels SPP.Model.C16_Vec.",
           "Import ListNotations.", "Open Scope Z_scope.", ""]
    errors = []
    rmod = ast.parse(open(f"{repo}/{RFI}").read())
    bmod = ast.parse(open(f"{repo}/{BASE}").read())
    fields = None

    def emit(name, f):
        try:
            r = f()
            out.append(r[0] if isinstance(r, tuple) else r)
            return r
        except Unsupported as e:
            errors.append(f"{name}: {e}")
            out.append(f"(* UNSUPPORTED {name}: {_safe(str(e))} *)\n")
            return None
    emit("double_mad_mask", lambda: gen_double_mad(rmod))
    emit("iqrm_mask", lambda: gen_iqrm(rmod))
    r = emit("RFIMask defaults", lambda: gen_init(rmod))
    if r is not None:
        fields = r[1]
    emit("RFIMask.apply_mask", lambda: gen_apply_mask(rmod))
    emit("RFIMask.apply_mask (extended end points)", lambda: gen_apply_mask_x(rmod))
    emit("RFIMask.apply_method", lambda: gen_apply_method(rmod))
    emit("RFIMask.apply_funcn", lambda: gen_apply_funcn(rmod))
    if fields is not None:
        emit("Filterbank.clean_rfi", lambda: gen_clean_rfi(bmod, fields))
    else:
        errors.append("Filterbank.clean_rfi: skipped (RFIMask fields unknown)")
    emit("Filterbank.apply_channel_mask", lambda: gen_apply_channel_mask(bmod))
    return "\n".join(out), errors


GENERATORS = {"C16Rfi.v": gen_c16rfi}

if __name__ == "__main__":
    import sys
    t, errs = gen_c16rfi(sys.argv[1] if len(sys.argv) > 1 else "/repo")
    print(t)
    for e in errs:
        print("ERROR", e, file=sys.stderr)
