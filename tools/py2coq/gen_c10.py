"""py2coq plug-in for C10 (online channel statistics): Gen/Moments.v.

Read from the ast of sigpyproc/core/kernels.py (fresh on every run):
  * `moments_dtype`                      -> which fields exist and which are integers (and of what width);
  * `update_moments`, `update_moments_basic`  (straight-line scalar code)
  * `add_online_moments`                 (whole-array statements; emitted in per-channel scalar form)
  * `compute_online_moments(_basic)`     (loop structure: where min/max are initialised and under which test,
                                          the per-sample step, the loads and stores of the record)
and from sigpyproc/core/stats.py the glue of ChannelStats that the hand model Model/C10_moments.v mirrors
(zero-initialised record, dispatch of push_data, argument order of __add__, the `m2 != 0` guards, std = sqrt(var)).

Typing.  Parameters annotated `float` and float fields are Q (float arithmetic is modelled exactly); parameters
annotated `int`, integer fields and integer literals are Z.  An arithmetic operator whose operands are both
integers is numba int64 arithmetic: it is emitted as `wrap64 (...)`, and the *unwrapped* value is added to the
function's `<f>_ok` side condition (`in64 ...`).  A store into an int32 field is `wrap32 (...)` with an `in32`
side condition.  As soon as one operand is a float the operation is over Q.  `/` is always true division (Q).
For every function two terms are emitted: `<f>` (with the wraps, this is what the code does) and `<f>_ideal`
(same let-chain without wraps); Proofs/C10_moments.v shows they coincide under `<f>_ok`.

Anything outside this subset raises Unsupported -> the file is emitted without that definition and the error is
reported (fail closed)."""
from __future__ import annotations

import ast

KREL = "sigpyproc/core/kernels.py"
SREL = "sigpyproc/core/stats.py"


class Unsupported(Exception):
    pass


INT_WRAP = {"np.int32": "32", "np.int64": "64"}
FLOATS = {"np.float32", "np.float64"}


def _strip_doc(body):
    if body and isinstance(body[0], ast.Expr) and isinstance(body[0].value, ast.Constant) and isinstance(body[0].value.value, str):
        return body[1:]
    return body


def _functions(mod):
    out = {}
    for node in mod.body:
        if isinstance(node, ast.FunctionDef):
            if node.name in out:
                raise Unsupported(f"{node.name} defined twice")
            out[node.name] = node
    return out


def parse_dtype(mod):
    """moments_dtype = np.dtype([(name, np.T), ...], align=True) -> [(name, 'Z32'|'Z64'|'Q')]"""
    for node in mod.body:
        if isinstance(node, ast.Assign) and len(node.targets) == 1 and ast.unparse(node.targets[0]) == "moments_dtype":
            v = node.value
            if not (isinstance(v, ast.Call) and ast.unparse(v.func) == "np.dtype" and v.args and isinstance(v.args[0], ast.List)):
                raise Unsupported("moments_dtype is not np.dtype([...])")
            fields = []
            for el in v.args[0].elts:
                if not (isinstance(el, ast.Tuple) and len(el.elts) == 2 and isinstance(el.elts[0], ast.Constant)):
                    raise Unsupported("moments_dtype entry " + ast.unparse(el))
                name, ty = el.elts[0].value, ast.unparse(el.elts[1])
                if ty in INT_WRAP:
                    fields.append((name, "Z" + INT_WRAP[ty]))
                elif ty in FLOATS:
                    fields.append((name, "Q"))
                else:
                    raise Unsupported(f"moments_dtype field {name}: type {ty}")
            return fields
    raise Unsupported("moments_dtype not found")


class Tr:
    """typed SSA translation of straight-line arithmetic; emits the wrapped and the ideal term in parallel"""

    def __init__(self):
        self.env = {}        # python name -> (coq name, 'Z'|'Q')
        self.used = set()    # coq names in use
        self.lets = []       # (coq name, wrapped text, ideal text)
        self.ok = []         # side conditions (ideal texts): "in64 (...)" / "in32 (...)"

    # ---- names -----------------------------------------------------------------------------
    def param(self, py, ty, coq=None):
        coq = coq or py
        if coq in self.used:
            raise Unsupported(f"name clash {coq}")
        self.used.add(coq)
        self.env[py] = (coq, ty)
        return coq

    def fresh(self, py, base=None):
        base = base or py
        if base not in self.used:
            self.used.add(base)
            return base
        k = 1
        while f"{base}__{k}" in self.used:
            k += 1
        self.used.add(f"{base}__{k}")
        return f"{base}__{k}"

    def bind(self, py, ty, w, i, base=None):
        coq = self.fresh(py, base)
        self.lets.append((coq, w, i))
        self.env[py] = (coq, ty)
        return coq

    # ---- expressions: returns (wrapped, ideal, type) with type in Z, Q, C (integer literal) ----
    def toq(self, t):
        w, i, ty = t
        if ty == "Q":
            return w, i
        if ty == "C":
            return f"({w}#1)", f"({i}#1)"
        return f"(z2q {w})", f"(z2q {i})"

    def field(self, e):
        """hook: a["m1"] -> variable; overridden by the merge translator"""
        raise Unsupported("subscript " + ast.unparse(e))

    def expr(self, e):
        if isinstance(e, ast.Constant):
            if isinstance(e.value, bool) or not isinstance(e.value, (int, float)):
                raise Unsupported(f"constant {e.value!r}")
            if isinstance(e.value, int):
                if e.value < 0:
                    raise Unsupported("negative literal")
                return str(e.value), str(e.value), "C"
            fr = e.value.as_integer_ratio()
            s = f"({fr[0]}#{fr[1]})"
            return s, s, "Q"
        if isinstance(e, ast.Name):
            if e.id not in self.env:
                raise Unsupported(f"unknown name {e.id}")
            coq, ty = self.env[e.id]
            return coq, coq, ty
        if isinstance(e, ast.Subscript):
            return self.field(e)
        if isinstance(e, ast.UnaryOp) and isinstance(e.op, ast.USub):
            w, i, ty = self.expr(e.operand)
            if ty in ("Z", "C"):
                self.ok.append(f"in64 (- {i})%Z")
                return f"(wrap64 (- {w})%Z)", f"(- {i})%Z", "Z"
            return f"(- {w})", f"(- {i})", "Q"
        if isinstance(e, ast.BinOp):
            op = type(e.op)
            if op is ast.Pow:
                if not (isinstance(e.right, ast.Constant) and isinstance(e.right.value, int) and not isinstance(e.right.value, bool)
                        and 2 <= e.right.value <= 4):
                    raise Unsupported("power with exponent " + ast.unparse(e.right))
                k = e.right.value
                w, i, ty = self.expr(e.left)
                if ty in ("Z", "C"):
                    wi, ii = " * ".join([w] * k), " * ".join([i] * k)
                    self.ok.append(f"in64 ({ii})%Z")
                    return f"(wrap64 ({wi})%Z)", f"({ii})%Z", "Z"
                return "(" + " * ".join([w] * k) + ")", "(" + " * ".join([i] * k) + ")", "Q"
            l, r = self.expr(e.left), self.expr(e.right)
            if op is ast.Div:
                (lw, li), (rw, ri) = self.toq(l), self.toq(r)
                return f"({lw} / {rw})", f"({li} / {ri})", "Q"
            sym = {ast.Add: "+", ast.Sub: "-", ast.Mult: "*"}.get(op)
            if sym is None:
                raise Unsupported("operator " + op.__name__)
            if l[2] in ("Z", "C") and r[2] in ("Z", "C"):
                if l[2] == "C" and r[2] == "C":
                    raise Unsupported("constant folding needed: " + ast.unparse(e))
                self.ok.append(f"in64 ({l[1]} {sym} {r[1]})%Z")
                return f"(wrap64 ({l[0]} {sym} {r[0]})%Z)", f"({l[1]} {sym} {r[1]})%Z", "Z"
            (lw, li), (rw, ri) = self.toq(l), self.toq(r)
            return f"({lw} {sym} {rw})", f"({li} {sym} {ri})", "Q"
        if isinstance(e, ast.Call):
            f = ast.unparse(e.func)
            if e.keywords:
                raise Unsupported("keyword arguments in " + ast.unparse(e))
            if f in ("min", "np.minimum", "max", "np.maximum") and len(e.args) == 2:
                g = "qmin" if f in ("min", "np.minimum") else "qmax"
                (lw, li), (rw, ri) = self.toq(self.expr(e.args[0])), self.toq(self.expr(e.args[1]))
                return f"({g} {lw} {rw})", f"({g} {li} {ri})", "Q"
            if f == "np.where" and len(e.args) == 3:
                cw, ci = self.bexpr(e.args[0])
                x, y = self.expr(e.args[1]), self.expr(e.args[2])
                if x[2] in ("Z", "C") and y[2] in ("Z", "C"):
                    return f"(if {cw} then {x[0]} else {y[0]})", f"(if {ci} then {x[1]} else {y[1]})", "Z"
                (xw, xi), (yw, yi) = self.toq(x), self.toq(y)
                return f"(if {cw} then {xw} else {yw})", f"(if {ci} then {xi} else {yi})", "Q"
            if (isinstance(e.func, ast.Attribute) and e.func.attr == "astype" and len(e.args) == 1
                    and ast.unparse(e.args[0]) in FLOATS):
                w, i = self.toq(self.expr(e.func.value))
                return w, i, "Q"
            if f in ("float", "np.float64", "np.float32") and len(e.args) == 1:
                w, i = self.toq(self.expr(e.args[0]))
                return w, i, "Q"
            raise Unsupported("call " + f)
        raise Unsupported("expression " + ast.unparse(e)[:60])

    def bexpr(self, e):
        """boolean expression over integers -> (wrapped, ideal) Coq bool"""
        if isinstance(e, ast.Compare) and len(e.ops) == 1:
            l, r = self.expr(e.left), self.expr(e.comparators[0])
            if not (l[2] in ("Z", "C") and r[2] in ("Z", "C")):
                raise Unsupported("comparison of floats " + ast.unparse(e))
            op = type(e.ops[0])
            sym = {ast.Eq: "=?", ast.Lt: "<?", ast.LtE: "<=?", ast.Gt: ">?", ast.GtE: ">=?"}.get(op)
            if sym is not None:
                return f"({l[0]} {sym} {r[0]})%Z", f"({l[1]} {sym} {r[1]})%Z"
            if op is ast.NotEq:
                return f"(negb ({l[0]} =? {r[0]})%Z)", f"(negb ({l[1]} =? {r[1]})%Z)"
            raise Unsupported("comparison " + op.__name__)
        if isinstance(e, ast.BoolOp):
            parts = [self.bexpr(v) for v in e.values]
            sym = " && " if isinstance(e.op, ast.And) else " || "
            return "(" + sym.join(p[0] for p in parts) + ")%bool", "(" + sym.join(p[1] for p in parts) + ")%bool"
        if isinstance(e, ast.BinOp) and isinstance(e.op, (ast.BitAnd, ast.BitOr)):
            l, r = self.bexpr(e.left), self.bexpr(e.right)
            sym = " && " if isinstance(e.op, ast.BitAnd) else " || "
            return f"({l[0]}{sym}{r[0]})%bool", f"({l[1]}{sym}{r[1]})%bool"
        if isinstance(e, ast.UnaryOp) and isinstance(e.op, (ast.Not, ast.Invert)):
            w, i = self.bexpr(e.operand)
            return f"(negb {w})", f"(negb {i})"
        if isinstance(e, ast.Name) and e.id in self.env and self.env[e.id][1] == "B":
            return self.env[e.id][0], self.env[e.id][0]
        raise Unsupported("boolean expression " + ast.unparse(e)[:60])

    # ---- emission --------------------------------------------------------------------------
    def chain(self, which, final):
        lines = [f"  let {n} := {w if which == 'w' else i} in" for n, w, i in self.lets]
        return "\n".join(lines + ["  " + final])

    def ok_prop(self):
        return " /\\\n  ".join(self.ok + ["True"])


def _annot(a):
    t = ast.unparse(a.annotation) if a.annotation is not None else None
    if t == "float":
        return "Q"
    if t == "int":
        return "Z"
    raise Unsupported(f"parameter {a.arg}: annotation {t}")


def _ty(t):
    return "Q" if t == "Q" else "Z"


def gen_scalar(fn):
    """update_moments / update_moments_basic: straight-line scalar code ending in `return a, b, ...`"""
    if fn.args.vararg or fn.args.kwarg or fn.args.kwonlyargs or fn.args.defaults:
        raise Unsupported(f"{fn.name}: argument form")
    tr = Tr()
    params = []
    for a in fn.args.args:
        ty = _annot(a)
        params.append((tr.param(a.arg, ty), ty))
    body = _strip_doc(fn.body)
    if not body or not isinstance(body[-1], ast.Return):
        raise Unsupported(f"{fn.name}: no final return")
    for s in body[:-1]:
        if isinstance(s, ast.AugAssign) and isinstance(s.target, ast.Name):
            v = ast.BinOp(left=ast.Name(id=s.target.id, ctx=ast.Load()), op=s.op, right=s.value)
            w, i, ty = tr.expr(v)
            old = tr.env[s.target.id][1]
            if ty == "C":
                raise Unsupported("constant assignment")
            if old != ty:
                raise Unsupported(f"{fn.name}: {s.target.id} changes type {old} -> {ty}")
            tr.bind(s.target.id, ty, w, i)
        elif isinstance(s, ast.Assign) and len(s.targets) == 1 and isinstance(s.targets[0], ast.Name):
            w, i, ty = tr.expr(s.value)
            if ty == "C":
                raise Unsupported("constant assignment")
            tr.bind(s.targets[0].id, ty, w, i)
        else:
            raise Unsupported(f"{fn.name}: statement " + ast.unparse(s)[:60])
    ret = body[-1].value
    elts = ret.elts if isinstance(ret, ast.Tuple) else [ret]
    outs = []
    for el in elts:
        if not isinstance(el, ast.Name) or el.id not in tr.env:
            raise Unsupported(f"{fn.name}: return element " + ast.unparse(el))
        outs.append(tr.env[el.id])
    final = "(" + ", ".join(o[0] for o in outs) + ")"
    rty = " * ".join(_ty(o[1]) for o in outs)
    ps = " ".join(f"({n} : {_ty(t)})" for n, t in params)
    txt = [f"(* from {fn.name} *)",
           f"Definition {fn.name} {ps} : {rty} :=\n{tr.chain('w', final)}.",
           f"Definition {fn.name}_ideal {ps} : {rty} :=\n{tr.chain('i', final)}.",
           f"Definition {fn.name}_ok {ps} : Prop :=\n{tr.chain('i', tr.ok_prop())}.", ""]
    return "\n".join(txt), [t for _, t in params], [o[1] for o in outs]


class MergeTr(Tr):
    def __init__(self, fields, recs):
        super().__init__()
        self.fields = dict(fields)
        self.recs = recs          # python names of the record arrays

    def field(self, e):
        if (isinstance(e.value, ast.Name) and e.value.id in self.recs and isinstance(e.slice, ast.Constant)
                and e.slice.value in self.fields):
            key = f"{e.value.id}[{e.slice.value}]"
            if key not in self.env:
                raise Unsupported(f"read of {key} before it is written")
            coq, ty = self.env[key]
            return coq, coq, ty
        raise Unsupported("subscript " + ast.unparse(e))


def gen_merge(fn, fields):
    """add_online_moments(a, b, c): whole-array statements on the fields of three records -> per-channel scalar form"""
    args = [a.arg for a in fn.args.args]
    if len(args) != 3 or fn.args.vararg or fn.args.kwarg or fn.args.kwonlyargs or fn.args.defaults:
        raise Unsupported(f"{fn.name}: expected three positional record arguments")
    a, b, c = args
    tr = MergeTr(fields, args)
    params = []
    for r in (a, b):
        for f, ty in fields:
            t = "Q" if ty == "Q" else "Z"
            params.append((tr.param(f"{r}[{f}]", t, coq=f"{r}_{f}"), t))
    for s in _strip_doc(fn.body):
        tgt = s.targets[0] if isinstance(s, ast.Assign) and len(s.targets) == 1 else (s.target if isinstance(s, ast.AugAssign) else None)
        if tgt is None:
            raise Unsupported(f"{fn.name}: statement " + ast.unparse(s)[:60])
        if isinstance(tgt, ast.Name):
            if isinstance(s, ast.AugAssign):
                raise Unsupported(f"{fn.name}: augmented assignment to local {tgt.id}")
            if isinstance(s.value, (ast.Compare, ast.BoolOp)) or (isinstance(s.value, ast.BinOp) and isinstance(s.value.op, (ast.BitAnd, ast.BitOr))):
                w, i = tr.bexpr(s.value)      # a per-channel boolean, e.g. `a_empty = a["count"] == 0`
                tr.bind(tgt.id, "B", w, i)
                continue
            w, i, ty = tr.expr(s.value)
            if ty == "C":
                raise Unsupported("constant assignment")
            tr.bind(tgt.id, ty, w, i)
            continue
        # c["f"][:] = ...   /   c["f"][:] += ...
        if not (isinstance(tgt, ast.Subscript) and isinstance(tgt.slice, ast.Slice) and tgt.slice.lower is None
                and tgt.slice.upper is None and tgt.slice.step is None and isinstance(tgt.value, ast.Subscript)
                and isinstance(tgt.value.value, ast.Name) and tgt.value.value.id == c
                and isinstance(tgt.value.slice, ast.Constant) and tgt.value.slice.value in tr.fields):
            raise Unsupported(f"{fn.name}: store target " + ast.unparse(tgt))
        f = tgt.value.slice.value
        fty = tr.fields[f]
        val = s.value
        if isinstance(s, ast.AugAssign):
            val = ast.BinOp(left=tgt.value, op=s.op, right=s.value)
        t = tr.expr(val)
        if fty == "Q":
            w, i = tr.toq(t)
            tr.bind(f"{c}[{f}]", "Q", w, i, base=f"{c}_{f}")
        else:
            if t[2] not in ("Z", "C"):
                raise Unsupported(f"{fn.name}: float stored into integer field {f}")
            bits = fty[1:]
            tr.ok.append(f"in{bits} {t[1]}")
            tr.bind(f"{c}[{f}]", "Z", f"(wrap{bits} {t[0]})", t[1], base=f"{c}_{f}")
    outs = []
    for f, ty in fields:
        key = f"{c}[{f}]"
        if key not in tr.env:
            raise Unsupported(f"{fn.name}: field {f} of the result is never written")
        outs.append(tr.env[key])
    final = "(" + ", ".join(o[0] for o in outs) + ")"
    rty = " * ".join(_ty(o[1]) for o in outs)
    ps = " ".join(f"({n} : {_ty(t)})" for n, t in params)
    txt = [f"(* from {fn.name}: one channel; arguments = fields of a, then of b; result = fields of c *)",
           f"Definition {fn.name} {ps} : {rty} :=\n{tr.chain('w', final)}.",
           f"Definition {fn.name}_ideal {ps} : {rty} :=\n{tr.chain('i', final)}.",
           f"Definition {fn.name}_ok {ps} : Prop :=\n{tr.chain('i', tr.ok_prop())}.", ""]
    return "\n".join(txt)


# ------------------------------------------------------------------------------------------------
# compute_online_moments(_basic): loop structure
# ------------------------------------------------------------------------------------------------

def _rec_field(e, rec="moments", idx="ichan"):
    """moments[ichan]["f"] -> f"""
    if (isinstance(e, ast.Subscript) and isinstance(e.slice, ast.Constant) and isinstance(e.value, ast.Subscript)
            and isinstance(e.value.value, ast.Name) and e.value.value.id == rec and ast.unparse(e.value.slice) == idx):
        return e.slice.value
    return None


def _pairs(s):
    """an assignment (possibly of parallel tuples, or chained `x = y = v`) as a list of (target, value) ast pairs"""
    if not isinstance(s, ast.Assign):
        return None
    out = []
    for t in s.targets:
        if isinstance(t, ast.Tuple):
            if not (isinstance(s.value, ast.Tuple) and len(s.value.elts) == len(t.elts)):
                return None
            out += list(zip(t.elts, s.value.elts))
        else:
            out.append((t, s.value))
    return out


def _is_init_body(stmts, form):
    """form 'record': moments[ichan]['min'] = array[ichan]; moments[ichan]['max'] = array[ichan]
       form 'local' : min_val = array[ichan]; max_val = array[ichan]      (any grouping)"""
    got = set()
    for s in stmts:
        ps = _pairs(s)
        if ps is None:
            return False
        for t, v in ps:
            if ast.unparse(v) != "array[ichan]":
                return False
            if form == "record":
                f = _rec_field(t)
                if f not in ("min", "max"):
                    return False
                got.add(f)
            else:
                if not (isinstance(t, ast.Name) and t.id in ("min_val", "max_val")):
                    return False
                got.add(t.id[:3])
    return got == {"min", "max"}


def gen_loop(fn, fields, scalar_sigs):
    """returns text defining  <fn>_init (startflag count nsamps : Z) : bool,  <fn>_step,  <fn>_store_count"""
    name = fn.name
    args = [a.arg for a in fn.args.args]
    if args != ["array", "moments", "startflag"]:
        raise Unsupported(f"{name}: parameters {args}")
    decos = " ".join(ast.unparse(d) for d in fn.decorator_list)
    if "'val': types.f4" not in decos or "njit" not in decos:
        raise Unsupported(f"{name}: decorator {decos}")
    body = _strip_doc(fn.body)
    if len(body) < 3 or ast.unparse(body[0]) != "nchans = moments.shape[0]" or ast.unparse(body[1]) != "nsamps = array.shape[0] // nchans":
        raise Unsupported(f"{name}: header statements changed")
    rest = body[2:]
    fdict = dict(fields)
    init_test, init_where = None, None
    tr = Tr()
    for p in ("startflag", "count", "nsamps"):
        tr.param(p, "Z")
    if isinstance(rest[0], ast.If):
        s = rest[0]
        if s.orelse or len(s.body) != 1 or not isinstance(s.body[0], ast.For):
            raise Unsupported(f"{name}: form of the initialisation block")
        lp = s.body[0]
        if ast.unparse(lp.target) != "ichan" or ast.unparse(lp.iter) not in ("range(nchans)", "prange(nchans)") or not _is_init_body(lp.body, "record"):
            raise Unsupported(f"{name}: initialisation loop is not `moments[ichan][min/max] = array[ichan]`")
        for n_ in ast.walk(s.test):
            if isinstance(n_, ast.Name) and n_.id not in ("startflag", "nsamps"):
                raise Unsupported(f"{name}: initialisation test uses {n_.id}")
        init_test, init_where = tr.bexpr(s.test)[1], "before the channel loop, on the record"
        rest = rest[1:]
    if len(rest) != 1 or not isinstance(rest[0], ast.For) or ast.unparse(rest[0].target) != "ichan" or ast.unparse(rest[0].iter) != "prange(nchans)":
        raise Unsupported(f"{name}: expected exactly one `for ichan in prange(nchans)` loop")
    loads, stores, inner = {}, {}, None
    seen_inner = False
    for s in rest[0].body:
        if isinstance(s, ast.For):
            if seen_inner or ast.unparse(s.target) != "isamp" or ast.unparse(s.iter) != "range(nsamps)" or s.orelse:
                raise Unsupported(f"{name}: sample loop form")
            inner, seen_inner = s, True
            continue
        if isinstance(s, ast.If) and not seen_inner:
            if s.orelse or not _is_init_body(s.body, "local") or init_test is not None:
                raise Unsupported(f"{name}: unexpected conditional " + ast.unparse(s.test))
            if not {"count", "min_val", "max_val"} <= set(loads):
                raise Unsupported(f"{name}: min/max initialised before the record is loaded")
            for n_ in ast.walk(s.test):
                if isinstance(n_, ast.Name) and n_.id not in ("startflag", "nsamps", "count"):
                    raise Unsupported(f"{name}: initialisation test uses {n_.id}")
            init_test, init_where = tr.bexpr(s.test)[1], "inside the channel loop, on the loaded min_val/max_val"
            continue
        ps = _pairs(s)
        if ps is None:
            raise Unsupported(f"{name}: statement " + ast.unparse(s)[:60])
        for t, v in ps:
            if not seen_inner and isinstance(t, ast.Name) and _rec_field(v) is not None:
                if t.id in loads:
                    raise Unsupported(f"{name}: {t.id} loaded twice")
                loads[t.id] = _rec_field(v)
            elif seen_inner and isinstance(v, ast.Name) and _rec_field(t) is not None:
                if _rec_field(t) in stores:
                    raise Unsupported(f"{name}: field stored twice")
                stores[_rec_field(t)] = v.id
            else:
                raise Unsupported(f"{name}: statement " + ast.unparse(s)[:60])
    if inner is None:
        raise Unsupported(f"{name}: no sample loop")
    basic = name.endswith("_basic")
    ms = ["m1", "m2"] if basic else ["m1", "m2", "m3", "m4"]
    want = {m: m for m in ms}
    want.update({"count": "count", "min_val": "min", "max_val": "max"})
    if loads != want:
        raise Unsupported(f"{name}: loads {loads}")
    if stores != {v: k for k, v in want.items()}:
        raise Unsupported(f"{name}: stores {stores}")
    # sample loop body
    ib = inner.body
    upd = "update_moments_basic" if basic else "update_moments"
    exp = [f"val = array[isamp * nchans + ichan]",
           f"{', '.join(ms)}, count = {upd}(val, {', '.join(ms)}, count)",
           "min_val = min(min_val, val)", "max_val = max(max_val, val)"]
    got = [ast.unparse(s).replace("(", "").replace(")", "") for s in ib]
    if got != [x.replace("(", "").replace(")", "") for x in exp]:
        raise Unsupported(f"{name}: sample loop body changed: " + " ; ".join(ast.unparse(s) for s in ib))
    if upd not in scalar_sigs:
        raise Unsupported(f"{name}: {upd} was not translated")
    pin, pout = scalar_sigs[upd]
    if pin != ["Q"] * (len(ms) + 1) + ["Z"] or pout != ["Q"] * len(ms) + ["Z"]:
        raise Unsupported(f"{name}: signature of {upd} changed")
    if fdict.get("count") not in ("Z32", "Z64") or any(fdict.get(f) != "Q" for f in ms + ["min", "max"]):
        raise Unsupported(f"{name}: field types changed")
    bits = fdict["count"][1:]
    mq = " ".join(ms)
    mo = ", ".join(m + "'" for m in ms)
    txt = [f"(* from {name}: min/max are set to the first sample of the chunk when this holds ({init_where or 'never'}) *)",
           f"Definition {name}_init (startflag count nsamps : Z) : bool := {init_test or 'false'}.",
           f"(* from {name}: body of the sample loop, state = ({', '.join(ms)}, count, min_val, max_val) *)",
           f"Definition {name}_step (val {mq} : Q) (count : Z) (min_val max_val : Q) : {' * '.join(['Q'] * len(ms))} * Z * Q * Q :=\n"
           f"  let '({mo}, count') := {upd} val {mq} count in\n"
           f"  ({mo}, count', qmin min_val val, qmax max_val val).",
           f"Definition {name}_step_ideal (val {mq} : Q) (count : Z) (min_val max_val : Q) : {' * '.join(['Q'] * len(ms))} * Z * Q * Q :=\n"
           f"  let '({mo}, count') := {upd}_ideal val {mq} count in\n"
           f"  ({mo}, count', qmin min_val val, qmax max_val val).",
           f"(* from {name}: `moments[ichan]['count'] = count` stores the int64 local into an int{bits} field *)",
           f"Definition {name}_store_count (count : Z) : Z := wrap{bits} count.", ""]
    return "\n".join(txt)


# ------------------------------------------------------------------------------------------------
# ChannelStats glue (hand-modelled): the statements the model was written from must still be there
# ------------------------------------------------------------------------------------------------

def check_stats(repo):
    mod = ast.parse(open(f"{repo}/{SREL}").read())
    cls = next((n for n in mod.body if isinstance(n, ast.ClassDef) and n.name == "ChannelStats"), None)
    if cls is None:
        raise Unsupported("class ChannelStats not found")
    meth = {f.name: f for f in cls.body if isinstance(f, ast.FunctionDef)}
    need = {
        "__init__": ["self._moments = np.zeros(nchans, dtype=kernels.moments_dtype)"],
        "push_data": ["if mode == 'basic':", "kernels.compute_online_moments_basic(array, self._moments, start_index)",
                      "kernels.compute_online_moments(array, self._moments, start_index)"],
        "__add__": ["kernels.add_online_moments(self._moments, other._moments, combined._moments)",
                    "combined = ChannelStats(self.nchans, self.nsamps + other.nsamps)"],
        "mean": ["return self._moments['m1']"],
        "maxima": ["return self._moments['max']"],
        "minima": ["return self._moments['min']"],
        "var": ["self._moments['m2'] /"],
        "skew": ["np.divide(self._moments['m3'], np.power(self._moments['m2'], 1.5)", "where=self._moments['m2'] != 0",
                 "out=np.zeros_like(self._moments['m3'])"],
        "kurtosis": ["np.divide(self._moments['m4'], np.power(self._moments['m2'], 2.0)", "where=self._moments['m2'] != 0",
                     "out=np.zeros_like(self._moments['m4'])", "- 3.0"],
    }
    # methods whose whole body (docstring aside) must be exactly these statements: Model/C10_moments.v `is_std` and
    # Props/C10.v C10_std_any_history speak of "the non-negative root of var" and of nothing else
    exact = {"std": ["return np.sqrt(self.var)"]}
    errs = []
    for m, lines in need.items():
        if m not in meth:
            errs.append(f"ChannelStats.{m} not found")
            continue
        txt = ast.unparse(meth[m])
        for ln in lines:
            if ln not in txt:
                errs.append(f"ChannelStats.{m}: expected `{ln}`")
    for m, lines in exact.items():
        if m not in meth:
            errs.append(f"ChannelStats.{m} not found")
            continue
        body = list(meth[m].body)
        if body and isinstance(body[0], ast.Expr) and isinstance(body[0].value, ast.Constant) and isinstance(body[0].value.value, str):
            body = body[1:]
        got = [ast.unparse(b) for b in body]
        if got != lines:
            errs.append(f"ChannelStats.{m}: body must be exactly `{'; '.join(lines)}`, found `{'; '.join(got)[:120]}`")
        if [ast.unparse(d) for d in meth[m].decorator_list] != ["property"]:
            errs.append(f"ChannelStats.{m}: expected a plain @property")
    return errs


def gen_moments(repo="/repo"):
    out = ["(* GENERATED by tools/py2coq/gen_c10.py from sigpyproc/core/kernels.py -- do not edit *)",
           "From Coq Require Import ZArith QArith Bool.", "Require Import SPP.Model.C10_rt.", "Open Scope Q_scope.", ""]
    errors = []
    try:
        mod = ast.parse(open(f"{repo}/{KREL}").read())
        fns = _functions(mod)
        fields = parse_dtype(mod)
    except (Unsupported, OSError, SyntaxError) as e:
        return "\n".join(out) + f"\n(* UNSUPPORTED: {str(e).replace('*)', '* )')} *)\n", [f"kernels.py: {e}"]
    if [f for f, _ in fields] != ["count", "m1", "m2", "m3", "m4", "min", "max"]:
        errors.append(f"moments_dtype fields changed: {[f for f, _ in fields]}")
    out.append("(* moments_dtype: " + ", ".join(f"{f}:{t}" for f, t in fields) + " *)\n")
    sigs = {}
    for name in ("update_moments", "update_moments_basic"):
        try:
            if name not in fns:
                raise Unsupported("not found in kernels.py")
            txt, pin, pout = gen_scalar(fns[name])
            sigs[name] = (pin, pout)
            out.append(txt)
        except Unsupported as e:
            errors.append(f"{name}: {e}")
            out.append(f"(* UNSUPPORTED {name}: {str(e).replace('*)', '* )')} *)\n")
    try:
        if "add_online_moments" not in fns:
            raise Unsupported("not found in kernels.py")
        out.append(gen_merge(fns["add_online_moments"], fields))
    except Unsupported as e:
        errors.append(f"add_online_moments: {e}")
        out.append(f"(* UNSUPPORTED add_online_moments: {str(e).replace('*)', '* )')} *)\n")
    for name in ("compute_online_moments", "compute_online_moments_basic"):
        try:
            if name not in fns:
                raise Unsupported("not found in kernels.py")
            out.append(gen_loop(fns[name], fields, sigs))
        except Unsupported as e:
            errors.append(f"{name}: {e}")
            out.append(f"(* UNSUPPORTED {name}: {str(e).replace('*)', '* )')} *)\n")
    try:
        errs = check_stats(repo)
        errors += errs
        out.append("(* ChannelStats glue (stats.py) " + ("matches the statements Model/C10_moments.v was written from" if not errs
                   else "CHANGED: " + "; ".join(errs).replace("*)", "* )")) + " *)")
    except (Unsupported, OSError, SyntaxError) as e:
        errors.append(f"stats.py: {e}")
    return "\n".join(out) + "\n", errors


GENERATORS = {"Moments.v": gen_moments}

if __name__ == "__main__":
    import sys
    t, errs = gen_moments(sys.argv[1] if len(sys.argv) > 1 else "/repo")
    print(t)
    for e_ in errs:
        print("ERROR", e_, file=sys.stderr)
