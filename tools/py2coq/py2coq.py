"""py2coq: fail-closed translation of a small subset of Python (numba loop-nest kernels and
straight-line integer code) to Gallina text.

Everything here works on the Python `ast` of /repo's *current* sources.  Anything outside the accepted
subset raises `Unsupported`; the caller treats that like a broken proof obligation (DESIGN.md 2.4).

Semantics assumed (trusted base, DESIGN.md 4.3):
  * integers are unbounded (Z) except that a store into a `u1` array truncates mod 256;
  * `range`/`prange` loops run every iteration exactly once, in index order for the sequential model;
  * arrays are total functions Z -> Z (`Rt.arr`); the caller proves indices are in bounds;
  * `np.empty*` yields an *arbitrary* array: it becomes an extra parameter `junk_<name>`;
  * `//` and `%` on Z are floor division / modulo with the sign of the divisor (= Coq `/`, `mod`).
"""
from __future__ import annotations

import ast
import re


class Unsupported(Exception):
    pass


BIN = {ast.Add: "+", ast.Sub: "-", ast.Mult: "*"}
CMP = {ast.Lt: "<?", ast.LtE: "<=?", ast.Gt: ">?", ast.GtE: ">=?", ast.Eq: "=?"}


RESERVED = {"arr": "arr_", "end": "end_", "at": "at_", "in": "in_", "fun": "fun_", "mod": "mod_", "iter": "iter_",
            "upd": "upd_", "zeros": "zeros_", "Type": "Type_", "Set": "Set_", "Prop": "Prop_", "as": "as_"}


def ident(n):
    return RESERVED.get(n, n)


def _name_of(e):
    """dotted attribute chain -> python text"""
    return ast.unparse(e)


class Ctx:
    """translation context for one function"""

    def __init__(self, arrays, attr_map=None, call_map=None):
        self.arrays = set(arrays)          # names that denote arrays (Z -> Z)
        self.extra = []                    # extra Z parameters discovered (e.g. x_size)
        self.junk = []                     # extra arr parameters for np.empty
        self.attr_map = attr_map or {}     # "self.header.nchans" -> "nchans"
        self.call_map = call_map or {}     # python call text -> coq function name

    def add_extra(self, n):
        if n not in self.extra:
            self.extra.append(n)
        return n


def expr(e, cx: Ctx) -> str:
    if isinstance(e, ast.Constant):
        if isinstance(e.value, bool):
            return "1" if e.value else "0"
        if isinstance(e.value, int):
            return str(e.value) if e.value >= 0 else f"({e.value})"
        if isinstance(e.value, float) and e.value == int(e.value):
            return str(int(e.value))
        raise Unsupported(f"constant {e.value!r}")
    if isinstance(e, ast.Name):
        return ident(e.id)
    if isinstance(e, ast.Attribute):
        txt = _name_of(e)
        if txt in cx.attr_map:
            return cx.add_extra(cx.attr_map[txt])
        if e.attr == "size" and isinstance(e.value, ast.Name):
            return cx.add_extra(f"{e.value.id}_size")
        raise Unsupported(f"attribute {txt}")
    if isinstance(e, ast.UnaryOp) and isinstance(e.op, ast.USub):
        return f"(- {expr(e.operand, cx)})"
    if isinstance(e, ast.BinOp):
        l, r = expr(e.left, cx), expr(e.right, cx)
        t = type(e.op)
        if t in BIN:
            return f"({l} {BIN[t]} {r})"
        if t is ast.RShift:
            return f"(Z.shiftr {l} {r})"
        if t is ast.LShift:
            return f"(Z.shiftl {l} {r})"
        if t is ast.BitAnd:
            return f"(Z.land {l} {r})"
        if t is ast.BitOr:
            return f"(Z.lor {l} {r})"
        if t is ast.FloorDiv:
            return f"({l} / {r})"
        if t is ast.Mod:
            return f"({l} mod {r})"
        if t is ast.Div:
            # true division: only accepted through the explicit cast hook
            return f"(divcast {l} {r})"
        raise Unsupported(f"binop {t.__name__}")
    if isinstance(e, ast.Subscript):
        if not isinstance(e.value, ast.Name):
            raise Unsupported("subscript base " + ast.unparse(e))
        if isinstance(e.slice, ast.Slice):
            raise Unsupported("slice in expression " + ast.unparse(e))
        if isinstance(e.slice, ast.Tuple):
            raise Unsupported("multi-dim subscript " + ast.unparse(e))
        if e.value.id not in cx.arrays:
            raise Unsupported(f"subscript of non-array {e.value.id}")
        return f"({e.value.id} {expr(e.slice, cx)})"
    if isinstance(e, ast.Call):
        f = ast.unparse(e.func)
        if f == "np.sum" and len(e.args) == 1:
            a = e.args[0]
            if (isinstance(a, ast.Subscript) and isinstance(a.slice, ast.Slice) and a.slice.step is None
                    and isinstance(a.value, ast.Name) and a.slice.lower is not None and a.slice.upper is not None):
                return f"(sum_range {a.value.id} {expr(a.slice.lower, cx)} {expr(a.slice.upper, cx)})"
        if f in ("min", "max") and len(e.args) == 2:
            return f"(Z.{f} {expr(e.args[0], cx)} {expr(e.args[1], cx)})"
        if f == "abs" and len(e.args) == 1:
            return f"(Z.abs {expr(e.args[0], cx)})"
        if f == "int" and len(e.args) == 1:
            return expr(e.args[0], cx)          # int() of an integer-valued expression
        if f == "len" and len(e.args) == 1 and isinstance(e.args[0], ast.Name):
            return cx.add_extra(f"{e.args[0].id}_size")
        if ast.unparse(e) in cx.attr_map:
            return cx.add_extra(cx.attr_map[ast.unparse(e)])
        if f in cx.call_map:
            return "(" + cx.call_map[f] + " " + " ".join(expr(a, cx) for a in e.args) + ")"
        raise Unsupported(f"call {f}")
    raise Unsupported(ast.dump(e)[:100])


def bexpr(e, cx: Ctx) -> str:
    """boolean expression -> Coq bool"""
    if isinstance(e, ast.Compare) and len(e.ops) == 1:
        l, r = expr(e.left, cx), expr(e.comparators[0], cx)
        t = type(e.ops[0])
        if t in CMP:
            return f"({l} {CMP[t]} {r})"
        if t is ast.NotEq:
            return f"(negb ({l} =? {r}))"
        raise Unsupported("compare " + t.__name__)
    if isinstance(e, ast.BoolOp):
        op = "&&" if isinstance(e.op, ast.And) else "||"
        return "(" + f" {op} ".join(bexpr(v, cx) for v in e.values) + ")"
    if isinstance(e, ast.UnaryOp) and isinstance(e.op, ast.Not):
        return f"(negb {bexpr(e.operand, cx)})"
    # truthiness of an integer / array element
    return f"(negb ({expr(e, cx)} =? 0))"


# ----------------------------------------------------------------------------------------------
# loop-nest kernels
# ----------------------------------------------------------------------------------------------

def _target_name(t):
    if isinstance(t, ast.Name):
        return t.id
    if isinstance(t, ast.Subscript) and isinstance(t.value, ast.Name):
        return t.value.id
    raise Unsupported("assignment target " + ast.unparse(t))


def assigned(stmts):
    """names (scalars and arrays) assigned in a statement list, in first-occurrence order"""
    out = []

    def add(n):
        if n not in out:
            out.append(n)

    for s in stmts:
        if isinstance(s, ast.Assign):
            if len(s.targets) != 1:
                raise Unsupported("multiple targets")
            add(_target_name(s.targets[0]))
        elif isinstance(s, ast.AugAssign):
            add(_target_name(s.target))
        elif isinstance(s, ast.For):
            for n in assigned(s.body):
                add(n)
        elif isinstance(s, ast.If):
            for n in assigned(s.body) + assigned(s.orelse):
                add(n)
        elif isinstance(s, ast.Return):
            pass
        else:
            raise Unsupported("statement " + type(s).__name__)
    return out


def tup(names):
    return names[0] if len(names) == 1 else "'(" + ", ".join(names) + ")"


def tupv(names):
    return names[0] if len(names) == 1 else "(" + ", ".join(names) + ")"


def _is_reversed_slice(v):
    """match  b[l:h][::-1]  ->  (b, l, h)"""
    if (isinstance(v, ast.Subscript) and isinstance(v.slice, ast.Slice) and v.slice.lower is None
            and v.slice.upper is None and isinstance(v.slice.step, ast.UnaryOp)
            and isinstance(v.slice.step.op, ast.USub) and isinstance(v.slice.step.operand, ast.Constant)
            and v.slice.step.operand.value == 1):
        inner = v.value
        if (isinstance(inner, ast.Subscript) and isinstance(inner.slice, ast.Slice) and inner.slice.step is None
                and isinstance(inner.value, ast.Name)):
            return inner.value.id, inner.slice.lower, inner.slice.upper
    return None


class _Rename(ast.NodeTransformer):
    def visit_Name(self, node):
        node.id = ident(node.id)
        return node

    def visit_arg(self, node):
        node.arg = ident(node.arg)
        return node


class KernelTranslator:
    def __init__(self, fn: ast.FunctionDef, array_params, u8_store=False, const_map=None):
        fn = _Rename().visit(fn)
        array_params = [ident(a) for a in array_params]
        self.fn = fn
        self.array_params = list(array_params)
        self.u8 = u8_store
        self.cx = Ctx(array_params)
        self.const_map = const_map or {}
        self.fresh = 0

    def block(self, stmts, live, ind, defined):
        cx = self.cx
        pad = "  " * ind
        if not stmts:
            return pad + tupv(live)
        s, rest = stmts[0], stmts[1:]
        if isinstance(s, ast.Return):
            if rest:
                raise Unsupported("code after return")
            if not isinstance(s.value, ast.Name):
                raise Unsupported("return of non-name")
            return pad + s.value.id
        if isinstance(s, (ast.Assign, ast.AugAssign)):
            t = s.targets[0] if isinstance(s, ast.Assign) else s.target
            # np.empty / np.empty_like / np.zeros: fresh arrays
            if isinstance(s, ast.Assign) and isinstance(t, ast.Name) and isinstance(s.value, ast.Call):
                f = ast.unparse(s.value.func)
                if f in ("np.empty", "np.empty_like"):
                    cx.arrays.add(t.id)
                    cx.junk.append(f"junk_{t.id}")
                    return f"{pad}let {t.id} := junk_{t.id} in\n" + self.block(rest, live, ind, defined | {t.id})
                if f in ("np.zeros", "np.zeros_like"):
                    cx.arrays.add(t.id)
                    return f"{pad}let {t.id} := zeros in\n" + self.block(rest, live, ind, defined | {t.id})
            # slice assignment  a[l:h] = b[l2:h2][::-1]
            if (isinstance(s, ast.Assign) and isinstance(t, ast.Subscript) and isinstance(t.slice, ast.Slice)):
                rv = _is_reversed_slice(s.value)
                if rv is None or t.slice.step is not None:
                    raise Unsupported("slice assignment " + ast.unparse(s))
                a = t.value.id
                b, l2, h2 = rv
                lo, hi = expr(t.slice.lower, cx), expr(t.slice.upper, cx)
                l2e, h2e = expr(l2, cx), expr(h2, cx)
                self.fresh += 1
                k = f"k{self.fresh}"
                return (f"{pad}let {a} := iter (Z.to_nat ({hi} - {lo})) (fun {k} {a} => upd {a} ({lo} + {k}) ({b} ({h2e} - 1 - {k}))) {a} in"
                        f"  (* reversed slice copy; source slice [{l2e}, {h2e}) *)\n"
                        + self.block(rest, live, ind, defined))
            v = expr(s.value, cx)
            if isinstance(t, ast.Name):
                if isinstance(s, ast.AugAssign):
                    v = f"({t.id} {BIN[type(s.op)]} {v})"
                return f"{pad}let {t.id} := {v} in\n" + self.block(rest, live, ind, defined | {t.id})
            if not (isinstance(t, ast.Subscript) and isinstance(t.value, ast.Name)):
                raise Unsupported("target " + ast.unparse(t))
            if isinstance(t.slice, (ast.Slice, ast.Tuple)):
                raise Unsupported("store target " + ast.unparse(t))
            a, i = t.value.id, expr(t.slice, cx)
            if a not in cx.arrays:
                raise Unsupported(f"store into non-array {a}")
            if isinstance(s, ast.AugAssign):
                if type(s.op) not in BIN:
                    raise Unsupported("augassign op")
                v = f"(({a} {i}) {BIN[type(s.op)]} {v})"
            if self.u8:
                v = f"({v} mod 256)"
            return f"{pad}let {a} := upd {a} {i} {v} in\n" + self.block(rest, live, ind, defined)
        if isinstance(s, ast.For):
            if s.orelse or not isinstance(s.target, ast.Name) or not isinstance(s.iter, ast.Call):
                raise Unsupported("for form")
            f = ast.unparse(s.iter.func)
            if f not in ("range", "prange") or len(s.iter.args) != 1 or s.iter.keywords:
                raise Unsupported("for iterator " + ast.unparse(s.iter))
            st = [n for n in assigned(s.body) if n in defined]   # loop-carried state only
            if not st:
                raise Unsupported("loop without carried state")
            n = expr(s.iter.args[0], cx)
            body = self.block(s.body, st, ind + 2, defined | {s.target.id})
            return (f"{pad}let {tup(st)} := iter (Z.to_nat {n}) (fun {s.target.id} {tup(st)} =>\n{body}) {tupv(st)} in  (* {f} *)\n"
                    + self.block(rest, live, ind, defined))
        if isinstance(s, ast.If) and not s.orelse:
            st = [n for n in assigned(s.body) if n in defined]
            c = bexpr(s.test, cx)
            body = self.block(s.body, st, ind + 2, defined)
            return f"{pad}let {tup(st)} := if {c} then (\n{body}) else {tupv(st)} in\n" + self.block(rest, live, ind, defined)
        raise Unsupported("statement " + type(s).__name__ + ": " + ast.unparse(s)[:60])

    def translate(self, scalar_params=None):
        fn = self.fn
        args = [a.arg for a in fn.args.args] + [a.arg for a in fn.args.kwonlyargs]
        decos = " ".join(ast.unparse(d) for d in fn.decorator_list)
        par = "parallel=True" in decos
        body = [s for s in fn.body if not (isinstance(s, ast.Expr) and isinstance(s.value, ast.Constant))]
        returns = isinstance(body[-1], ast.Return) if body else False
        out = assigned(body)
        arrays_out = [n for n in out if n in self.array_params]
        defined = set(args)
        if returns:
            txt = self.block(body, [], 1, defined)
            ret = "arr"
        else:
            if not arrays_out:
                raise Unsupported("kernel writes nothing")
            txt = self.block(body, arrays_out, 1, defined)
            ret = " * ".join("arr" for _ in arrays_out)
        pr = []
        for x in self.cx.extra:
            pr.append(f"({x} : Z)")
        for j in self.cx.junk:
            pr.append(f"({j} : arr)")
        for a in args:
            pr.append(f"({a} : {'arr' if a in self.array_params else 'Z'})")
        size_def = ""
        if returns:
            rname = body[-1].value.id
            for k_, st_ in enumerate(body):
                if (isinstance(st_, ast.Assign) and isinstance(st_.targets[0], ast.Name) and st_.targets[0].id == rname
                        and isinstance(st_.value, ast.Call) and ast.unparse(st_.value.func) in ("np.empty", "np.empty_like", "np.zeros", "np.zeros_like")):
                    f_ = ast.unparse(st_.value.func)
                    cx2 = self.cx
                    if f_.endswith("_like"):
                        sz = cx2.add_extra(f"{st_.value.args[0].id}_size")
                    else:
                        sz = expr(st_.value.args[0], cx2)
                    kt2 = KernelTranslator.__new__(KernelTranslator)
                    kt2.fn, kt2.array_params, kt2.u8, kt2.cx, kt2.const_map, kt2.fresh = self.fn, self.array_params, self.u8, Ctx(self.array_params), {}, 0
                    kt2.cx.extra = self.cx.extra
                    kt2.cx.call_map = self.cx.call_map
                    pre_txt = kt2.block(body[:k_], [sz], 1, set(args))
                    zparams = " ".join(f"({x} : Z)" for x in self.cx.extra) + " " + " ".join(f"({a} : Z)" for a in args if a not in self.array_params)
                    size_def = f"(* number of elements of the array returned by {fn.name} *)\nDefinition {fn.name}_size {zparams} : Z :=\n{pre_txt}.\n"
                    break
        uses_divcast = "divcast" in txt
        if uses_divcast:
            pr.insert(0, "(divcast : Z -> Z -> Z)")
        meta = {"name": fn.name, "parallel": par, "params": pr, "outputs": arrays_out if not returns else ["<returned>"],
                "extra": list(self.cx.extra), "junk": list(self.cx.junk), "divcast": uses_divcast}
        return (f"(* from {fn.name}; parallel={par} *)\nDefinition {fn.name}_run {' '.join(pr)} : {ret} :=\n{txt}.\n" + size_def, meta)


def find_functions(path):
    src = open(path).read()
    mod = ast.parse(src)
    fns = {}
    for node in ast.walk(mod):
        if isinstance(node, ast.FunctionDef):
            fns.setdefault(node.name, node)
    return mod, fns


# per-kernel configuration: which parameters are arrays; u1 store truncation is read from the signature
KERNELS = {
    # bit kernels (T2)
    **{f"unpack{n}_8_{o}": ["array", "unpacked"] for n in (1, 2, 4) for o in ("big", "little")},
    **{f"pack{n}_8_{o}": ["array", "packed"] for n in (1, 2, 4) for o in ("big", "little")},
    # loop nests (T1)
    "extract_tim": ["inarray", "outarray"],
    "extract_bpass": ["inarray", "outarray"],
    "mask_channels": ["array", "mask"],
    "dedisperse": ["inarray", "outarray", "delays"],
    "subband": ["inarray", "outarray", "delays", "chan_to_sub"],
    "remove_zerodm": ["inarray", "outarray", "bpass", "chanwts"],
    "invert_freq": ["array"],
    "downsample_1d_mean": ["array"],
    "downsample_2d_mean_flat": ["array"],
    "circular_pad_goodsize": ["arr"],
}


def gen_kernels(repo="/repo"):
    """Gallina text of Gen/Kernels.v; a kernel outside the subset is omitted (so whatever depends on it no
    longer compiles) and reported.  Returns (text, errors)."""
    path = f"{repo}/sigpyproc/core/kernels.py"
    _, fns = find_functions(path)
    out = ["(* GENERATED by tools/py2coq from sigpyproc/core/kernels.py -- do not edit *)",
           "From Coq Require Import ZArith List.", "Require Import SPP.Base.Rt.", "Open Scope Z_scope.", ""]
    errors = []
    for name, arrays in KERNELS.items():
        try:
            if name not in fns:
                raise Unsupported("not found in kernels.py")
            fn = fns[name]
            decos = " ".join(ast.unparse(d) for d in fn.decorator_list)
            u8 = "void(u1[::1], u1[::1])" in decos
            kt = KernelTranslator(fn, arrays, u8_store=u8)
            if name == "circular_pad_goodsize":
                kt.cx.call_map["nb_fft_good_size"] = "good_size"
            txt, meta = kt.translate()
            if name == "circular_pad_goodsize":
                txt = txt.replace(f"Definition {name}_run ", f"Definition {name}_run (good_size : Z -> Z) ")
                txt = txt.replace(f"Definition {name}_size ", f"Definition {name}_size (good_size : Z -> Z) ")
            out.append(txt)
        except Unsupported as e:
            errors.append(f"{name}: {e}")
            out.append(f"(* UNSUPPORTED {name}: {str(e).replace('*)', '* )')} *)\n")
    return "\n".join(out), errors


# ----------------------------------------------------------------------------------------------
# straight-line integer code (T3): a statement range of a method -> a Gallina function into option
# ----------------------------------------------------------------------------------------------

def _assigned_simple(stmts):
    out = []
    for s in stmts:
        if isinstance(s, ast.Assign) and len(s.targets) == 1:
            t = s.targets[0]
            if isinstance(t, ast.Name):
                out.append(ident(t.id))
            elif isinstance(t, ast.Tuple):
                out += [ident(e.id) for e in t.elts]
            else:
                raise Unsupported("target " + ast.unparse(t))
        elif isinstance(s, ast.AugAssign) and isinstance(s.target, ast.Name):
            out.append(ident(s.target.id))
        elif isinstance(s, ast.Expr) and isinstance(s.value, ast.Call) and ast.unparse(s.value.func).endswith(".append"):
            out.append(ident(s.value.func.value.id))
        else:
            raise Unsupported("statement in branch: " + ast.unparse(s)[:60])
    res = []
    for n in out:
        if n not in res:
            res.append(n)
    return res


class StraightLine:
    """Translate a list of statements to nested lets ending in [Some outputs]; `raise` -> None."""

    def __init__(self, cx: Ctx, skip_targets=(), capture_calls=None):
        self.cx = cx
        self.skip = set(skip_targets)
        self.capture_calls = capture_calls or {}   # python call text prefix -> output name
        self.lists = set()

    def texpr(self, e):
        """expression that may be a tuple / list comprehension"""
        if isinstance(e, ast.Tuple):
            return "(" + ", ".join(self.texpr(x) for x in e.elts) + ")"
        if isinstance(e, ast.ListComp):
            if len(e.generators) != 1 or e.generators[0].ifs:
                raise Unsupported("list comprehension form")
            g = e.generators[0]
            if not (isinstance(g.iter, ast.Call) and ast.unparse(g.iter.func) == "range" and len(g.iter.args) == 1
                    and isinstance(g.target, ast.Name)):
                raise Unsupported("comprehension iterator")
            return f"(map (fun {ident(g.target.id)} => {self.texpr(e.elt)}) (zrange {expr(g.iter.args[0], self.cx)}))"
        if isinstance(e, ast.List):
            return "[" + "; ".join(self.texpr(x) for x in e.elts) + "]"
        return expr(e, self.cx)

    def block(self, stmts, final, ind=1):
        pad = "  " * ind
        if not stmts:
            return pad + final
        s, rest = stmts[0], stmts[1:]
        cont = lambda: self.block(rest, final, ind)
        # docstrings / logging
        if isinstance(s, ast.Expr) and isinstance(s.value, ast.Constant):
            return cont()
        if isinstance(s, ast.Expr) and isinstance(s.value, ast.Call):
            f = ast.unparse(s.value.func)
            if f.startswith("logger.") or f.startswith("self.logger."):
                return cont()
            if f in self.capture_calls:
                name = self.capture_calls[f]
                args = s.value.args
                val = expr(args[0], self.cx)
                return f"{pad}let {name} := {val} in\n" + cont()
            if f.endswith(".append") and isinstance(s.value.func.value, ast.Name):
                x = ident(s.value.func.value.id)
                return f"{pad}let {x} := {x} ++ [{self.texpr(s.value.args[0])}] in\n" + cont()
            raise Unsupported("call statement " + ast.unparse(s)[:60])
        if isinstance(s, ast.Assign) and len(s.targets) == 1:
            t = s.targets[0]
            if isinstance(t, ast.Name) and t.id in self.skip:
                return cont()
            if isinstance(t, ast.Name) and isinstance(s.value, ast.JoinedStr):
                return cont()
            if isinstance(t, ast.Tuple) and isinstance(s.value, ast.Call) and ast.unparse(s.value.func) == "divmod":
                a, b = (expr(x, self.cx) for x in s.value.args)
                q, r = (ident(e.id) for e in t.elts)
                return f"{pad}let '({q}, {r}) := py_divmod {a} {b} in\n" + cont()
            if isinstance(t, ast.Name):
                return f"{pad}let {ident(t.id)} := {self.texpr(s.value)} in\n" + cont()
            raise Unsupported("assign " + ast.unparse(s)[:60])
        if isinstance(s, ast.AugAssign) and isinstance(s.target, ast.Name) and type(s.op) in BIN:
            x = ident(s.target.id)
            return f"{pad}let {x} := ({x} {BIN[type(s.op)]} {expr(s.value, self.cx)}) in\n" + cont()
        if isinstance(s, ast.If):
            body = [b for b in s.body if not (isinstance(b, ast.Assign) and (isinstance(b.value, ast.JoinedStr) or
                                                                     (isinstance(b.value, ast.Constant) and isinstance(b.value.value, str))))]
            if body and isinstance(body[-1], ast.Raise):
                if len(body) != 1 or s.orelse:
                    raise Unsupported("raise branch with other statements")
                exc = ast.unparse(body[-1].exc.func) if isinstance(body[-1].exc, ast.Call) else ast.unparse(body[-1].exc)
                if exc != "ValueError":
                    raise Unsupported("raise of " + exc)
                return f"{pad}if {bexpr(s.test, self.cx)} then None else\n" + cont()
            names = _assigned_simple(body)
            for n in _assigned_simple(s.orelse):
                if n not in names:
                    names.append(n)
            if s.test and isinstance(s.test, ast.Attribute):
                raise Unsupported("attribute test " + ast.unparse(s.test))
            tb = self.block(body, tupv(names), ind + 2)
            eb = self.block(s.orelse, tupv(names), ind + 2) if s.orelse else "  " * (ind + 2) + tupv(names)
            return f"{pad}let {tup(names)} := if {bexpr(s.test, self.cx)} then (\n{tb}) else (\n{eb}) in\n" + cont()
        raise Unsupported("statement " + type(s).__name__ + ": " + ast.unparse(s)[:60])


def _method(repo, relpath, cls, name):
    mod = ast.parse(open(f"{repo}/{relpath}").read())
    for node in mod.body:
        if isinstance(node, ast.ClassDef) and node.name == cls:
            for f in node.body:
                if isinstance(f, ast.FunctionDef) and f.name == name:
                    return f
    raise Unsupported(f"{cls}.{name} not found in {relpath}")


def _slice_stmts(fn, first_pred, last_pred):
    body = fn.body
    i0 = next((i for i, s in enumerate(body) if first_pred(s)), None)
    i1 = next((i for i, s in enumerate(body) if last_pred(s)), None)
    if i0 is None or i1 is None or i1 < i0:
        raise Unsupported(f"{fn.name}: anchor statements not found")
    return body[i0:i1 + 1], body[i1 + 1:]


def gen_plan(repo="/repo"):
    """Gen/Plan.v: the block plan of FilReader.read_plan and PFITSReader.read_plan, and the seek arithmetic of
    FileReader._seek_set / cur_data_pos_stream."""
    out = ["(* GENERATED by tools/py2coq from sigpyproc/readers.py and sigpyproc/io/fileio.py -- do not edit *)",
           "From Coq Require Import ZArith List Bool.", "Require Import SPP.Base.Rt.", "Import ListNotations.", "Open Scope Z_scope.", ""]
    errors = []
    attr = {"self.header.nchans": "nchans", "self.samp_stride": "samp_stride", "self.header.nsamples": "hdr_nsamples",
            "self._file.sinfo.get_combined('datalen')": "stream_nbytes"}
    for cls, defname in (("FilReader", "fil_plan"), ("PFITSReader", "pfits_plan")):
        try:
            fn = _method(repo, "sigpyproc/readers.py", cls, "read_plan")
            is_first = lambda s: isinstance(s, ast.Assign) and ast.unparse(s).startswith("gulp = min(")
            def is_last(s):
                return isinstance(s, ast.If) and "blocks.append" in ast.unparse(s)
            stmts, after = _slice_stmts(fn, is_first, is_last)
            # the statements before the plan: the defaults of the arguments.  `nsamps=None` means "to the end of the data":
            # translated into <defname>_nsamps; the progress-bar label is irrelevant; anything else is refused
            i0 = next(i for i, s_ in enumerate(fn.body) if is_first(s_))
            pre = [s_ for s_ in fn.body[:i0] if not (isinstance(s_, ast.Expr) and isinstance(s_.value, ast.Constant) and isinstance(s_.value.value, str))]
            a_ = fn.args
            dflt = dict(zip([x.arg for x in a_.args][len(a_.args) - len(a_.defaults):], a_.defaults))
            if "nsamps" not in dflt or ast.unparse(dflt["nsamps"]) != "None" or ast.unparse(dflt.get("start", ast.Constant(1))) != "0" \
                    or ast.unparse(dflt.get("skipback", ast.Constant(1))) != "0":
                raise Unsupported(f"{cls}.read_plan: defaults of start/nsamps/skipback changed: " + ", ".join(f"{k}={ast.unparse(v)}" for k, v in dflt.items()))
            ns_default = None
            for s_ in pre:
                if isinstance(s_, ast.If) and ast.unparse(s_.test) == "nsamps is None" and not s_.orelse and len(s_.body) == 1 \
                        and isinstance(s_.body[0], ast.Assign) and ast.unparse(s_.body[0].targets[0]) == "nsamps" and ns_default is None:
                    ns_default = expr(s_.body[0].value, Ctx([], attr_map=attr))
                elif isinstance(s_, ast.If) and ast.unparse(s_.test) == "description is None" and not s_.orelse \
                        and _assigned_simple(s_.body) == ["description"]:
                    continue
                else:
                    raise Unsupported(f"{cls}.read_plan: statement before the plan not recognised: " + ast.unparse(s_)[:80])
            if ns_default is None:
                raise Unsupported(f"{cls}.read_plan: no `if nsamps is None: nsamps = ...`")
            ns_params = [q for q in ("start", "hdr_nsamples") if re.search(r"\b" + q + r"\b", ns_default)]
            if re.sub(r"\b(start|hdr_nsamples)\b|[-+() 0-9]", "", ns_default):
                raise Unsupported(f"{cls}.read_plan: default nsamps uses something other than start and header.nsamples: " + ns_default)
            cx = Ctx([], attr_map=attr)
            sl = StraightLine(cx, skip_targets=("allocator", "read_buffer", "unpack_buffer", "data"),
                              capture_calls={"self._file.seek": "seek0"})
            # the buffer allocation `if self.bitsinfo.unpack:` only assigns skipped names
            stmts2 = []
            for s in stmts:
                if isinstance(s, ast.If) and ast.unparse(s.test) == "self.bitsinfo.unpack":
                    names = set(_assigned_simple(s.body) + _assigned_simple(s.orelse))
                    if names <= {"unpack_buffer", "data"}:
                        continue
                    raise Unsupported("buffer branch assigns " + str(names))
                stmts2.append(s)
            has_seek = any(isinstance(s, ast.Expr) and isinstance(s.value, ast.Call) and ast.unparse(s.value.func) == "self._file.seek" for s in stmts2)
            final = "Some (gulp, skipback, seek0, blocks)" if has_seek else "Some (gulp, skipback, blocks)"
            body = sl.block(stmts2, final)
            params = ["gulp", "start", "nsamps", "skipback"] + [x for x in cx.extra]
            ret = "option (Z * Z * Z * list (Z * Z * Z))" if has_seek else "option (Z * Z * list (Z * Z * Z))"
            out.append(f"(* from {cls}.read_plan: effective gulp, skipback, initial seek offset (bytes), blocks (ii, elements, skip elements) *)")
            out.append(f"Definition {defname} " + " ".join(f"({p} : Z)" for p in params) + f" : {ret} :=\n{body}.\n")
            out.append(f"(* from {cls}.read_plan: the nsamps argument; None (the default) is `if nsamps is None: nsamps = ...` *)")
            out.append(f"Definition {defname}_nsamps (start : Z) (nsamps : option Z) (hdr_nsamples : Z) : Z :=\n"
                       f"  match nsamps with Some nsamps => nsamps | None => {ns_default} end.\n")
            # the loop header must iterate over `blocks` unpacking (ii, block, skip)
            loop = next((s for s in after if isinstance(s, ast.For)), None)
            if loop is None or "blocks" not in ast.unparse(loop.iter) or ast.unparse(loop.target) != "(ii, block, skip)":
                raise Unsupported(f"{cls}.read_plan loop header changed: " + (ast.unparse(loop.iter) if loop else "none"))
            if cls == "FilReader":
                # the loop body is modelled by hand (Model/Plan.v plan_loop); refuse any statement the model was not written from
                expected_body = [
                    "logger.debug(",
                    "expected_nbytes = int(block * self.chan_stride)",
                    "nbytes = self._file.creadinto(memoryview(read_buffer)[:expected_nbytes], None if unpack_buffer is None else memoryview(unpack_buffer)[:block])",
                    "if nbytes != expected_nbytes:",
                    "if skip != 0:\n    self._file.seek(int(skip * self.chan_stride), whence=1)",
                    "yield (block // self.header.nchans, ii, data[:block])",
                ]
                got_body = [ast.unparse(s_) for s_ in loop.body]
                if len(got_body) != len(expected_body) or any(not g_.startswith(e_) for g_, e_ in zip(got_body, expected_body)):
                    raise Unsupported("FilReader.read_plan loop body differs from the text Model/Plan.v was written from: " + " | ".join(g_[:70] for g_ in got_body))
                if not isinstance(loop.body[3], ast.If) or not isinstance(loop.body[3].body[-1], ast.Raise) or "ValueError" not in ast.unparse(loop.body[3].body[-1]):
                    raise Unsupported("FilReader.read_plan: a byte-count mismatch no longer raises ValueError")
            out.append(f"(* {cls}.read_plan loop body (hand-modelled in Model/Plan.v; recorded here so a textual change is visible):")
            for s in loop.body:
                out.append("   " + ast.unparse(s).replace("*)", "* )").replace("(*", "( *").replace("\n", "\n   "))
            out.append("*)\n")
        except Unsupported as e:
            errors.append(f"{cls}.read_plan: {e}")
            out.append(f"(* UNSUPPORTED {cls}.read_plan: {str(e).replace('*)', '* )')} *)\n")
    # _seek_set
    try:
        fn = _method(repo, "sigpyproc/io/fileio.py", "FileReader", "_seek_set")
        txt = ast.unparse(fn)
        cx = Ctx([], attr_map={})
        expect = [
            "if offset < 0 or offset >= self.sinfo.get_combined('datalen'):",
            "fileid = np.where(offset < self.sinfo.cumsum_datalens)[0][0]",
            "self._seek2hdr(fileid)",
            "if fileid == 0:",
            "self.file_obj.seek(offset, os.SEEK_CUR)",
            "file_offset = offset - self.sinfo.cumsum_datalens[fileid - 1]",
            "self.file_obj.seek(file_offset, os.SEEK_CUR)",
        ]
        for e_ in expect:
            if e_ not in txt:
                raise Unsupported("_seek_set: expected line not found: " + e_)
        # translate the two conditions / expressions
        test = fn.body[0].test
        cx.attr_map = {}
        class R(ast.NodeTransformer):
            def visit_Call(self, node):
                if ast.unparse(node) == "self.sinfo.get_combined('datalen')":
                    return ast.Name(id="total")
                return self.generic_visit(node)
        cond = bexpr(R().visit(test), cx)
        out.append("(* from FileReader._seek_set: (file index, offset added to that file's header length) or ValueError *)")
        out.append("(* np.where(offset < cumsum)[0][0] is Rt.find_first_lt *)")
        out.append(f"Definition seek_set (offset total : Z) (cumsum : list Z) : option (Z * Z) :=\n"
                   f"  if {cond} then None else\n"
                   f"  let fileid := find_first_lt offset cumsum in\n"
                   f"  if (fileid =? 0) then Some (fileid, offset) else\n"
                   f"  let file_offset := (offset - (nth (Z.to_nat (fileid - 1)) cumsum 0)) in\n"
                   f"  Some (fileid, file_offset).\n")
        fn2 = _method(repo, "sigpyproc/io/fileio.py", "FileReader", "cur_data_pos_stream")
        t2 = ast.unparse(fn2)
        for e_ in ["if self.ifile_cur == 0:", "return self.cur_data_pos_file",
                   "return self.cur_data_pos_file + self.sinfo.cumsum_datalens[self.ifile_cur - 1]"]:
            if e_ not in t2:
                raise Unsupported("cur_data_pos_stream: expected line not found: " + e_)
        fn3 = _method(repo, "sigpyproc/io/fileio.py", "FileReader", "cur_data_pos_file")
        if "return self.file_obj.tell() - self.sinfo.entries[self.ifile_cur].hdrlen" not in ast.unparse(fn3):
            raise Unsupported("cur_data_pos_file changed")
        out.append("(* from FileReader.cur_data_pos_file / cur_data_pos_stream *)")
        out.append("Definition cur_data_pos_stream (ifile tell hdrlen : Z) (cumsum : list Z) : Z :=\n"
                   "  let cur_data_pos_file := (tell - hdrlen) in\n"
                   "  if (ifile =? 0) then cur_data_pos_file else (cur_data_pos_file + (nth (Z.to_nat (ifile - 1)) cumsum 0)).\n")
    except Unsupported as e:
        errors.append(f"seek: {e}")
        out.append(f"(* UNSUPPORTED seek: {str(e).replace('*)', '* )')} *)\n")
    try:
        # ---- the API layer of FileReader: where a freshly opened reader stands, how long the caller's buffer is taken to be,
        #      how many items a counted read of nunits units asks for (tied to Model/StreamApi.v)
        fb = [ast.unparse(x) for x in _method(repo, "sigpyproc/io/fileio.py", "FileBase", "__init__").body]
        if fb != ["self.files = files", "self.mode = mode", "self.opener = io.FileIO", "self.ifile_cur: int | None = None", "self._open(ifile=0)"]:
            raise Unsupported("FileBase.__init__ differs from the text Model/StreamApi.v raw_open was written from: " + " | ".join(fb))
        fi = [ast.unparse(x) for x in _method(repo, "sigpyproc/io/fileio.py", "FileReader", "__init__").body if not (isinstance(x, ast.Expr) and isinstance(x.value, ast.Constant))]
        head = ["self.sinfo = sinfo", "self.bitsinfo = BitsInfo(nbits)", "filenames = self.sinfo.get_info_list('filename')", "super().__init__(filenames, mode)"]
        if fi[:4] != head or len(fi) > 5:
            raise Unsupported("FileReader.__init__: unrecognised statements: " + " | ".join(fi))
        if len(fi) == 5:
            m_ = re.fullmatch(r"self\._seek2hdr\((\d+)\)", fi[4])
            if not m_:
                raise Unsupported("FileReader.__init__: unrecognised statement after super().__init__: " + fi[4])
            init_hdr = f"Some {int(m_.group(1))}"
        else:
            init_hdr = "None"
        out.append("(* from FileReader.__init__: the argument of the self._seek2hdr(k) that follows FileBase.__init__ (file 0 opened at raw offset 0), if any *)")
        out.append(f"Definition reader_init_seek2hdr : option Z := {init_hdr}.\n")
        tci = ast.unparse(_method(repo, "sigpyproc/io/fileio.py", "FileReader", "creadinto"))
        for e_ in ["nbytes_read = self.file_obj.readinto(read_buffer_view[nbytes:])", "if nbytes == len(read_buffer_view) or self.eos():",
                   "return nbytes"]:
            if e_ not in tci:
                raise Unsupported("creadinto: expected line not found: " + e_)
        if "read_buffer_view = memoryview(read_buffer).cast('B')" in tci:
            vlen = "(itemsize * nitems)"
        elif "read_buffer_view = memoryview(read_buffer)\n" in tci:
            vlen = "nitems"
        else:
            raise Unsupported("creadinto: the view of the caller's buffer is built in an unrecognised way")
        out.append("(* from FileReader.creadinto: len(read_buffer_view) for a caller's buffer of nitems items of itemsize bytes *)")
        out.append(f"Definition creadinto_view_len (itemsize nitems : Z) : Z := {vlen}.\n")
        tcr = ast.unparse(_method(repo, "sigpyproc/io/fileio.py", "FileReader", "cread"))
        for e_ in ["count = nunits // self.bitsinfo.bitfact", "if self.bitsinfo.unpack:",
                   "return unpack(data_ar, self.bitsinfo.nbits, bitorder=self.bitsinfo.bitorder)", "return data_ar"]:
            if e_ not in tcr:
                raise Unsupported("cread: expected line not found: " + e_)
        out.append("(* from FileReader.cread: the number of items of the file's dtype a counted read of nunits units asks for *)")
        out.append("Definition cread_count (nunits bitfact : Z) : Z := (nunits / bitfact).\n")
    except Unsupported as e:
        errors.append(f"reader api: {e}")
        out.append(f"(* UNSUPPORTED reader api: {str(e).replace('*)', '* )')} *)\n")
    return "\n".join(out), errors


# ----------------------------------------------------------------------------------------------
# streaming call sites of base.py (T3): per method, the read_plan arguments, the per-block body
# (kernel calls with their argument expressions), and the output length / finalisation expressions
# ----------------------------------------------------------------------------------------------

KERNEL_OUT = {  # kernel -> (positional index of the array it updates in place, arity)
    "extract_tim": (1, 5), "extract_bpass": (1, 4), "dedisperse": (1, 7), "mask_channels": (0, 5), "subband": (1, 8),
}
SITE_ATTR = {"self.header.nchans": "nchans", "self.header.nsamples": "hdr_nsamples"}


def _find_plan_loop(fn):
    for node in ast.walk(fn):
        if isinstance(node, ast.For) and isinstance(node.iter, ast.Call) and ast.unparse(node.iter.func) == "self.read_plan":
            return node
    raise Unsupported(f"{fn.name}: no loop over self.read_plan")


def _ifexp_nsamps(e, cx):
    """(A) if nsamps is None else B   ->  Coq if on the bool parameter nsamps_none"""
    if isinstance(e, ast.IfExp) and ast.unparse(e.test) == "nsamps is None":
        cx.add_extra("nsamps_none")
        return f"(if (nsamps_none =? 1) then {expr(e.body, cx)} else {expr(e.orelse, cx)})"
    return expr(e, cx)


def gen_site(fn, arrays, pre_names, out_array, delays_name=None):
    """translate one streaming reduction method; returns list of Coq definitions"""
    name = fn.name
    cx = Ctx(set(arrays), attr_map=dict(SITE_ATTR))
    defs = []
    loop = _find_plan_loop(fn)
    # statements before the loop that define integer quantities we need
    pre = {}
    for s in fn.body:
        if s is loop:
            break
        if isinstance(s, ast.Assign) and len(s.targets) == 1 and isinstance(s.targets[0], ast.Name) and s.targets[0].id in pre_names:
            pre[s.targets[0].id] = s.value
    missing = [n for n in pre_names if n not in pre]
    if missing:
        raise Unsupported(f"{name}: expected assignments not found: {missing}")
    # read_plan keyword arguments
    kw = {k.arg: k.value for k in loop.iter.keywords if k.arg is not None}
    for need in ("gulp", "start", "nsamps"):
        if need not in kw or ast.unparse(kw[need]) != need:
            raise Unsupported(f"{name}: read_plan argument {need} changed: " + (ast.unparse(kw[need]) if need in kw else "missing"))
    skip = ast.unparse(kw["skipback"]) if "skipback" in kw else "0"
    tgt = ast.unparse(loop.target)
    return cx, pre, kw, skip, tgt, loop


def gen_base_sites(repo="/repo"):
    out = ["(* GENERATED by tools/py2coq from sigpyproc/base.py -- do not edit *)",
           "From Coq Require Import ZArith List Bool.", "Require Import SPP.Base.Rt SPP.Gen.Kernels.", "Import ListNotations.", "Open Scope Z_scope.", ""]
    errors = []

    def method(nm):
        return _method(repo, "sigpyproc/base.py", "Filterbank", nm)

    def kernel_call(stmt, cx, expect_kernel):
        if not (isinstance(stmt, ast.Expr) and isinstance(stmt.value, ast.Call) and ast.unparse(stmt.value.func) == f"kernels.{expect_kernel}"):
            raise Unsupported(f"expected a call of kernels.{expect_kernel}, found: " + ast.unparse(stmt)[:80])
        if stmt.value.keywords:
            raise Unsupported("keyword arguments in kernel call")
        idx, arity = KERNEL_OUT[expect_kernel]
        if len(stmt.value.args) != arity:
            raise Unsupported(f"kernels.{expect_kernel} called with {len(stmt.value.args)} arguments")
        return [expr(a, cx) for a in stmt.value.args], idx

    # ---- collapse ----
    try:
        fn = method("collapse")
        cx, pre, kw, skip, tgt, loop = gen_site(fn, ["data", "tim_ar"], ["tim_len", "tim_ar"], "tim_ar")
        if skip != "0" or tgt != "(nsamps_r, ii, data)":
            raise Unsupported(f"collapse: plan skipback/target changed: {skip} {tgt}")
        if ast.unparse(pre["tim_ar"]) != "np.zeros(tim_len, dtype=np.float32)":
            raise Unsupported("collapse: tim_ar allocation changed: " + ast.unparse(pre["tim_ar"]))
        if len(loop.body) != 1:
            raise Unsupported("collapse: loop body changed")
        args, idx = kernel_call(loop.body[0], cx, "extract_tim")
        tl = _ifexp_nsamps(pre["tim_len"], cx)
        out.append("(* from Filterbank.collapse *)")
        out.append(f"Definition collapse_len (hdr_nsamples start nsamps nsamps_none : Z) : Z := {tl}.")
        out.append("Definition collapse_skipback : Z := 0.")
        out.append(f"Definition collapse_block (data tim_ar : arr) (nchans nsamps_r ii gulp : Z) : arr :=\n  extract_tim_run {' '.join(args)}.")
        ret = fn.body[-1]
        rt = ast.unparse(ret)
        m = re.search(r"new_header\((\{.*\})\)", rt, flags=re.S)
        out.append(f"(* returned header update: {m.group(1) if m else rt} *)\n")
        if not (m and "'nsamples': tim_len" in m.group(1)):
            raise Unsupported("collapse: returned header does not set nsamples to tim_len: " + rt[:120])
    except Unsupported as e:
        errors.append(f"collapse: {e}"); out.append(f"(* UNSUPPORTED collapse: {str(e).replace('*)', '* )')} *)\n")
    # ---- bandpass ----
    try:
        fn = method("bandpass")
        cx, pre, kw, skip, tgt, loop = gen_site(fn, ["data", "bpass_ar"], ["bpass_ar", "num_samples"], "bpass_ar")
        if skip != "0" or tgt != "(nsamps_r, _, data)":
            raise Unsupported(f"bandpass: plan skipback/target changed: {skip} {tgt}")
        if ast.unparse(pre["bpass_ar"]) != "np.zeros(self.header.nchans, dtype=np.float32)" or ast.unparse(pre["num_samples"]) != "0":
            raise Unsupported("bandpass: initialisation changed")
        if len(loop.body) != 2 or ast.unparse(loop.body[1]) != "num_samples += nsamps_r":
            raise Unsupported("bandpass: loop body changed")
        args, idx = kernel_call(loop.body[0], cx, "extract_bpass")
        after = [ast.unparse(s) for s in fn.body[fn.body.index(loop) + 1:]]
        if not after or after[0] != "bpass_ar /= num_samples":
            raise Unsupported("bandpass: final division changed: " + (after[0] if after else "none"))
        out.append("(* from Filterbank.bandpass; the final `bpass_ar /= num_samples` divides the accumulated sums by the samples seen *)")
        out.append("Definition bandpass_skipback : Z := 0.")
        out.append(f"Definition bandpass_block (data bpass_ar : arr) (num_samples nchans nsamps_r : Z) : arr * Z :=\n  (extract_bpass_run {' '.join(args)}, (num_samples + nsamps_r)).\n")
    except Unsupported as e:
        errors.append(f"bandpass: {e}"); out.append(f"(* UNSUPPORTED bandpass: {str(e).replace('*)', '* )')} *)\n")
    # ---- dedisperse ----
    try:
        fn = method("dedisperse")
        cx, pre, kw, skip, tgt, loop = gen_site(fn, ["data", "tim_ar", "chan_delays"], ["chan_delays", "max_delay", "gulp", "tim_len", "tim_ar"], "tim_ar")
        if skip != "max_delay" or tgt != "(nsamps_r, ii, data)":
            raise Unsupported(f"dedisperse: plan skipback/target changed: {skip} {tgt}")
        cd_assigns = [ast.unparse(s_.value) for s_ in fn.body if isinstance(s_, ast.Assign) and ast.unparse(s_.targets[0]) == "chan_delays"]
        # delays from the dispersion law, shifted to be non-negative (the theorems take an arbitrary vector 0 <= d_c <= max_delay)
        if ast.unparse(pre["max_delay"]) != "int(chan_delays.max())" or cd_assigns not in (
                ["self.header.get_dmdelays(dm)"], ["self.header.get_dmdelays(dm)", "chan_delays - min(0, int(chan_delays.min()))"]):
            raise Unsupported("dedisperse: delay computation changed: " + "; ".join(cd_assigns))
        if ast.unparse(pre["tim_ar"]) != "np.zeros(tim_len, dtype=np.float32)":
            raise Unsupported("dedisperse: tim_ar allocation changed")
        if len(loop.body) != 1:
            raise Unsupported("dedisperse: loop body changed")
        args, idx = kernel_call(loop.body[0], cx, "dedisperse")
        # names defined before tim_len that it may use
        sel = None
        for s in fn.body:
            if isinstance(s, ast.Assign) and ast.unparse(s.targets[0]) == "nsamps_sel":
                sel = s.value
        cx2 = Ctx(set(), attr_map=dict(SITE_ATTR))
        lets = ""
        if sel is not None:
            lets = f"let nsamps_sel := {_ifexp_nsamps(sel, cx2)} in "
        out.append("(* from Filterbank.dedisperse *)")
        out.append(f"Definition dedisperse_gulp (max_delay gulp : Z) : Z := {expr(pre['gulp'], cx2)}.")
        out.append(f"Definition dedisperse_len (hdr_nsamples start nsamps nsamps_none max_delay : Z) : Z := {lets}{expr(pre['tim_len'], cx2)}.")
        out.append("Definition dedisperse_skipback (max_delay : Z) : Z := max_delay.")
        # the delay handed to the kernel for a law delay d, given the smallest law delay of the band (chan_delays.min()):
        # `chan_delays = chan_delays - min(0, int(chan_delays.min()))` when the source has that line, the law delay itself otherwise
        if len(cd_assigns) == 2:
            out.append("Definition dedisperse_norm (chan_delays_min d : Z) : Z := (d - (Z.min 0 chan_delays_min)).")
        else:
            out.append("Definition dedisperse_norm (chan_delays_min d : Z) : Z := d.")
        out.append(f"Definition dedisperse_block (data tim_ar chan_delays : arr) (max_delay nchans nsamps_r ii gulp : Z) : arr :=\n  dedisperse_run {' '.join(args)}.\n")
    except Unsupported as e:
        errors.append(f"dedisperse: {e}"); out.append(f"(* UNSUPPORTED dedisperse: {str(e).replace('*)', '* )')} *)\n")
    # ---- read_chan ----
    try:
        fn = method("read_chan")
        cx, pre, kw, skip, tgt, loop = gen_site(fn, ["data", "tim_ar"], ["tim_len", "tim_ar"], "tim_ar")
        if skip != "0" or tgt != "(nsamps_r, ii, data)":
            raise Unsupported(f"read_chan: plan skipback/target changed: {skip} {tgt}")
        if ast.unparse(pre["tim_ar"]) != "np.empty(tim_len, dtype=np.float32)":
            raise Unsupported("read_chan: tim_ar allocation changed")
        body = [ast.unparse(s) for s in loop.body]
        if len(body) != 2 or body[0] != "data_2d = data.reshape(nsamps_r, self.header.nchans)":
            raise Unsupported("read_chan: loop body changed: " + "; ".join(body))
        st = loop.body[1]
        if not (isinstance(st, ast.Assign) and isinstance(st.targets[0], ast.Subscript) and ast.unparse(st.targets[0].value) == "tim_ar"
                and isinstance(st.targets[0].slice, ast.Slice) and st.targets[0].slice.step is None and ast.unparse(st.value) == "data_2d[:, ichan]"):
            raise Unsupported("read_chan: slice assignment changed: " + body[1])
        lo, hi = expr(st.targets[0].slice.lower, cx), expr(st.targets[0].slice.upper, cx)
        tl = _ifexp_nsamps(pre["tim_len"], cx)
        out.append("(* from Filterbank.read_chan: tim_ar[lo:hi] = data.reshape(nsamps_r, nchans)[:, ichan]  (np.empty output: junk) *)")
        out.append(f"Definition read_chan_len (hdr_nsamples start nsamps nsamps_none : Z) : Z := {tl}.")
        out.append(f"Definition read_chan_block (data tim_ar : arr) (nchans nsamps_r ii gulp ichan : Z) : arr :=\n"
                   f"  let lo := {lo} in let hi := {hi} in\n"
                   f"  iter (Z.to_nat (hi - lo)) (fun k tim_ar => upd tim_ar (lo + k) (data (k * nchans + ichan))) tim_ar.\n")
    except Unsupported as e:
        errors.append(f"read_chan: {e}"); out.append(f"(* UNSUPPORTED read_chan: {str(e).replace('*)', '* )')} *)\n")
    # ---- compute_stats: which sample count normalises the moments ----
    try:
        for nm in ("compute_stats", "compute_stats_basic"):
            fn = method(nm)
            txt = ast.unparse(fn)
            if "bag = ChannelStats(self.header.nchans, nsamps_sel)" not in txt or \
               "nsamps_sel = self.header.nsamples - start if nsamps is None else nsamps" not in txt:
                raise Unsupported(f"{nm}: ChannelStats is not built with the number of selected samples")
            if "bag.push_data(data, ii, mode=" not in txt:
                raise Unsupported(f"{nm}: push_data call changed")
        out.append("(* from Filterbank.compute_stats(_basic): ChannelStats(nchans, nsamps_sel), nsamps_sel = (hdr_nsamples - start) if nsamps is None else nsamps *)")
        out.append("Definition stats_divisor (hdr_nsamples start nsamps nsamps_none : Z) : Z := (if (nsamps_none =? 1) then (hdr_nsamples - start) else nsamps).\n")
    except Unsupported as e:
        errors.append(f"compute_stats: {e}"); out.append(f"(* UNSUPPORTED compute_stats: {str(e).replace('*)', '* )')} *)\n")
    return "\n".join(out), errors


def gen_transform_sites(repo="/repo"):
    """Gen/TransformSites.v: per-block functions of the file-to-file transforms of base.py.  Each returns the array handed
    to FileWriter.cwrite and the number of elements written."""
    out = ["(* GENERATED by tools/py2coq from sigpyproc/base.py -- do not edit *)",
           "From Coq Require Import ZArith List Bool.", "Require Import SPP.Base.Rt SPP.Gen.Kernels.", "Import ListNotations.", "Open Scope Z_scope.", "",
           "(* contract of read_plan (C01 block_ok): the yielded array holds nsamps_r * nchans elements *)",
           "Definition data_size (nchans nsamps_r : Z) : Z := nsamps_r * nchans.", ""]
    errors = []
    KERNEL_OUT.update({"invert_freq": (None, 3), "downsample_2d_mean_flat": (None, 5)})

    def method(nm):
        return _method(repo, "sigpyproc/base.py", "Filterbank", nm)

    def plan_site(fn, expect_skip, expect_tgt):
        loop = _find_plan_loop(fn)
        kw = {k.arg: k.value for k in loop.iter.keywords if k.arg is not None}
        for need in ("gulp", "start", "nsamps"):
            if need not in kw or ast.unparse(kw[need]) != need:
                raise Unsupported(f"{fn.name}: read_plan argument {need} changed")
        skip = ast.unparse(kw["skipback"]) if "skipback" in kw else "0"
        if skip != expect_skip:
            raise Unsupported(f"{fn.name}: skipback is {skip}, expected {expect_skip}")
        if ast.unparse(loop.target) not in expect_tgt:
            raise Unsupported(f"{fn.name}: loop target {ast.unparse(loop.target)}")
        # nothing but the header is written before the loop, and the output is never sought/truncated
        txt = ast.unparse(fn)
        for bad in (".seek(", ".truncate(", "edit_header"):
            if bad in txt:
                raise Unsupported(f"{fn.name}: output is repositioned/patched ({bad})")
        return loop

    def args_of(stmt, kernel, cx, assign_to=None):
        call = stmt.value if isinstance(stmt, (ast.Expr, ast.Assign)) else None
        if assign_to is not None:
            if not (isinstance(stmt, ast.Assign) and ast.unparse(stmt.targets[0]) == assign_to):
                raise Unsupported(f"expected `{assign_to} = kernels.{kernel}(...)`, found " + ast.unparse(stmt)[:80])
        elif not isinstance(stmt, ast.Expr):
            raise Unsupported(f"expected a call statement of kernels.{kernel}, found " + ast.unparse(stmt)[:80])
        if not (isinstance(call, ast.Call) and ast.unparse(call.func) == f"kernels.{kernel}") or call.keywords:
            raise Unsupported(f"expected kernels.{kernel}(...), found " + ast.unparse(stmt)[:80])
        if len(call.args) != KERNEL_OUT[kernel][1]:
            raise Unsupported(f"kernels.{kernel} called with {len(call.args)} arguments")
        return [expr(a, cx) for a in call.args]

    def cwrite_arg(stmt, sizes, cx):
        if not (isinstance(stmt, ast.Expr) and isinstance(stmt.value, ast.Call) and ast.unparse(stmt.value.func) == "out_file.cwrite" and len(stmt.value.args) == 1):
            raise Unsupported("expected out_file.cwrite(...), found " + ast.unparse(stmt)[:80])
        a = stmt.value.args[0]
        if isinstance(a, ast.Name) and a.id in sizes:
            return a.id, sizes[a.id]
        if (isinstance(a, ast.Subscript) and isinstance(a.value, ast.Name) and isinstance(a.slice, ast.Slice) and a.slice.lower is None
                and a.slice.step is None and a.slice.upper is not None):
            return a.value.id, expr(a.slice.upper, cx)
        raise Unsupported("cwrite argument " + ast.unparse(a))

    cxn = lambda arrays: Ctx(set(arrays), attr_map=dict(SITE_ATTR))
    # ---- invert_freq
    try:
        fn = method("invert_freq")
        loop = plan_site(fn, "0", ("(nsamps_r, _, data)",))
        cx = cxn(["data"])
        if len(loop.body) != 2:
            raise Unsupported("invert_freq: loop body changed")
        a = args_of(loop.body[0], "invert_freq", cx, assign_to="out_ar")
        name, size = cwrite_arg(loop.body[1], {"out_ar": f"(invert_freq_size (data_size nchans nsamps_r) {a[1]} {a[2]})", "data": "(data_size nchans nsamps_r)"}, cx)
        out.append("(* from Filterbank.invert_freq *)")
        out.append(f"Definition invert_block (junk_outarray data : arr) (nchans nsamps_r : Z) : arr * Z :=\n"
                   f"  let out_ar := invert_freq_run junk_outarray {' '.join(a)} in ({name}, {size}).\n")
    except Unsupported as e:
        errors.append(f"invert_freq: {e}"); out.append(f"(* UNSUPPORTED invert_freq: {str(e).replace('*)', '* )')} *)\n")
    # ---- apply_channel_mask
    try:
        fn = method("apply_channel_mask")
        loop = plan_site(fn, "0", ("(nsamps_r, _ii, data)", "(nsamps_r, _, data)"))
        cx = cxn(["data", "mask"])
        if len(loop.body) != 2:
            raise Unsupported("apply_channel_mask: loop body changed")
        a = args_of(loop.body[0], "mask_channels", cx)
        name, size = cwrite_arg(loop.body[1], {"data": "(data_size nchans nsamps_r)"}, cx)
        if a[0] != "data" or name != "data":
            raise Unsupported("apply_channel_mask: the masked array is not the one written")
        out.append("(* from Filterbank.apply_channel_mask *)")
        out.append(f"Definition mask_block (data mask : arr) (mask_value nchans nsamps_r : Z) : arr * Z :=\n"
                   f"  let data := mask_channels_run {' '.join(a)} in ({name}, {size}).\n")
    except Unsupported as e:
        errors.append(f"apply_channel_mask: {e}"); out.append(f"(* UNSUPPORTED apply_channel_mask: {str(e).replace('*)', '* )')} *)\n")
    # ---- extract_samps
    try:
        fn = method("extract_samps")
        loop = plan_site(fn, "0", ("(_, _, data)", "(nsamps_r, _, data)"))
        cx = cxn(["data"])
        if len(loop.body) != 1:
            raise Unsupported("extract_samps: loop body changed")
        name, size = cwrite_arg(loop.body[0], {"data": "(data_size nchans nsamps_r)"}, cx)
        out.append("(* from Filterbank.extract_samps *)")
        out.append(f"Definition samps_block (data : arr) (nchans nsamps_r : Z) : arr * Z := ({name}, {size}).\n")
    except Unsupported as e:
        errors.append(f"extract_samps: {e}"); out.append(f"(* UNSUPPORTED extract_samps: {str(e).replace('*)', '* )')} *)\n")
    # ---- downsample
    try:
        fn = method("downsample")
        loop = plan_site(fn, "0", ("(nsamps_r, _ii, data)", "(nsamps_r, _, data)"))
        cx = cxn(["data"])
        txt = ast.unparse(fn)
        if "gulp = int(np.ceil(gulp / tfactor) * tfactor)" not in txt:
            raise Unsupported("downsample: gulp is no longer rounded up to a multiple of tfactor with int(np.ceil(gulp / tfactor) * tfactor)")
        if "if self.header.nchans % ffactor != 0:" not in txt:
            raise Unsupported("downsample: ffactor divisibility check changed")
        if len(loop.body) != 2:
            raise Unsupported("downsample: loop body changed")
        a = args_of(loop.body[0], "downsample_2d_mean_flat", cx, assign_to="write_ar")
        name, size = cwrite_arg(loop.body[1], {"write_ar": f"(downsample_2d_mean_flat_size {' '.join(a[1:])})"}, cx)
        out.append("(* from Filterbank.downsample; gulp = int(np.ceil(gulp / tfactor) * tfactor) *)")
        out.append("Definition downsample_gulp (gulp tfactor : Z) : Z := ((gulp + tfactor - 1) / tfactor) * tfactor.")
        out.append(f"Definition downsample_block (divcast : Z -> Z -> Z) (junk_result data : arr) (tfactor ffactor nchans nsamps_r : Z) : arr * Z :=\n"
                   f"  let write_ar := downsample_2d_mean_flat_run divcast junk_result {' '.join(a)} in ({name}, {size}).\n")
    except Unsupported as e:
        errors.append(f"downsample: {e}"); out.append(f"(* UNSUPPORTED downsample: {str(e).replace('*)', '* )')} *)\n")
    # ---- subband
    try:
        fn = method("subband")
        loop = plan_site(fn, "max_delay", ("(nsamps_r, _ii, data)", "(nsamps_r, _, data)"))
        cx = cxn(["data", "out_ar", "chan_delays", "chan_to_sub"])
        txt = ast.unparse(fn)
        for need in ("subfactor = self.header.nchans // nsub", "max_delay = int(chan_delays.max())", "gulp = max(2 * max_delay, gulp)",
                     "chan_to_sub = np.arange(self.header.nchans, dtype='int32') // subfactor"):
            if need not in txt:
                raise Unsupported("subband: expected line not found: " + need)
        if len(loop.body) != 3:
            raise Unsupported("subband: loop body changed (expected: clear accumulator, kernel, cwrite)")
        z = loop.body[0]
        if not (isinstance(z, ast.Assign) and isinstance(z.targets[0], ast.Subscript) and ast.unparse(z.targets[0].value) == "out_ar"
                and isinstance(z.targets[0].slice, ast.Slice) and z.targets[0].slice.lower is None and ast.unparse(z.value) == "0"):
            raise Unsupported("subband: accumulator is not cleared before the kernel: " + ast.unparse(z)[:80])
        zlen = expr(z.targets[0].slice.upper, cx)
        a = args_of(loop.body[1], "subband", cx)
        name, size = cwrite_arg(loop.body[2], {}, cx)
        out.append("(* from Filterbank.subband; chan_to_sub = arange(nchans) // (nchans // nsub) *)")
        out.append("Definition subband_gulp (max_delay gulp : Z) : Z := Z.max (2 * max_delay) gulp.")
        out.append("Definition subband_chan_to_sub (nchans nsub : Z) : arr := fun c => c / (nchans / nsub).")
        out.append(f"Definition subband_block (out_ar data chan_delays chan_to_sub : arr) (max_delay nchans nsub nsamps_r : Z) : arr * Z :=\n"
                   f"  let out_ar := zero_prefix out_ar {zlen} in\n"
                   f"  let out_ar := subband_run {' '.join(a)} in ({name}, {size}).\n")
    except Unsupported as e:
        errors.append(f"subband: {e}"); out.append(f"(* UNSUPPORTED subband: {str(e).replace('*)', '* )')} *)\n")
    # ---- extract_chans / extract_bands (column selections; template checked)
    try:
        fn = method("extract_chans")
        plan_site(fn, "0", ("(nsamps_r, _, data)",))
        txt = ast.unparse(fn)
        for need in ("data_2d = data.reshape(nsamps_r, self.header.nchans)", "out_file.cwrite(data_2d[:, batch_chans[ifile]])",
                     # batching of the output files (the theorems of Proofs/C07_batches.v are about exactly this loop structure)
                     "nchans_extract = len(chans)", "filenames = [f'{outfile_base}_chan{chan:04d}.tim' for chan in chans]",
                     "for batch_start in range(0, nchans_extract, batch_size):", "batch_end = min(batch_start + batch_size, nchans_extract)",
                     "batch_chans = chans[batch_start:batch_end]", "batch_files = filenames[batch_start:batch_end]",
                     "for chan, filename in zip(batch_chans, batch_files, strict=True)]", "for ifile, out_file in enumerate(out_files):",
                     "return filenames"):
            if need not in txt:
                raise Unsupported("extract_chans: expected line not found: " + need)
        out.append("(* the output files are opened in batches: for batch_start in range(0, n, batch_size): batch_end = min(batch_start + batch_size, n);")
        out.append("   files batch_start .. batch_end - 1 of the returned list are written while the batch is open *)")
        out.append("Definition batch_end (batch_start batch_size n : Z) : Z := Z.min (batch_start + batch_size) n.")
        out.append("(* from Filterbank.extract_chans: batch_chans = chans[batch_start:batch_end]; file ifile of the batch is filenames[batch_start + ifile]")
        out.append("   and receives channel batch_chans[ifile] = chans[batch_start + ifile] *)")
        out.append("Definition chans_batch_index (batch_start ifile : Z) : Z := batch_start + ifile.")
        out.append("(* from Filterbank.extract_chans: file for channel chan receives data.reshape(nsamps_r, nchans)[:, chan] *)")
        out.append("Definition chans_block (data : arr) (nchans nsamps_r chan : Z) : arr * Z := ((fun k => data (k * nchans + chan)), nsamps_r).\n")
        fn = method("extract_bands")
        plan_site(fn, "0", ("(nsamps_r, _ii, data)", "(nsamps_r, _, data)"))
        txt = ast.unparse(fn)
        for need in ("nsub = nchans // chanpersub", "data_2d = data.reshape(nsamps_r, self.header.nchans)",
                     "subband_ar = data_2d[:, iband_chanstart:iband_chanstart + chanpersub]", "out_file.cwrite(subband_ar.ravel())",
                     "filenames = [f'{outfile_base}_sub{isub:02d}.fil' for isub in range(nsub)]",
                     "for batch_start in range(0, nsub, batch_size):", "batch_end = min(batch_start + batch_size, nsub)",
                     "batch_files = filenames[batch_start:batch_end]", "for i, filename in enumerate(batch_files)]",
                     "for ifile, out_file in enumerate(out_files):", "return filenames"):
            if need not in txt:
                raise Unsupported("extract_bands: expected line not found: " + need)
        # first channel of the band that file ifile of a batch receives: TRANSLATED (not template-matched), Proofs/C07_batches.v proves it
        # is chanstart + (index of the file in the returned list) * chanpersub
        c0s = [n_.value for n_ in ast.walk(fn) if isinstance(n_, ast.Assign) and len(n_.targets) == 1 and ast.unparse(n_.targets[0]) == "iband_chanstart"]
        if len(c0s) != 1:
            raise Unsupported("extract_bands: expected exactly one assignment to iband_chanstart")
        free = {n_.id for n_ in ast.walk(c0s[0]) if isinstance(n_, ast.Name)}
        if not free <= {"chanstart", "chanpersub", "batch_start", "ifile"}:
            raise Unsupported("extract_bands: iband_chanstart depends on " + ", ".join(sorted(free)))
        c0 = expr(c0s[0], Ctx(set()))
        out.append("(* from Filterbank.extract_bands: first channel of the band written to file ifile of the batch starting at batch_start *)")
        out.append(f"Definition bands_batch_c0 (chanstart chanpersub batch_start ifile : Z) : Z := {c0}.")
        out.append("(* from Filterbank.extract_bands: band iband receives data.reshape(nsamps_r, nchans)[:, c0:c0+chanpersub].ravel(), c0 = chanstart + iband*chanpersub *)")
        out.append("Definition bands_count (nchans_sel chanpersub : Z) : Z := nchans_sel / chanpersub.")
        out.append("Definition bands_block (data : arr) (nchans nsamps_r chanstart chanpersub iband : Z) : arr * Z :=\n"
                   "  let c0 := chanstart + iband * chanpersub in\n"
                   "  ((fun k => data ((k / chanpersub) * nchans + c0 + k mod chanpersub)), nsamps_r * chanpersub).\n")
    except Unsupported as e:
        errors.append(f"extract: {e}"); out.append(f"(* UNSUPPORTED extract: {str(e).replace('*)', '* )')} *)\n")
    # ---- remove_zerodm (the output buffer persists between blocks; bpass/chanwts are computed once, before the loop)
    try:
        KERNEL_OUT["remove_zerodm"] = (1, 6)
        fn = method("remove_zerodm")
        loop = plan_site(fn, "0", ("(nsamps_r, _ii, data)", "(nsamps_r, _, data)"))
        cx = cxn(["data", "out_ar", "bpass", "chanwts"])
        txt = ast.unparse(fn)
        for need in ("bpass = self.bandpass(**plan_kwargs).data", "chanwts = bpass / bpass.sum()"):
            if need not in txt:
                raise Unsupported("remove_zerodm: expected line not found: " + need)
        if len(loop.body) != 2:
            raise Unsupported("remove_zerodm: loop body changed (expected: kernel, cwrite)")
        a = args_of(loop.body[0], "remove_zerodm", cx)
        name, size = cwrite_arg(loop.body[1], {}, cx)
        if a[1] != "out_ar" or name != "out_ar":
            raise Unsupported("remove_zerodm: the array the kernel fills is not the one written")
        out.append("(* from Filterbank.remove_zerodm; bpass = self.bandpass().data, chanwts = bpass / bpass.sum() *)")
        out.append(f"Definition zerodm_block (out_ar data bpass chanwts : arr) (nchans nsamps_r : Z) : arr * Z :=\n"
                   f"  let out_ar := remove_zerodm_run {' '.join(a)} in ({name}, {size}).\n")
    except Unsupported as e:
        errors.append(f"remove_zerodm: {e}"); out.append(f"(* UNSUPPORTED remove_zerodm: {str(e).replace('*)', '* )')} *)\n")
    return "\n".join(out), errors


GENERATORS = {"Kernels.v": gen_kernels, "Plan.v": gen_plan, "BaseSites.v": gen_base_sites, "TransformSites.v": gen_transform_sites}

# further generators live in tools/py2coq/gen_*.py, each exporting GENERATORS = {"File.v": fn(repo) -> (text, errors)}
import glob as _glob
import importlib.util as _ilu
import os as _os
for _p in sorted(_glob.glob(_os.path.join(_os.path.dirname(_os.path.abspath(__file__)), "gen_*.py"))):
    _spec = _ilu.spec_from_file_location(_os.path.basename(_p)[:-3], _p)
    _m = _ilu.module_from_spec(_spec)
    try:
        _spec.loader.exec_module(_m)
        GENERATORS.update(getattr(_m, "GENERATORS", {}))
    except Exception as _e:  # a broken generator module makes its files fail closed
        _name = _os.path.basename(_p)
        GENERATORS[f"BROKEN_{_name[:-3]}.v"] = (lambda repo, _n=_name, _e=_e: (f"(* generator module {_n} failed to load *)\n", [f"{_n}: {_e}"]))


if __name__ == "__main__":
    import sys
    for fname, g in GENERATORS.items():
        t, errs = g(sys.argv[1] if len(sys.argv) > 1 else "/repo")
        print(t)
        for e in errs:
            print("ERROR", e, file=sys.stderr)
