"""py2coq plug-in for C19 (parallel kernels are schedule independent): Gen/C19Threads.v.

Read from the ast of sigpyproc/core/kernels.py (fresh on every run):
  * the set of kernels compiled with parallel=True (decorator `@njit(..., parallel=True)` or an assignment
    `x = njit(f.py_func, parallel=True, ...)`); it must be exactly the set this check has footprint proofs for
    (plus the ones named in OUT_OF_SCOPE) -- a new parallel kernel is an error (fail closed);
  * for each of them the statement list of the function: scalar statements before the parallel loop, a sequential
    prefix touching arrays (`<k>_pre`), the ONE `prange` loop (its variable `<k>_pvar`, its trip count `<k>_trip`) and
    its BODY, which is translated load by load and store by store into a `cmd unit` term of Model/C19_Prog.v,
    parameterised by the value of the prange variable (`<k>_body`, `<k>_thread`).
    Arrays live in one memory, addressed by (array id, flat index); every array name of the kernel gets an id
    `<k>_ID_<name>`; a record array (moments_dtype) is addressed by  nfields * record + field number.
    Inner `for v in range(e)` loops become `for_`, local scalars that are carried round a loop become its state,
    `if` on a loaded value becomes a Coq `if` on the value the load returned (value-dependent control),
    `a[i] op= e` is a load of a[i], the loads of e, then a store.  True division is the parameter `divcast`.
  * update_moments / update_moments_basic as pure functions (`<f>_fn`).
  * the fastmath / locals options with which the two decimation aliases (`downsample_*_parallel`) and their serial twins are
    compiled: `<k>_fastmath`, `<k>_recip_division` (does fastmath allow `arcp`, i.e. x / n -> x * (1 / n)); an alias that may use
    reciprocal division, or that differs from its twin, is an error.
Read from sigpyproc/base.py: how Filterbank.subband builds `chan_to_sub` (`subband_site_chan_to_sub`) and the argument
positions at which it and `nsub` are passed to kernels.subband, plus the ValueError guards on `nsub` that precede the call.

Anything outside the accepted subset raises Unsupported: the file then lacks the definition and every proof about
that kernel stops compiling."""
from __future__ import annotations

import ast

REL = "sigpyproc/core/kernels.py"
BASE = "sigpyproc/base.py"

# kernels this check has footprint proofs for
KNOWN = ["downsample_1d_mean_parallel", "downsample_2d_mean_parallel", "extract_tim", "extract_bpass", "mask_channels",
         "dedisperse", "invert_freq", "subband", "remove_zerodm", "compute_online_moments", "compute_online_moments_basic"]
# compiled parallel but not among the kernels the property enumerates
OUT_OF_SCOPE = {"simulate_ism": "simulation helper (FFT convolutions per channel); not enumerated by C19, not modelled"}
PURE = ["update_moments", "update_moments_basic"]

BIN = {ast.Add: "+", ast.Sub: "-", ast.Mult: "*"}
CMP = {ast.Lt: "<?", ast.LtE: "<=?", ast.Gt: ">?", ast.GtE: ">=?", ast.Eq: "=?"}
RESERVED = {"arr": "arr_", "end": "end_", "at": "at_", "in": "in_", "fun": "fun_", "mod": "mod_", "iter": "iter_",
            "Type": "Type_", "Set": "Set_", "Prop": "Prop_", "as": "as_", "val": "val_", "rd": "rd_", "wr": "wr_",
            "bind": "bind_", "for_": "for__", "mem": "mem_", "loc": "loc_", "step": "step_", "exec": "exec_", "max": "max_",
            "min": "min_", "fix": "fix_", "return": "return_", "with": "with_", "match": "match_", "then": "then_", "else": "else_"}


class Unsupported(Exception):
    pass


def ident(n):
    return RESERVED.get(n, n)


def _strip_doc(body):
    return [s for s in body if not (isinstance(s, ast.Expr) and isinstance(s.value, ast.Constant))]


def _is_call(e, name):
    return isinstance(e, ast.Call) and ast.unparse(e.func) == name


def _parallel_kw(call):
    for k in call.keywords:
        if k.arg == "parallel":
            if isinstance(k.value, ast.Constant) and isinstance(k.value.value, bool):
                return k.value.value
            raise Unsupported("parallel= is not a literal: " + ast.unparse(k.value))
    return False


def scan_parallel(mod):
    """{kernel name: (FunctionDef of the python definition, parallel flag)} for every njit-compiled function"""
    fns = {n.name: n for n in mod.body if isinstance(n, ast.FunctionDef)}
    out = {}
    for n in mod.body:
        if isinstance(n, ast.FunctionDef):
            par = False
            for d in n.decorator_list:
                if isinstance(d, ast.Call) and ast.unparse(d.func) in ("njit", "jit", "numba.njit", "numba.jit"):
                    par = par or _parallel_kw(d)
            out[n.name] = (n, par)
        elif isinstance(n, ast.Assign) and isinstance(n.value, ast.Call) and ast.unparse(n.value.func) in ("njit", "jit", "numba.njit", "numba.jit"):
            if len(n.targets) != 1 or not isinstance(n.targets[0], ast.Name):
                raise Unsupported("njit assignment target " + ast.unparse(n)[:60])
            c = n.value
            if len(c.args) != 1:
                raise Unsupported("njit(...) call form " + ast.unparse(c)[:60])
            a = c.args[0]
            if isinstance(a, ast.Attribute) and a.attr == "py_func" and isinstance(a.value, ast.Name) and a.value.id in fns:
                src = fns[a.value.id]
            elif isinstance(a, ast.Name) and a.id in fns:
                src = fns[a.id]
            else:
                raise Unsupported("njit of " + ast.unparse(a))
            out[n.targets[0].id] = (src, _parallel_kw(c))
    return out


def record_fields(mod):
    """field names of moments_dtype, in order"""
    for n in mod.body:
        if isinstance(n, ast.Assign) and len(n.targets) == 1 and ast.unparse(n.targets[0]) == "moments_dtype":
            c = n.value
            if not (_is_call(c, "np.dtype") and c.args and isinstance(c.args[0], ast.List)):
                raise Unsupported("moments_dtype is not np.dtype([...])")
            names = []
            for e in c.args[0].elts:
                if not (isinstance(e, ast.Tuple) and len(e.elts) == 2 and isinstance(e.elts[0], ast.Constant) and isinstance(e.elts[0].value, str)):
                    raise Unsupported("moments_dtype field " + ast.unparse(e))
                names.append(e.elts[0].value)
            if len(set(names)) != len(names):
                raise Unsupported("moments_dtype duplicate field")
            return names
    raise Unsupported("moments_dtype not found")


ALL_FASTMATH = ["afn", "arcp", "contract", "ninf", "nnan", "nsz", "reassoc"]
# parallel aliases built from the python definition of a serial kernel: alias -> serial twin
TWINS = {"downsample_1d_mean_parallel": "downsample_1d_mean", "downsample_2d_mean_parallel": "downsample_2d_mean_flat"}


def njit_options(mod, name):
    """(sorted fastmath flags, text of locals=) of the njit call that compiles `name` (decorator or alias assignment)"""
    consts = {}
    for n in mod.body:
        if isinstance(n, ast.Assign) and len(n.targets) == 1 and isinstance(n.targets[0], ast.Name) and isinstance(n.value, ast.Set):
            consts[n.targets[0].id] = n.value
    call = None
    for n in mod.body:
        if isinstance(n, ast.FunctionDef) and n.name == name:
            cs = [d for d in n.decorator_list if isinstance(d, ast.Call) and ast.unparse(d.func) in ("njit", "jit", "numba.njit", "numba.jit")]
            if len(cs) != 1:
                raise Unsupported(f"{name}: expected one njit(...) decorator with options")
            call = cs[0]
        elif (isinstance(n, ast.Assign) and len(n.targets) == 1 and isinstance(n.targets[0], ast.Name) and n.targets[0].id == name
              and isinstance(n.value, ast.Call) and ast.unparse(n.value.func) in ("njit", "jit", "numba.njit", "numba.jit")):
            call = n.value
    if call is None:
        raise Unsupported(f"{name}: njit call not found")
    fm, loc = None, ""
    for k in call.keywords:
        if k.arg is None:
            raise Unsupported(f"{name}: **options in the njit call")
        if k.arg == "fastmath":
            fm = k.value
        elif k.arg == "locals":
            loc = ast.unparse(k.value)
    if fm is None or (isinstance(fm, ast.Constant) and fm.value is False):
        flags = []
    elif isinstance(fm, ast.Constant) and fm.value is True:
        flags = list(ALL_FASTMATH)
    else:
        if isinstance(fm, ast.Name):
            if fm.id not in consts:
                raise Unsupported(f"{name}: fastmath={fm.id} is not a module-level set literal")
            fm = consts[fm.id]
        if not (isinstance(fm, ast.Set) and all(isinstance(e, ast.Constant) and isinstance(e.value, str) for e in fm.elts)):
            raise Unsupported(f"{name}: fastmath option {ast.unparse(fm)}")
        flags = sorted({e.value for e in fm.elts})
        if "fast" in flags:
            flags = list(ALL_FASTMATH)
        for f in flags:
            if f not in ALL_FASTMATH:
                raise Unsupported(f"{name}: unknown fastmath flag {f}")
    return flags, loc


def division_options(mod):
    """Coq text + errors: how the decimators (the only enumerated kernels whose result is a quotient) are allowed to divide"""
    out = ["(* ---- compile options of the decimation kernels: `arcp` lets LLVM replace x / n by x * (1 / n), which is not the",
           "   division of the Python definition (a mean that is exactly an integer can come out one ulp low) ---- *)"]
    errs = []
    opts = {}
    for alias, twin in TWINS.items():
        for k in (alias, twin):
            flags, loc = njit_options(mod, k)
            opts[k] = (flags, loc)
            out.append(f"Definition {k}_fastmath : list string := [" + "; ".join(f'"{f}"' for f in flags) + "].")
            out.append(f"Definition {k}_recip_division : bool := {'true' if 'arcp' in flags else 'false'}.")
        if ("arcp" in opts[alias][0]) != ("arcp" in opts[twin][0]):
            errs.append(f"{alias} and its serial twin {twin} are compiled with different division semantics (fastmath {opts[alias][0]} vs {opts[twin][0]})")
        if "arcp" in opts[alias][0]:
            errs.append(f"{alias}: fastmath allows reciprocal division (arcp): the compiled kernel does not divide like its Python definition")
        if opts[alias][1] != opts[twin][1]:
            errs.append(f"{alias} and its serial twin {twin} differ in locals=: {opts[alias][1]!r} vs {opts[twin][1]!r}")
    out.append("")
    return "\n".join(out), errs


class Body:
    """translate statements to a `cmd` term.  self.arrays: array name -> id constant name; self.records: record arrays"""

    def __init__(self, kname, arrays, records, fields, scalars, pure_fns):
        self.k = kname
        self.arrays = dict(arrays)
        self.records = set(records)
        self.fields = fields
        self.scalars = set(scalars)     # names known to be scalars (parameters and locals)
        self.extra = []                 # extra Z parameters (sizes)
        self.uses_divcast = False
        self.pure_fns = pure_fns
        self.nfresh = 0

    # ---------- expressions -------------------------------------------------------------------
    def fresh(self):
        self.nfresh += 1
        return f"r{self.nfresh}"

    def add_extra(self, n):
        if n not in self.extra:
            self.extra.append(n)
        return n

    def loc_of(self, e, reads):
        """location text of a subscript expression a[i] / rec[i]['f']"""
        if isinstance(e, ast.Subscript) and isinstance(e.value, ast.Subscript):
            inner = e.value
            if (isinstance(inner.value, ast.Name) and inner.value.id in self.records and isinstance(e.slice, ast.Constant)
                    and isinstance(e.slice.value, str)):
                if e.slice.value not in self.fields:
                    raise Unsupported(f"unknown record field {e.slice.value}")
                i = self.expr(inner.slice, reads)
                return f"({self.arrays[inner.value.id]}, {len(self.fields)} * {i} + {self.fields.index(e.slice.value)})"
            raise Unsupported("subscript " + ast.unparse(e))
        if not (isinstance(e, ast.Subscript) and isinstance(e.value, ast.Name)):
            raise Unsupported("subscript base " + ast.unparse(e))
        a = e.value.id
        if a not in self.arrays:
            raise Unsupported(f"subscript of non-array {a}")
        if a in self.records:
            raise Unsupported(f"whole-record access {ast.unparse(e)}")
        if isinstance(e.slice, (ast.Slice, ast.Tuple)):
            raise Unsupported("slice/tuple subscript " + ast.unparse(e))
        return f"({self.arrays[a]}, {self.expr(e.slice, reads)})"

    def expr(self, e, reads):
        """pure Coq text of e; loads are appended to `reads` as (kind, var, payload) in evaluation order"""
        if isinstance(e, ast.Constant):
            if isinstance(e.value, bool):
                return "1" if e.value else "0"
            if isinstance(e.value, int):
                return str(e.value) if e.value >= 0 else f"({e.value})"
            if isinstance(e.value, float) and e.value == int(e.value):
                return str(int(e.value))
            raise Unsupported(f"constant {e.value!r}")
        if isinstance(e, ast.Name):
            if e.id in self.arrays:
                raise Unsupported(f"array {e.id} used as a value")
            if e.id not in self.scalars:
                raise Unsupported(f"unknown name {e.id}")
            return ident(e.id)
        if isinstance(e, ast.UnaryOp) and isinstance(e.op, ast.USub):
            return f"(- {self.expr(e.operand, reads)})"
        if isinstance(e, ast.BinOp):
            l = self.expr(e.left, reads)
            r = self.expr(e.right, reads)
            t = type(e.op)
            if t in BIN:
                return f"({l} {BIN[t]} {r})"
            if t is ast.FloorDiv:
                return f"({l} / {r})"
            if t is ast.Mod:
                return f"({l} mod {r})"
            if t is ast.Div:
                self.uses_divcast = True
                return f"(divcast {l} {r})"
            raise Unsupported("binop " + t.__name__)
        if isinstance(e, ast.Subscript):
            # x.shape[0]
            if (isinstance(e.value, ast.Attribute) and e.value.attr == "shape" and isinstance(e.value.value, ast.Name)
                    and isinstance(e.slice, ast.Constant) and e.slice.value == 0 and e.value.value.id in self.arrays):
                return self.add_extra(f"{e.value.value.id}_size")
            loc = self.loc_of(e, reads)
            v = self.fresh()
            reads.append(("rd", v, loc))
            return v
        if isinstance(e, ast.Call):
            f = ast.unparse(e.func)
            if f == "len" and len(e.args) == 1 and isinstance(e.args[0], ast.Name) and e.args[0].id in self.arrays:
                return self.add_extra(f"{e.args[0].id}_size")
            if f in ("min", "max") and len(e.args) == 2 and not e.keywords:
                return f"(Z.{f} {self.expr(e.args[0], reads)} {self.expr(e.args[1], reads)})"
            if f == "int" and len(e.args) == 1:
                return self.expr(e.args[0], reads)
            if f == "np.sum" and len(e.args) == 1 and not e.keywords:
                a = e.args[0]
                if (isinstance(a, ast.Subscript) and isinstance(a.slice, ast.Slice) and a.slice.step is None and isinstance(a.value, ast.Name)
                        and a.value.id in self.arrays and a.value.id not in self.records and a.slice.lower is not None and a.slice.upper is not None):
                    lo, hi = self.expr(a.slice.lower, reads), self.expr(a.slice.upper, reads)
                    v = self.fresh()
                    reads.append(("sum", v, (self.arrays[a.value.id], lo, hi)))
                    return v
                raise Unsupported("np.sum of " + ast.unparse(a))
            raise Unsupported("call " + f)
        if isinstance(e, ast.Attribute) and e.attr == "size" and isinstance(e.value, ast.Name) and e.value.id in self.arrays:
            return self.add_extra(f"{e.value.id}_size")
        raise Unsupported("expression " + ast.unparse(e)[:80])

    def bexpr(self, e, reads):
        if isinstance(e, ast.Compare) and len(e.ops) == 1:
            l, r = self.expr(e.left, reads), self.expr(e.comparators[0], reads)
            t = type(e.ops[0])
            if t in CMP:
                return f"({l} {CMP[t]} {r})"
            if t is ast.NotEq:
                return f"(negb ({l} =? {r}))"
            raise Unsupported("compare " + t.__name__)
        if isinstance(e, ast.BoolOp):
            op = "&&" if isinstance(e.op, ast.And) else "||"
            return "(" + f" {op} ".join(self.bexpr(v, reads) for v in e.values) + ")"
        if isinstance(e, ast.UnaryOp) and isinstance(e.op, ast.Not):
            return f"(negb {self.bexpr(e.operand, reads)})"
        return f"(negb ({self.expr(e, reads)} =? 0))"

    @staticmethod
    def wrap(reads, inner, pad):
        """emit the loads in order around `inner`"""
        out = ""
        for kind, v, p in reads:
            if kind == "rd":
                out += f"{pad}bind (rd {p}) (fun {v} =>\n"
            else:
                aid, lo, hi = p
                out += (f"{pad}bind (for_ (Z.to_nat ({hi} - {lo})) (fun k_ acc_ => bind (rd ({aid}, {lo} + k_)) (fun x_ => Ret (acc_ + x_))) 0) (fun {v} =>"
                        f"  (* np.sum of a slice: the loads in index order *)\n")
        return out + inner + ")" * len(reads)

    # ---------- statements --------------------------------------------------------------------
    def assigned(self, stmts):
        """scalar names bound in a statement list (first-occurrence order)"""
        out = []

        def add(n):
            if n not in out:
                out.append(n)

        def tgt(t):
            if isinstance(t, ast.Name):
                add(t.id)
            elif isinstance(t, ast.Tuple):
                for x in t.elts:
                    tgt(x)
            elif isinstance(t, ast.Subscript):
                pass
            else:
                raise Unsupported("target " + ast.unparse(t))
        for s in stmts:
            if isinstance(s, ast.Assign):
                if len(s.targets) != 1:
                    raise Unsupported("multiple targets")
                tgt(s.targets[0])
            elif isinstance(s, ast.AugAssign):
                tgt(s.target)
            elif isinstance(s, ast.For):
                if isinstance(s.target, ast.Name):
                    pass
                for n in self.assigned(s.body):
                    add(n)
            elif isinstance(s, ast.If):
                for n in self.assigned(s.body) + self.assigned(s.orelse):
                    add(n)
            else:
                raise Unsupported("statement " + type(s).__name__)
        return out

    @staticmethod
    def pat(names):
        if not names:
            return "(_ : unit)"
        if len(names) == 1:
            return ident(names[0])
        return "'(" + ", ".join(ident(n) for n in names) + ")"

    @staticmethod
    def tupv(names):
        if not names:
            return "tt"
        if len(names) == 1:
            return ident(names[0])
        return "(" + ", ".join(ident(n) for n in names) + ")"

    def store(self, t, reads):
        return self.loc_of(t, reads)

    def block(self, stmts, live, defined, ind):
        """Coq term of type cmd (type of live tuple): run stmts then return the live names"""
        pad = "  " * ind
        if not stmts:
            return f"{pad}Ret {self.tupv(live)}"
        s, rest = stmts[0], stmts[1:]

        def cont(defd=defined):
            return self.block(rest, live, defd, ind)

        if isinstance(s, ast.Assign):
            if len(s.targets) != 1:
                raise Unsupported("multiple targets")
            t = s.targets[0]
            # tuple forms
            if isinstance(t, ast.Tuple):
                if isinstance(s.value, ast.Tuple):
                    if len(s.value.elts) != len(t.elts):
                        raise Unsupported("tuple arity " + ast.unparse(s)[:60])
                    # python evaluates the whole right side first, then stores left to right
                    reads = []
                    vals = [self.expr(v, reads) for v in s.value.elts]
                    tmp = [f"t{self.fresh()}" for _ in vals]
                    inner = "".join(f"{pad}let {a} := {v} in\n" for a, v in zip(tmp, vals))
                    tail_reads = []
                    stores = []
                    newdef = set(defined)
                    for tt_, a in zip(t.elts, tmp):
                        if isinstance(tt_, ast.Name):
                            if tt_.id in self.arrays:
                                raise Unsupported("rebinding array " + tt_.id)
                            self.scalars.add(tt_.id)
                            newdef.add(tt_.id)
                            stores.append(("let", ident(tt_.id), a))
                        else:
                            loc = self.loc_of(tt_, tail_reads)
                            stores.append(("wr", loc, a))
                    if tail_reads:
                        raise Unsupported("load inside a store target of a tuple assignment")
                    txt = ""
                    closes = 0
                    for kind, x, a in stores:
                        if kind == "let":
                            txt += f"{pad}let {x} := {a} in\n"
                        else:
                            txt += f"{pad}bind (wr {x} {a}) (fun _ =>\n"
                            closes += 1
                    return self.wrap(reads, inner + txt + cont(newdef) + ")" * closes, pad)
                if isinstance(s.value, ast.Call) and ast.unparse(s.value.func) in self.pure_fns:
                    f = ast.unparse(s.value.func)
                    nret = self.pure_fns[f]["nret"]
                    if len(t.elts) != nret or not all(isinstance(x, ast.Name) for x in t.elts) or s.value.keywords:
                        raise Unsupported("call form " + ast.unparse(s)[:80])
                    if len(s.value.args) != len(self.pure_fns[f]["params"]):
                        raise Unsupported(f"{f} called with {len(s.value.args)} arguments")
                    reads = []
                    args = [self.expr(a, reads) for a in s.value.args]
                    if self.pure_fns[f]["divcast"]:
                        self.uses_divcast = True
                        args = ["divcast"] + args
                    newdef = set(defined)
                    for x in t.elts:
                        if x.id in self.arrays:
                            raise Unsupported("rebinding array " + x.id)
                        self.scalars.add(x.id)
                        newdef.add(x.id)
                    inner = f"{pad}let '({', '.join(ident(x.id) for x in t.elts)}) := {f}_fn {' '.join(args)} in\n"
                    return self.wrap(reads, inner + cont(newdef), pad)
                raise Unsupported("tuple assignment " + ast.unparse(s)[:80])
            if isinstance(t, ast.Name):
                if t.id in self.arrays:
                    raise Unsupported("rebinding array " + t.id)
                reads = []
                v = self.expr(s.value, reads)
                self.scalars.add(t.id)
                return self.wrap(reads, f"{pad}let {ident(t.id)} := {v} in\n" + cont(defined | {t.id}), pad)
            if isinstance(t, ast.Subscript) and isinstance(t.slice, ast.Slice):
                # a[lo:hi] = b[lo2:hi2][::-1]
                v = s.value
                ok = (isinstance(v, ast.Subscript) and isinstance(v.slice, ast.Slice) and v.slice.lower is None and v.slice.upper is None
                      and isinstance(v.slice.step, ast.UnaryOp) and isinstance(v.slice.step.op, ast.USub)
                      and isinstance(v.slice.step.operand, ast.Constant) and v.slice.step.operand.value == 1
                      and isinstance(v.value, ast.Subscript) and isinstance(v.value.slice, ast.Slice) and v.value.slice.step is None
                      and isinstance(v.value.value, ast.Name) and isinstance(t.value, ast.Name) and t.slice.step is None
                      and t.slice.lower is not None and t.slice.upper is not None and v.value.slice.lower is not None
                      and v.value.slice.upper is not None)
                if not ok:
                    raise Unsupported("slice assignment " + ast.unparse(s)[:80])
                a, b = t.value.id, v.value.value.id
                if a not in self.arrays or b not in self.arrays or a in self.records or b in self.records:
                    raise Unsupported("slice assignment arrays " + ast.unparse(s)[:80])
                reads = []
                lo, hi = self.expr(t.slice.lower, reads), self.expr(t.slice.upper, reads)
                lo2, hi2 = self.expr(v.value.slice.lower, reads), self.expr(v.value.slice.upper, reads)
                if reads:
                    raise Unsupported("load in slice bounds")
                return (f"{pad}bind (for_ (Z.to_nat ({hi} - {lo})) (fun k_ (_ : unit) =>\n"
                        f"{pad}    bind (rd ({self.arrays[b]}, {hi2} - 1 - k_)) (fun x_ => wr ({self.arrays[a]}, {lo} + k_) x_)) tt) (fun _ =>"
                        f"  (* reversed slice copy; source slice [{lo2}, {hi2}) *)\n" + cont() + ")")
            if isinstance(t, ast.Subscript):
                reads = []
                loc = self.loc_of(t, reads)
                v = self.expr(s.value, reads)
                return self.wrap(reads, f"{pad}bind (wr {loc} {v}) (fun _ =>\n" + cont() + ")", pad)
            raise Unsupported("assignment " + ast.unparse(s)[:80])
        if isinstance(s, ast.AugAssign):
            if type(s.op) not in BIN:
                raise Unsupported("augmented assignment operator")
            op = BIN[type(s.op)]
            t = s.target
            if isinstance(t, ast.Name):
                if t.id not in defined:
                    raise Unsupported(f"augmented assignment to undefined {t.id}")
                reads = []
                v = self.expr(s.value, reads)
                return self.wrap(reads, f"{pad}let {ident(t.id)} := ({ident(t.id)} {op} {v}) in\n" + cont(), pad)
            if isinstance(t, ast.Subscript):
                reads = []
                loc = self.loc_of(t, reads)
                old = self.fresh()
                reads.append(("rd", old, loc))      # the old value of the element is loaded first
                v = self.expr(s.value, reads)
                return self.wrap(reads, f"{pad}bind (wr {loc} ({old} {op} {v})) (fun _ =>\n" + cont() + ")", pad)
            raise Unsupported("augmented assignment " + ast.unparse(s)[:80])
        if isinstance(s, ast.For):
            if s.orelse or not isinstance(s.target, ast.Name) or not isinstance(s.iter, ast.Call):
                raise Unsupported("for form")
            f = ast.unparse(s.iter.func)
            if f == "prange":
                raise Unsupported("a second / nested prange loop")
            if f != "range" or len(s.iter.args) != 1 or s.iter.keywords:
                raise Unsupported("for iterator " + ast.unparse(s.iter))
            reads = []
            n = self.expr(s.iter.args[0], reads)
            if reads:
                raise Unsupported("load in a loop bound")
            v = s.target.id
            if v in self.arrays:
                raise Unsupported("loop variable shadows an array")
            st = [x for x in self.assigned(s.body) if x in defined]
            fresh_locals = [x for x in self.assigned(s.body) if x not in defined]
            self.scalars.add(v)
            body = self.block(s.body, st, defined | {v}, ind + 2)
            # locals first bound inside the loop are not visible afterwards
            return (f"{pad}bind (for_ (Z.to_nat {n}) (fun {ident(v)} {self.pat(st)} =>\n{body}) {self.tupv(st)}) (fun {self.pat(st)} =>  (* range *)\n"
                    + self.block(rest, live, defined, ind) + ")")
        if isinstance(s, ast.If):
            reads = []
            c = self.bexpr(s.test, reads)
            st = [x for x in self.assigned(s.body) + self.assigned(s.orelse) if x in defined]
            st = list(dict.fromkeys(st))
            tb = self.block(s.body, st, defined, ind + 2)
            eb = self.block(s.orelse, st, defined, ind + 2) if s.orelse else f"{pad}    Ret {self.tupv(st)}"
            return self.wrap(reads, f"{pad}bind (if {c} then (\n{tb}) else (\n{eb})) (fun {self.pat(st)} =>\n" + cont() + ")", pad)
        raise Unsupported("statement " + type(s).__name__ + ": " + ast.unparse(s)[:60])


def pure_function(fn):
    """a scalar helper (update_moments): params, straight-line body, `return a, b, ...`"""
    args = [a.arg for a in fn.args.args]
    if fn.args.vararg or fn.args.kwarg or fn.args.kwonlyargs:
        raise Unsupported(f"{fn.name}: signature")
    body = _strip_doc(fn.body)
    b = Body(fn.name, {}, [], [], args, {})
    lines = []
    for s in body[:-1]:
        reads = []
        if isinstance(s, ast.Assign) and len(s.targets) == 1 and isinstance(s.targets[0], ast.Name):
            v = b.expr(s.value, reads)
            b.scalars.add(s.targets[0].id)
            lines.append(f"  let {ident(s.targets[0].id)} := {v} in")
        elif isinstance(s, ast.AugAssign) and isinstance(s.target, ast.Name) and type(s.op) in BIN:
            v = b.expr(s.value, reads)
            x = ident(s.target.id)
            lines.append(f"  let {x} := ({x} {BIN[type(s.op)]} {v}) in")
        else:
            raise Unsupported(f"{fn.name}: statement " + ast.unparse(s)[:60])
        if reads:
            raise Unsupported(f"{fn.name}: array access in a scalar helper")
    r = body[-1]
    if not (isinstance(r, ast.Return) and isinstance(r.value, ast.Tuple) and all(isinstance(x, ast.Name) for x in r.value.elts)):
        raise Unsupported(f"{fn.name}: return form")
    ret = [ident(x.id) for x in r.value.elts]
    dc = "(divcast : Z -> Z -> Z) " if b.uses_divcast else ""
    txt = (f"(* from {fn.name} (pure scalar helper; `/` is the parameter divcast) *)\n"
           f"Definition {fn.name}_fn {dc}{' '.join('(' + ident(a) + ' : Z)' for a in args)} : {' * '.join('Z' for _ in ret)} :=\n"
           + "\n".join(lines) + f"\n  ({', '.join(ret)}).\n")
    return txt, {"params": args, "nret": len(ret), "divcast": b.uses_divcast}


def _array_params(fn):
    """array-typed parameters: annotated np.ndarray"""
    arrs, scal = [], []
    for a in fn.args.args:
        ann = ast.unparse(a.annotation) if a.annotation is not None else ""
        if ann == "np.ndarray":
            arrs.append(a.arg)
        elif ann in ("int", "float", "bool"):
            scal.append(a.arg)
        else:
            raise Unsupported(f"{fn.name}: parameter {a.arg} has annotation {ann!r}")
    if fn.args.vararg or fn.args.kwarg or fn.args.kwonlyargs or fn.args.posonlyargs:
        raise Unsupported(f"{fn.name}: signature")
    return arrs, scal


def kernel(kname, fn, parallel, fields, pure_fns):
    """Coq text for one kernel"""
    arrs, scal = _array_params(fn)
    body = _strip_doc(fn.body)
    # locate the prange loop (top level only)
    idx = [i for i, s in enumerate(body) if isinstance(s, ast.For) and isinstance(s.iter, ast.Call) and ast.unparse(s.iter.func) == "prange"]
    nested = [n for s in body for n in ast.walk(s) if isinstance(n, ast.Call) and ast.unparse(n.func) == "prange"]
    if len(idx) != 1 or len(nested) != 1:
        raise Unsupported(f"expected exactly one top-level prange loop, found {len(idx)} top-level / {len(nested)} in all")
    loop = body[idx[0]]
    pre, post = body[:idx[0]], body[idx[0] + 1:]
    if loop.orelse or not isinstance(loop.target, ast.Name) or len(loop.iter.args) != 1 or loop.iter.keywords:
        raise Unsupported("prange loop form " + ast.unparse(loop.iter))
    pvar = loop.target.id
    # arrays: parameters, then local allocations
    arrays = {a: f"{kname}_ID_{a}" for a in arrs}
    records = [a for a in arrs if a == "moments"]
    order = list(arrs)
    scal_lets = []       # (name, expr) scalar statements before the loop
    pre_stmts = []       # array-touching statements before the loop
    returned = None
    B = Body(kname, arrays, records, fields, scal, pure_fns)
    defined = set(scal)
    for s in pre:
        if isinstance(s, ast.Assign) and len(s.targets) == 1 and isinstance(s.targets[0], ast.Name):
            t = s.targets[0].id
            if isinstance(s.value, ast.Call) and ast.unparse(s.value.func) in ("np.empty", "np.empty_like", "np.zeros", "np.zeros_like"):
                if ast.unparse(s.value.func) in ("np.zeros", "np.zeros_like"):
                    raise Unsupported("np.zeros allocation before the parallel loop (not needed by any known kernel)")
                if t in arrays:
                    raise Unsupported(f"array {t} allocated twice")
                arrays[t] = f"{kname}_ID_{t}"
                B.arrays[t] = arrays[t]
                order.append(t)
                continue
            if pre_stmts:
                raise Unsupported("scalar statement after the sequential prefix")
            reads = []
            v = B.expr(s.value, reads)
            if reads:
                raise Unsupported("array load in a scalar statement before the loop: " + ast.unparse(s)[:60])
            B.scalars.add(t)
            defined.add(t)
            scal_lets.append((t, v))
        else:
            pre_stmts.append(s)
    for s in post:
        if isinstance(s, ast.Return) and isinstance(s.value, ast.Name) and s.value.id in arrays and s is post[-1]:
            returned = s.value.id
        else:
            raise Unsupported("statement after the parallel loop: " + ast.unparse(s)[:60])
    lets = "".join(f"  let {ident(t)} := {v} in\n" for t, v in scal_lets)
    # a scalar carried round the prange loop would be a shared accumulator / reduction variable
    carried = [x for x in B.assigned(loop.body) if x in defined]
    if carried:
        raise Unsupported(f"scalar(s) {carried} defined before the prange loop are assigned inside it (shared accumulator / reduction)")
    reads = []
    trip = B.expr(loop.iter.args[0], reads)
    if reads:
        raise Unsupported("array load in the prange bound")
    pre_txt = B.block(pre_stmts, [], set(defined), 1)
    B.scalars.add(pvar)
    body_txt = B.block(loop.body, [], defined | {pvar}, 1)
    params = []
    if B.uses_divcast:
        params.append("(divcast : Z -> Z -> Z)")
    params += [f"({x} : Z)" for x in B.extra] + [f"({ident(a)} : Z)" for a in scal]
    P = " ".join(params)
    argnames = " ".join((["divcast"] if B.uses_divcast else []) + list(B.extra) + [ident(a) for a in scal])
    out = [f"(* ---- {kname}: python definition {fn.name}, parallel={parallel}, prange variable {pvar} ---- *)"]
    out.append(f"Definition {kname}_parallel : bool := {'true' if parallel else 'false'}.")
    out.append(f'Definition {kname}_pvar : string := "{pvar}".')
    for i, a in enumerate(order):
        out.append(f"Definition {kname}_ID_{a} : Z := {i}.")
    out.append(f"Definition {kname}_trip {P} : Z :=\n{lets}  {trip}.")
    out.append(f"(* statements before the parallel region that touch arrays (run by the calling thread alone) *)")
    out.append(f"Definition {kname}_pre {P} : cmd unit :=\n{lets}{pre_txt}.")
    out.append(f"(* body of the prange loop for the value {ident(pvar)} of the loop variable *)")
    out.append(f"Definition {kname}_body {P} ({ident(pvar)} : Z) : cmd unit :=\n{lets}{body_txt}.")
    out.append(f"Definition {kname}_thread {P} ({ident(pvar)} : Z) : prog := thread_of ({kname}_body {argnames} {ident(pvar)}).")
    out.append(f"Definition {kname}_threads {P} : list prog := threads_of ({kname}_thread {argnames}) (Z.to_nat ({kname}_trip {argnames})).")
    out.append("")
    meta = {"name": kname, "pyname": fn.name, "parallel": parallel, "pvar": pvar, "arrays": order, "scalars": scal, "extra": list(B.extra),
            "divcast": B.uses_divcast, "returned": returned, "has_pre": bool(pre_stmts)}
    return "\n".join(out), meta


def subband_site(repo):
    """how Filterbank.subband builds chan_to_sub and calls the kernel"""
    mod = ast.parse(open(f"{repo}/{BASE}").read())
    fn = None
    for node in mod.body:
        if isinstance(node, ast.ClassDef) and node.name == "Filterbank":
            for f in node.body:
                if isinstance(f, ast.FunctionDef) and f.name == "subband":
                    fn = f
    if fn is None:
        raise Unsupported("Filterbank.subband not found")
    body = _strip_doc(fn.body)
    assigns = {}
    guards = []
    call = None
    seen_loop = False
    for s in body:
        if isinstance(s, ast.Assign) and len(s.targets) == 1 and isinstance(s.targets[0], ast.Name):
            if s.targets[0].id in assigns and s.targets[0].id in ("subfactor", "chan_to_sub"):
                raise Unsupported(f"{s.targets[0].id} assigned twice")
            assigns[s.targets[0].id] = s.value
        elif isinstance(s, ast.If) and not seen_loop:
            names = {n.id for n in ast.walk(s.test) if isinstance(n, ast.Name)}
            raises = [x for x in s.body if isinstance(x, ast.Raise)]
            if "nsub" in names or "subfactor" in names:
                if not raises or s.orelse or not isinstance(s.body[-1], ast.Raise):
                    raise Unsupported("a test on nsub that does not end in raise: " + ast.unparse(s.test))
                exc = s.body[-1].exc
                excn = ast.unparse(exc.func) if isinstance(exc, ast.Call) else ast.unparse(exc)
                if excn != "ValueError":
                    raise Unsupported("guard raises " + excn)
                if "chan_to_sub" in assigns:
                    pass
                guards.append(s.test)
        elif isinstance(s, ast.For):
            seen_loop = True
            for n in ast.walk(s):
                if isinstance(n, ast.Call) and ast.unparse(n.func) == "kernels.subband":
                    if call is not None:
                        raise Unsupported("two calls of kernels.subband")
                    call = n
    if call is None:
        raise Unsupported("no call of kernels.subband in a loop of Filterbank.subband")
    if call.keywords or len(call.args) != 8:
        raise Unsupported("kernels.subband call form")
    a = [ast.unparse(x) for x in call.args]
    if a[3] != "chan_to_sub" or a[5] != "self.header.nchans" or a[6] != "nsub":
        raise Unsupported(f"kernels.subband arguments changed: chan_to_sub={a[3]} nchans={a[5]} nsubs={a[6]}")
    for need in ("subfactor", "chan_to_sub"):
        if need not in assigns:
            raise Unsupported(f"assignment of {need} not found")

    class Sub(ast.NodeTransformer):
        def visit_Attribute(self, node):
            if ast.unparse(node) == "self.header.nchans":
                return ast.Name(id="nchans")
            return self.generic_visit(node)
    B = Body("site", {}, [], [], ["nchans", "nsub", "subfactor", "c"], {})
    reads = []
    subf = B.expr(Sub().visit(assigns["subfactor"]), reads)
    cts = assigns["chan_to_sub"]
    # np.arange(nchans, dtype='int32') // subfactor   -> element c is  c // subfactor
    ok = (isinstance(cts, ast.BinOp) and isinstance(cts.op, ast.FloorDiv) and _is_call(cts.left, "np.arange") and len(cts.left.args) == 1
          and ast.unparse(cts.left.args[0]) == "self.header.nchans")
    if not ok:
        raise Unsupported("chan_to_sub construction changed: " + ast.unparse(cts))
    elt = f"(c / {B.expr(Sub().visit(cts.right), reads)})"
    gtxt = [B.bexpr(Sub().visit(g), reads) for g in guards]
    if reads or B.extra or B.uses_divcast:
        raise Unsupported("subband site: unexpected construct")
    guard = "true" if not gtxt else " && ".join(f"negb {g}" for g in gtxt)
    out = ["(* ---- call site Filterbank.subband (base.py): the chan_to_sub table handed to kernels.subband ---- *)",
           f"(* element c of  {ast.unparse(cts)}  with  subfactor = {ast.unparse(assigns['subfactor'])} *)",
           f"Definition subband_site_chan_to_sub (nchans nsub c : Z) : Z :=\n  let subfactor := {subf} in\n  {elt}.",
           "(* the kernel is reached only if no `raise ValueError` guard on nsub fires: " + ("; ".join(ast.unparse(g) for g in guards) if guards else "there is none") + " *)",
           f"Definition subband_site_guard (nchans nsub : Z) : bool := {guard}.",
           f"Definition subband_site_guarded : bool := {'true' if guards else 'false'}.", ""]
    return "\n".join(out), {"guards": [ast.unparse(g) for g in guards]}


def gen_c19(repo="/repo"):
    out = ["(* GENERATED by tools/py2coq/gen_c19.py from sigpyproc/core/kernels.py and sigpyproc/base.py -- do not edit *)",
           "From Coq Require Import ZArith List Bool String.", "Require Import SPP.Model.C19_Prog.", "Import ListNotations.",
           "Open Scope string_scope.", "Open Scope Z_scope.", ""]
    errors = []
    meta = {"kernels": {}, "site": None}
    try:
        mod = ast.parse(open(f"{repo}/{REL}").read())
        table = scan_parallel(mod)
        fields = record_fields(mod)
    except (Unsupported, OSError, SyntaxError) as e:
        return "\n".join(out) + f"\n(* UNSUPPORTED: {str(e).replace('*)', '* )')} *)\n", [str(e)]
    par = sorted(k for k, (_, p) in table.items() if p)
    for k in par:
        if k not in KNOWN and k not in OUT_OF_SCOPE:
            errors.append(f"{k}: compiled parallel=True but this check has no footprint proof for it")
    out.append("(* kernels compiled with parallel=True, as found in kernels.py (sorted); the ones C19 does not enumerate are listed apart *)")
    out.append("Definition parallel_kernels : list string := [" + "; ".join(f'"{k}"' for k in par if k not in OUT_OF_SCOPE) + "].")
    out.append("Definition parallel_kernels_out_of_scope : list string := [" + "; ".join(f'"{k}"' for k in par if k in OUT_OF_SCOPE) + "].")
    out.append("(* record layout of moments_dtype: field number = position *)")
    out.append("Definition moments_fields : list string := [" + "; ".join(f'"{f}"' for f in fields) + "].")
    out.append("")
    pure = {}
    for f in PURE:
        try:
            if f not in table:
                raise Unsupported("not found")
            txt, m = pure_function(table[f][0])
            pure[f] = m
            out.append(txt)
        except Unsupported as e:
            errors.append(f"{f}: {e}")
            out.append(f"(* UNSUPPORTED {f}: {str(e).replace('*)', '* )')} *)\n")
    for k in KNOWN:
        try:
            if k not in table:
                raise Unsupported("not found in kernels.py")
            fn, p = table[k]
            txt, m = kernel(k, fn, p, fields, pure)
            meta["kernels"][k] = m
            out.append(txt)
        except Unsupported as e:
            errors.append(f"{k}: {e}")
            out.append(f"(* UNSUPPORTED {k}: {str(e).replace('*)', '* )')} *)\n")
    try:
        txt, m = subband_site(repo)
        meta["site"] = m
        out.append(txt)
    except (Unsupported, OSError, SyntaxError) as e:
        errors.append(f"subband site: {e}")
        out.append(f"(* UNSUPPORTED subband site: {str(e).replace('*)', '* )')} *)\n")
    try:
        txt, errs = division_options(mod)
        out.append(txt)
        errors += errs
    except Unsupported as e:
        errors.append(f"decimation compile options: {e}")
        out.append(f"(* UNSUPPORTED decimation compile options: {str(e).replace('*)', '* )')} *)\n")
    gen_c19.meta = meta
    return "\n".join(out), errors


GENERATORS = {"C19Threads.v": gen_c19}

if __name__ == "__main__":
    import sys
    t, errs = gen_c19(sys.argv[1] if len(sys.argv) > 1 else "/repo")
    print(t)
    for e in errs:
        print("ERROR", e, file=sys.stderr)
