"""gen_c08: Gen/C08.v -- what every API of sigpyproc writes into the header of the product it returns / the file it
writes, read from the CURRENT source (header.py, readers.py, base.py, block.py, timeseries.py).

Per API the plug-in finds the single `new_header(...)` / `prep_outfile(...)` / `dedispersed_header(...)` call on
`self.header`, takes its update dictionary (a literal, or a name assigned a literal exactly once and never mutated),
and translates every value into an exact expression over Q / Z (typed: Python int -> Z, float -> Q; `/` is Qdiv,
float `//` is floor of the exact quotient, `int()` truncates, `round()` rounds half to even).  Local names are
inlined from their unique assignment.  Also emitted: the attrs field list of `Header` (new_header DROPS keys that are
not fields), `mjd_after_nsamps`, the update of `dedispersed_header`, the depth handed to the FileWriter, the length
of the array handed to the container constructor, and FilReader.read_block as a sequential function (guards in
source order) with a binary64 twin of the frequency -> channel index quotient.

Fail closed: anything not recognised raises Unsupported; the site is then omitted from Gen/C08.v (so its theorems no
longer compile) and reported."""
from __future__ import annotations

import ast
from fractions import Fraction


class Unsupported(Exception):
    pass


HDR_Z = ("nchans", "nbits", "nsamples")
HDR_Q = ("fch1", "foff", "tsamp", "tstart", "dm")
MODELLED = set(HDR_Z) | set(HDR_Q) | {"data_type"}


def _parse(repo, rel):
    return ast.parse(open(f"{repo}/{rel}").read())


def _cls(mod, name):
    for n in mod.body:
        if isinstance(n, ast.ClassDef) and n.name == name:
            return n
    raise Unsupported(f"class {name} not found")


def _meth(cls, name):
    for n in cls.body:
        if isinstance(n, ast.FunctionDef) and n.name == name:
            return n
    raise Unsupported(f"{cls.name}.{name} not found")


def _body(fn):
    return [s for s in fn.body if not (isinstance(s, ast.Expr) and isinstance(s.value, ast.Constant))]


def qlit(x):
    fr = Fraction(x)
    return f"({fr.numerator} # {fr.denominator})%Q" if fr.numerator >= 0 else f"(- ({-fr.numerator} # {fr.denominator}))%Q"


class Env:
    """typing / naming environment of one site"""

    def __init__(self, hdrcls, fn, params, hprefix="self.header", hvar="h", opaque=None, ext=None, allow_reassigned=()):
        self.hdrcls, self.fn = hdrcls, fn
        self.vars = {k: (k, t) for k, t in params.items()}      # python name -> (coq name, type)
        self.params = dict(params)
        self.hprefix, self.hvar = hprefix, hvar
        self.opaque = opaque or {}     # local name -> required source text of its defining expression; becomes a Z parameter
        self.ext = ext or {}           # source text of an expression (e.g. "new_ar.shape[1]") -> (coq parameter, type)
        self.lets = []                 # (name, text) in dependency order
        for nm, tmpl in self.opaque.items():   # declared parameter standing for a local whose definition is pinned textually
            asg = [a for a in self.assignments(nm) if isinstance(a, ast.Assign)]
            if len(asg) != 1 or ast.unparse(asg[0].value) != tmpl:
                raise Unsupported(f"{nm} is no longer `{tmpl}`")
        self.busy = set()
        self.allow_reassigned = set(allow_reassigned)

    # -- local names --------------------------------------------------------------------------------
    def assignments(self, name):
        out = []
        for n in ast.walk(self.fn):
            if isinstance(n, ast.Assign):
                for t in n.targets:
                    if isinstance(t, ast.Name) and t.id == name:
                        out.append(n)
                    elif isinstance(t, ast.Tuple) and any(isinstance(e, ast.Name) and e.id == name for e in t.elts):
                        out.append(n)
            elif isinstance(n, (ast.AugAssign, ast.AnnAssign)) and isinstance(n.target, ast.Name) and n.target.id == name:
                out.append(n)
            elif isinstance(n, (ast.For, ast.comprehension)):
                tg = n.target
                names = [tg.id] if isinstance(tg, ast.Name) else [e.id for e in getattr(tg, "elts", []) if isinstance(e, ast.Name)]
                if name in names:
                    out.append(n)
        return out

    def is_default_fill(self, asg, name):
        """`if name is None: name = E` -- filling in a default for a parameter"""
        for n in ast.walk(self.fn):
            if isinstance(n, ast.If) and asg in n.body and ast.unparse(n.test) == f"{name} is None":
                return True
        return False

    def lookup(self, name):
        if name in self.vars:
            if name in self.params and name not in self.allow_reassigned and name not in self.opaque:
                bad = [a for a in self.assignments(name) if not self.is_default_fill(a, name)]
                if bad:
                    raise Unsupported(f"parameter {name} is reassigned before use: {ast.unparse(bad[0])[:60]}")
            return self.vars[name]
        if name in self.busy:
            raise Unsupported(f"cyclic definition of {name}")
        asg = self.assignments(name)
        if len(asg) != 1 or not isinstance(asg[0], ast.Assign) or not isinstance(asg[0].targets[0], ast.Name):
            raise Unsupported(f"name {name}: expected exactly one plain assignment, found {len(asg)}")
        val = asg[0].value
        self.busy.add(name)
        txt, ty = self.expr(val)
        self.busy.discard(name)
        self.lets.append((name, txt))
        self.vars[name] = (name, ty)
        return self.vars[name]

    # -- expressions --------------------------------------------------------------------------------
    def toQ(self, tt):
        txt, ty = tt
        if ty == "Q":
            return txt
        if ty == "Z":
            return f"(inject_Z {txt})"
        raise Unsupported(f"number expected, got {ty}: {txt}")

    def hattr(self, attr):
        if attr in HDR_Z:
            return f"(h_{attr} {self.hvar})", "Z"
        if attr in HDR_Q:
            return f"(h_{attr} {self.hvar})", "Q"
        # a property of Header: inline its `return <expr>`
        fn = None
        for n in self.hdrcls.body:
            if isinstance(n, ast.FunctionDef) and n.name == attr and any(ast.unparse(d) == "property" for d in n.decorator_list):
                fn = n
        if fn is None:
            raise Unsupported(f"header attribute {attr}")
        b = _body(fn)
        if len(b) != 1 or not isinstance(b[0], ast.Return):
            raise Unsupported(f"Header.{attr} is not a single return")
        sub = Env(self.hdrcls, fn, {}, hprefix="self", hvar=self.hvar)
        return sub.expr(b[0].value)

    def expr(self, e):
        src = ast.unparse(e)
        if src in self.ext:
            return self.ext[src]
        if isinstance(e, ast.Constant):
            v = e.value
            if isinstance(v, bool):
                raise Unsupported("bool constant")
            if isinstance(v, int):
                return (str(v) if v >= 0 else f"({v})"), "Z"
            if isinstance(v, float):
                return qlit(v), "Q"
            if isinstance(v, str):
                return '"' + v.replace('"', '""') + '"', "S"
            raise Unsupported(f"constant {v!r}")
        if isinstance(e, ast.Name):
            return self.lookup(e.id)
        if isinstance(e, ast.Attribute):
            if src.startswith(self.hprefix + ".") and src.count(".") == self.hprefix.count(".") + 1:
                return self.hattr(e.attr)
            raise Unsupported(f"attribute {src}")
        if isinstance(e, ast.UnaryOp) and isinstance(e.op, ast.USub):
            t, ty = self.expr(e.operand)
            return (f"(- {t})%{ty}", ty)
        if isinstance(e, ast.IfExp):
            if ast.unparse(e.test) == "nsamps is None" or ast.unparse(e.test) == "nsamps is not None":
                if self.params.get("nsamps_none") != "B":
                    raise Unsupported("`nsamps is None` used at a site without the nsamps_none parameter")
                a, b = (e.body, e.orelse) if "is None" in ast.unparse(e.test) and "not" not in ast.unparse(e.test) else (e.orelse, e.body)
                ta, tb = self.expr(a), self.expr(b)
                if ta[1] == tb[1]:
                    return f"(if nsamps_none then {ta[0]} else {tb[0]})", ta[1]
                return f"(if nsamps_none then {self.toQ(ta)} else {self.toQ(tb)})", "Q"
            raise Unsupported("conditional expression " + src[:60])
        if isinstance(e, ast.BinOp):
            l, r = self.expr(e.left), self.expr(e.right)
            op = type(e.op)
            bothz = l[1] == "Z" and r[1] == "Z"
            sym = {ast.Add: "+", ast.Sub: "-", ast.Mult: "*"}.get(op)
            if sym:
                if bothz:
                    return f"({l[0]} {sym} {r[0]})%Z", "Z"
                return f"({self.toQ(l)} {sym} {self.toQ(r)})%Q", "Q"
            if op is ast.Div:
                return f"({self.toQ(l)} / {self.toQ(r)})%Q", "Q"
            if op is ast.FloorDiv:
                if bothz:
                    return f"({l[0]} / {r[0]})%Z", "Z"
                return f"(Qfloordiv {self.toQ(l)} {self.toQ(r)})", "Q"
            if op is ast.Mod and bothz:
                return f"({l[0]} mod {r[0]})%Z", "Z"
            raise Unsupported("operator " + op.__name__)
        if isinstance(e, ast.Call):
            f = ast.unparse(e.func)
            if f == self.hprefix + ".mjd_after_nsamps" and len(e.args) == 1 and not e.keywords:
                a = self.expr(e.args[0])
                if a[1] != "Z":
                    raise Unsupported("mjd_after_nsamps of a non-integer")
                return f"(mjd_after_nsamps {self.hvar} {a[0]})", "Q"
            if f in ("int", "round", "float", "abs") and len(e.args) == 1 and not e.keywords:
                a = self.expr(e.args[0])
                if f == "float":
                    return self.toQ(a), "Q"
                if f == "abs":
                    return (f"(Z.abs {a[0]})", "Z") if a[1] == "Z" else (f"(Qabs {a[0]})", "Q")
                if a[1] == "Z":
                    return a
                return (f"(Qtrunc {a[0]})" if f == "int" else f"(Qround_he {a[0]})"), "Z"
            if f in ("min", "max") and len(e.args) == 2 and not e.keywords:
                a, b = self.expr(e.args[0]), self.expr(e.args[1])
                if a[1] == "Z" and b[1] == "Z":
                    return f"(Z.{f} {a[0]} {b[0]})", "Z"
                return f"(Q{f} {self.toQ(a)} {self.toQ(b)})", "Q"
            if f == "len" and len(e.args) == 1 and isinstance(e.args[0], ast.Name):
                return self.alloc_len(e.args[0].id)
            raise Unsupported("call " + src[:70])
        raise Unsupported("expression " + src[:70])

    def bexpr(self, e):
        if isinstance(e, ast.BoolOp):
            op = "||" if isinstance(e.op, ast.Or) else "&&"
            return "(" + f" {op} ".join(self.bexpr(v) for v in e.values) + ")"
        if isinstance(e, ast.UnaryOp) and isinstance(e.op, ast.Not):
            return f"(negb {self.bexpr(e.operand)})"
        if isinstance(e, ast.Compare) and len(e.ops) == 1:
            l, r = self.expr(e.left), self.expr(e.comparators[0])
            op = type(e.ops[0])
            if l[1] == "Z" and r[1] == "Z":
                sym = {ast.Lt: "<?", ast.LtE: "<=?", ast.Gt: ">?", ast.GtE: ">=?", ast.Eq: "=?"}.get(op)
                if sym:
                    return f"({l[0]} {sym} {r[0]})%Z"
                if op is ast.NotEq:
                    return f"(negb ({l[0]} =? {r[0]})%Z)"
            else:
                a, b = self.toQ(l), self.toQ(r)
                if op is ast.LtE:
                    return f"(Qle_bool {a} {b})"
                if op is ast.GtE:
                    return f"(Qle_bool {b} {a})"
                if op is ast.Lt:
                    return f"(negb (Qle_bool {b} {a}))"
                if op is ast.Gt:
                    return f"(negb (Qle_bool {a} {b}))"
                if op is ast.Eq:
                    return f"(Qeq_bool {a} {b})"
            raise Unsupported("comparison " + ast.unparse(e)[:60])
        raise Unsupported("condition " + ast.unparse(e)[:60])

    # -- arrays ---------------------------------------------------------------------------------------
    def alloc_shape(self, name):
        """shape of an array allocated by np.zeros / np.empty / np.ones in this function: list of (text, 'Z')"""
        asg = [a for a in self.assignments(name) if isinstance(a, ast.Assign)]
        if len(asg) != 1:
            raise Unsupported(f"array {name}: expected one allocation, found {len(asg)}")
        v = asg[0].value
        if not (isinstance(v, ast.Call) and ast.unparse(v.func) in ("np.zeros", "np.empty", "np.ones") and v.args):
            raise Unsupported(f"array {name} is not allocated by np.zeros/np.empty: {ast.unparse(v)[:60]}")
        sh = v.args[0]
        dims = sh.elts if isinstance(sh, ast.Tuple) else [sh]
        out = []
        for d in dims:
            t = self.expr(d)
            if t[1] != "Z":
                raise Unsupported(f"array {name}: non-integer dimension")
            out.append(t)
        return out

    def alloc_len(self, name):
        sh = self.alloc_shape(name)
        if len(sh) != 1:
            raise Unsupported(f"len() of a {len(sh)}-d array")
        return sh[0]

    def let_prefix(self, ind="  "):
        return "".join(f"{ind}let {n} := {t} in\n" for n, t in self.lets)


def coq_params(params):
    ty = {"Z": "Z", "Q": "Q", "B": "bool"}
    return " ".join(f"({n} : {ty[t]})" for n, t in params.items())


def header_calls(fn, hprefix="self.header"):
    out = []
    for n in ast.walk(fn):
        if isinstance(n, ast.Call) and isinstance(n.func, ast.Attribute) and n.func.attr in ("new_header", "prep_outfile", "dedispersed_header") \
                and ast.unparse(n.func.value) == hprefix:
            out.append(n)
    return out


def dict_of(env, node):
    """the Dict literal an argument denotes (directly, or through a name assigned once and never mutated)"""
    if node is None:
        return None
    if isinstance(node, ast.Dict):
        return node
    if isinstance(node, ast.Name):
        asg = env.assignments(node.id)
        if len(asg) != 1 or not isinstance(asg[0], ast.Assign) or not isinstance(asg[0].value, ast.Dict):
            raise Unsupported(f"update dictionary {node.id}: expected one assignment of a literal")
        for n in ast.walk(env.fn):
            if isinstance(n, ast.Subscript) and isinstance(n.ctx, (ast.Store, ast.Del)) and ast.unparse(n.value) == node.id:
                raise Unsupported(f"update dictionary {node.id} is mutated after creation")
            if isinstance(n, ast.Call) and isinstance(n.func, ast.Attribute) and ast.unparse(n.func.value) == node.id \
                    and n.func.attr in ("update", "pop", "setdefault", "clear", "popitem"):
                raise Unsupported(f"update dictionary {node.id} is mutated by .{n.func.attr}()")
        return asg[0].value
    raise Unsupported("update dictionary is neither a literal nor a name: " + ast.unparse(node)[:60])


def upd_list(env, d):
    """Dict literal -> Coq list of (key, val)"""
    if d is None:
        return "[]", []
    items, keys = [], []
    for k, v in zip(d.keys, d.values):
        if not (isinstance(k, ast.Constant) and isinstance(k.value, str)):
            raise Unsupported("non-literal dictionary key")
        key = k.value
        keys.append(key)
        if key not in MODELLED:   # kept for the record; new_header drops it unless it is an attrs field, set_field ignores it
            try:
                t = env.expr(v)
                items.append(f'("{key}"%string, {"VZ " + t[0] if t[1] == "Z" else "VQ " + env.toQ(t)})')
            except Unsupported:
                items.append(f'("{key}"%string, VS "<not modelled>"%string)')
            continue
        t = env.expr(v)
        if key in HDR_Z:
            if t[1] != "Z":
                raise Unsupported(f"integer field {key} is given a non-integer expression: {ast.unparse(v)[:60]}")
            items.append(f'("{key}"%string, VZ {t[0]})')
        elif key in HDR_Q:
            items.append(f'("{key}"%string, VQ {env.toQ(t)})')
        else:
            if t[1] != "S":
                raise Unsupported(f"data_type is not a string literal")
            items.append(f'("{key}"%string, VS {t[0]}%string)')
    return "[" + ";\n     ".join(items) + "]", keys


def kwarg(call, name, pos=None):
    for k in call.keywords:
        if k.arg == name:
            return k.value
        if k.arg is None:
            raise Unsupported("**kwargs in a header call")
    if pos is not None and len(call.args) > pos:
        return call.args[pos]
    return None


def comp_binding_ok(fn, dict_node, var, seq):
    """`var` (used inside dict_node) is bound by the list comprehension enclosing dict_node, iterating over `seq` in step
    with the output files: `for var, filename in zip(seq, batch_files, ...)`"""
    for n in ast.walk(fn):
        if isinstance(n, ast.ListComp) and any(x is dict_node for x in ast.walk(n.elt)):
            if len(n.generators) != 1:
                return False
            g = n.generators[0]
            it = g.iter
            return (isinstance(g.target, ast.Tuple) and len(g.target.elts) == 2 and ast.unparse(g.target.elts[0]) == var
                    and isinstance(it, ast.Call) and ast.unparse(it.func) == "zip" and len(it.args) == 2
                    and ast.unparse(it.args[0]) == seq and ast.unparse(it.args[1]) == "batch_files" and not g.ifs)
    return False


def uses_name(node, name):
    return any(isinstance(n, ast.Name) and n.id == name for n in ast.walk(node))


def gen_site(out, errors, hdrcls, name, fn, params, kind, opaque=None, ext=None, ctor=None, extra_checks=None, allow_reassigned=()):
    """kind: 'container' (returns a container built with new_header / dedispersed_header) or 'file' (prep_outfile)."""
    try:
        env = Env(hdrcls, fn, params, opaque=opaque, ext=ext, allow_reassigned=allow_reassigned)
        calls = header_calls(fn)
        want = "prep_outfile" if kind == "file" else None
        calls = [c for c in calls if (c.func.attr == "prep_outfile") == (kind == "file")]
        if len(calls) != 1:
            raise Unsupported(f"expected exactly one header call, found {len(calls)}")
        call = calls[0]
        lines = []
        if call.func.attr == "new_header":
            if len(call.args) > 1 or call.keywords and [k.arg for k in call.keywords] != ["update_dict"]:
                raise Unsupported("new_header call form")
            d = dict_of(env, kwarg(call, "update_dict", 0))
            lst, keys = upd_list(env, d)
            hdr = f"new_header header_fields h (upd_{name} h {' '.join(env.params)})"
        elif call.func.attr == "dedispersed_header":
            a = kwarg(call, "dm", 0)
            if a is None:
                raise Unsupported("dedispersed_header without dm")
            t = env.expr(a)
            lst, keys = f"dedispersed_header_upd {env.toQ(t)}", ["dm", "nchans", "data_type", "nbits"]
            hdr = f"new_header header_fields h (upd_{name} h {' '.join(env.params)})"
        else:
            d = dict_of(env, kwarg(call, "updates"))
            if len(call.args) != 1:
                raise Unsupported("prep_outfile positional arguments")
            lst, keys = upd_list(env, d)
            nb = kwarg(call, "nbits")
            if nb is None:
                nbt = "None"
            else:
                t = env.expr(nb)
                if t[1] != "Z":
                    raise Unsupported("prep_outfile nbits is not an integer")
                nbt = f"(Some {t[0]})"
            if kwarg(call, "rescale") is not None:
                raise Unsupported("prep_outfile rescale given")
        if extra_checks:
            extra_checks(env, call, d if call.func.attr != "dedispersed_header" else None)
        # container constructor: data array length and the dm handed over
        ctor_defs = []
        if ctor:
            ret = [n for n in ast.walk(fn) if isinstance(n, ast.Return) and isinstance(n.value, ast.Call)
                   and ast.unparse(n.value.func) in ctor["classes"]]
            if len(ret) != 1:
                raise Unsupported(f"expected one `return {'/'.join(ctor['classes'])}(...)`, found {len(ret)}")
            c = ret[0].value
            if len(c.args) < 2:
                raise Unsupported("container constructor arguments")
            # the header argument must be the header call (directly or through a name assigned once)
            harg = c.args[1]
            if isinstance(harg, ast.Name):
                asg = env.assignments(harg.id)
                if len(asg) != 1 or asg[0].value is not call:
                    raise Unsupported("container header is not the translated header call")
            elif harg is not call:
                raise Unsupported("container header is not the translated header call")
            darg = c.args[0]
            if ctor.get("data") == "alloc":
                if not isinstance(darg, ast.Name):
                    raise Unsupported("container data is not a name")
                sh = env.alloc_shape(darg.id)
                if len(sh) == 1:
                    ctor_defs.append(("datalen", sh[0][0], "Z"))
                else:
                    ctor_defs.append(("datarows", sh[0][0], "Z"))
                    ctor_defs.append(("datalen", sh[1][0], "Z"))
            elif ctor.get("data"):
                # external array: its length / shape are parameters; the header must use that very array
                if ast.unparse(darg) != ctor["data"]:
                    raise Unsupported(f"container data is {ast.unparse(darg)}, expected {ctor['data']}")
            if ctor.get("dm"):
                a = kwarg(c, "dm", 2)
                if a is None:
                    ctor_defs.append(("cdm", "0%Q", "Q"))
                else:
                    ctor_defs.append(("cdm", env.toQ(env.expr(a)), "Q"))
        ps = coq_params(env.params)
        names = " ".join(env.params)
        out.append(f"(* from {fn.name} ({kind}); keys: {', '.join(keys) if keys else '(none)'} *)")
        out.append(f"Definition upd_{name} (h : Hdr) {ps} : list (string * val) :=\n{env.let_prefix()}  {lst}.")
        if kind == "file":
            out.append(f"Definition out_{name} (h : Hdr) {ps} : Hdr * Z :=\n{env.let_prefix()}  prep_outfile header_fields h (upd_{name} h {names}) {nbt}.")
            out.append(f"Definition hdr_{name} (h : Hdr) {ps} : Hdr := fst (out_{name} h {names}).")
            out.append(f"Definition depth_{name} (h : Hdr) {ps} : Z := snd (out_{name} h {names}).")
        else:
            out.append(f"Definition hdr_{name} (h : Hdr) {ps} : Hdr := {hdr}.")
        for dn, txt, ty in ctor_defs:
            out.append(f"Definition {dn}_{name} (h : Hdr) {ps} : {ty} :=\n{env.let_prefix()}  {txt}.")
        out.append("")
    except Unsupported as e:
        errors.append(f"{name}: {e}")
        out.append(f"(* UNSUPPORTED {name}: {str(e).replace('*)', '* )')} *)\n")


# ---- float twin of a Q expression (binary64, + - * / only) ------------------------------------------------

def fexpr(e, names):
    src = ast.unparse(e)
    if src in names:
        return names[src]
    if isinstance(e, ast.BinOp) and type(e.op) in (ast.Add, ast.Sub, ast.Mult, ast.Div):
        sym = {ast.Add: "+", ast.Sub: "-", ast.Mult: "*", ast.Div: "/"}[type(e.op)]
        return f"({fexpr(e.left, names)} {sym} {fexpr(e.right, names)})%float"
    raise Unsupported("float twin: " + src[:60])


def gen_read_block(out, errors, hdrcls, fn):
    """FilReader.read_block, statement by statement (guards raise ValueError -> None)"""
    try:
        params = {"start": "Z", "nsamps": "Z", "fch1": "Q", "nchans": "Z", "nsamps_read": "Z"}
        env = Env(hdrcls, fn, params, allow_reassigned=("fch1", "nchans", "nsamps_read"))
        body = _body(fn)
        want_pre = ["fch1 = fch1 if fch1 is not None else self.header.fch1",
                    "nchans = nchans if nchans is not None else self.header.nchans"]
        if [ast.unparse(s) for s in body[:2]] != want_pre:
            raise Unsupported("defaults of fch1 / nchans changed")
        skip_exact = {"self._file.seek(start * self.samp_stride)", "data = self._file.cread(self.header.nchans * nsamps)",
                      "nsamps_read = data.size // self.header.nchans", "data = data.reshape(nsamps_read, self.header.nchans).transpose()"}
        seen_skip = set()
        code = []
        rows = None
        conv = None
        ratio_txt = None
        twin = None
        hdr_txt = None
        for s in body[2:]:
            src = ast.unparse(s)
            if src in skip_exact:
                seen_skip.add(src)
                continue
            if isinstance(s, ast.If) and not s.orelse and isinstance(s.body[-1], ast.Raise):
                exc = s.body[-1].exc
                if not (all(isinstance(b, ast.Assign) and isinstance(b.value, (ast.JoinedStr, ast.Constant)) for b in s.body[:-1])
                        and ast.unparse(exc).startswith("ValueError(")):
                    raise Unsupported("guard form: " + src[:60])
                code.append(f"  if {env.bexpr(s.test)} then None else")
                continue
            if isinstance(s, ast.Assign) and len(s.targets) == 1 and isinstance(s.targets[0], ast.Name):
                nm = s.targets[0].id
                if nm == "chan_start":
                    v = s.value
                    if not (isinstance(v, ast.Call) and ast.unparse(v.func) in ("int", "round") and len(v.args) == 1 and not v.keywords):
                        raise Unsupported("chan_start is not int(...) / round(...) of a quotient: " + src[:80])
                    ratio = env.expr(v.args[0])
                    if ratio[1] != "Q":
                        raise Unsupported("chan_start quotient is not a float expression")
                    conv = "Qtrunc" if ast.unparse(v.func) == "int" else "Qround_he"
                    twin = fexpr(v.args[0], {"fch1": "fch1", "self.header.fch1": "hfch1", "self.header.foff": "hfoff"})
                    ratio_txt = ratio[0]
                    code.append("  let chan_start := read_block_to_index x in")
                    env.vars["chan_start"] = ("chan_start", "Z")
                    continue
                if nm == "data_block":
                    if src != "data_block = data[chan_start:chan_start + nchans]":
                        raise Unsupported("channel slice changed: " + src)
                    rows = "py_slice_len (h_nchans h) chan_start (chan_start + nchans)%Z"
                    continue
                if nm == "new_header":
                    v = s.value
                    if not (isinstance(v, ast.Call) and ast.unparse(v.func) == "self.header.new_header" and len(v.args) == 1
                            and isinstance(v.args[0], ast.Dict) and not v.keywords):
                        raise Unsupported("new_header call form")
                    lst, keys = upd_list(env, v.args[0])
                    hdr_txt = f"new_header header_fields h\n    {lst}"
                    continue
                t = env.expr(s.value)
                code.append(f"  let {nm} := {t[0]} in")
                env.vars[nm] = (nm, t[1])
                continue
            if isinstance(s, ast.Return):
                if src not in ("return FilterbankBlock(data_block, new_header)", "return FilterbankBlock(data_block, new_header, dm=self.header.dm)"):
                    raise Unsupported("return changed: " + src)
                continue
            raise Unsupported("statement " + src[:70])
        if env.lets:
            raise Unsupported("unexpected inlined locals " + str([n for n, _ in env.lets]))
        if seen_skip != skip_exact or rows is None or conv is None or hdr_txt is None:
            raise Unsupported("read/reshape/slice/header statements not all found")
        out.append("(* from FilReader.read_block: frequency -> channel index *)")
        out.append(f"Definition read_block_to_index (x : Q) : Z := {conv} x.")
        out.append(f"Definition read_block_ratio_f (fch1 hfch1 hfoff : float) : float := {twin}.")
        out.append("Definition read_block_chan_start_f (fch1 hfch1 hfoff : float) : Z := read_block_to_index (float_to_Q (read_block_ratio_f fch1 hfch1 hfoff)).")
        out.append(f"Definition read_block_ratio (h : Hdr) (fch1 : Q) : Q := {ratio_txt}.")
        out.append("(* guards in source order (ValueError -> None); result: (chan_start, rows of data[chan_start : chan_start + nchans], header).\n"
                   "   x is the value of the quotient: exact in read_block_model, its binary64 value in the correspondence *)")
        out.append(f"Definition read_block_model_x (h : Hdr) {coq_params(params)} (x : Q) : option (Z * Z * Hdr) :=\n" + "\n".join(code)
                   + f"\n  Some (chan_start, {rows},\n    {hdr_txt}).")
        out.append(f"Definition read_block_model (h : Hdr) {coq_params(params)} : option (Z * Z * Hdr) :=\n"
                   f"  read_block_model_x h {' '.join(params)} (read_block_ratio h fch1).\n")
    except Unsupported as e:
        errors.append(f"read_block: {e}")
        out.append(f"(* UNSUPPORTED read_block: {str(e).replace('*)', '* )')} *)\n")


def gen_c08(repo="/repo"):
    out = ["(* GENERATED by tools/py2coq/gen_c08.py from sigpyproc/{header,readers,base,block,timeseries}.py -- do not edit *)",
           "From Coq Require Import ZArith QArith Qround Qabs Qminmax String List Bool PrimFloat.",
           "Require Import SPP.Model.C08_rt.", "Import ListNotations.", "Open Scope Z_scope.", ""]
    errors = []
    hmod = _parse(repo, "sigpyproc/header.py")
    H = _cls(hmod, "Header")
    # ---- attrs field list ----
    try:
        fields = [n.target.id for n in H.body if isinstance(n, ast.AnnAssign) and isinstance(n.target, ast.Name)]
        deco = " ".join(ast.unparse(d) for d in H.decorator_list)
        if "attrs.frozen" not in deco and "attrs.define" not in deco:
            raise Unsupported("Header is no longer an attrs class: " + deco)
        for need in HDR_Z + HDR_Q + ("data_type",):
            if need not in fields:
                raise Unsupported(f"Header has no field {need}")
        out.append("(* attrs fields of Header, in declaration order: new_header keeps exactly these keys *)")
        out.append("Definition header_fields : list string :=\n  [" + "; ".join(f'"{f}"%string' for f in fields) + "].\n")
        nh = _meth(H, "new_header")
        got = [ast.unparse(s) for s in _body(nh)]
        want = ["new = attrs.asdict(self)", "if update_dict is not None:\n    new.update(update_dict)",
                "new_checked = {key: value for key, value in new.items() if key in attrs.asdict(self)}",
                "return Header(**new_checked)"]
        if got != want:
            raise Unsupported("Header.new_header changed: " + " | ".join(got)[:300])
        out.append("(* Header.new_header: asdict(self) updated with update_dict, then restricted to the keys of asdict(self)  ==  C08_rt.new_header header_fields *)\n")
        po = _meth(H, "prep_outfile")
        gotp = [ast.unparse(s) for s in _body(po)]
        wantp = ["if nbits is None:\n    nbits = self.nbits", "if updates is None:\n    updates = {}",
                 "if nbits != self.nbits:\n    updates['nbits'] = nbits", "new_hdr = self.new_header(updates)",
                 "out_file = FileWriter(filename, mode='w+', nbits=nbits, rescale=rescale)",
                 "new_hdr_binary = sigproc.encode_header(new_hdr.to_sigproc())", "out_file.write(new_hdr_binary)", "return out_file"]
        if gotp != wantp:
            raise Unsupported("Header.prep_outfile changed: " + " | ".join(gotp)[:400])
        out.append("(* Header.prep_outfile: nbits defaults to self.nbits; updates['nbits'] = nbits when it differs; header = new_header(updates);\n"
                   "   FileWriter(nbits=nbits)  ==  C08_rt.prep_outfile header_fields *)\n")
        # to_sigproc writes self.dm under refdm and from_sigproc reads it back
        ts = ast.unparse(_meth(H, "to_sigproc"))
        fs = ast.unparse(_meth(H, "from_sigproc"))
        if "'refdm': self.dm" not in ts or "'dm': header.get('refdm', 0)" not in fs:
            raise Unsupported("to_sigproc / from_sigproc no longer map dm <-> refdm")
    except Unsupported as e:
        errors.append(f"header: {e}")
        out.append(f"(* UNSUPPORTED header: {str(e).replace('*)', '* )')} *)\n")
    # ---- mjd_after_nsamps ----
    try:
        fn = _meth(H, "mjd_after_nsamps")
        b = _body(fn)
        ot = ast.unparse(_meth(H, "obs_time"))
        if "return Time(self.tstart, format='mjd', scale='utc', precision=precision)" not in ot:
            raise Unsupported("Header.obs_time changed")
        if len(b) != 2 or ast.unparse(b[1]) != "return new_time.mjd":
            raise Unsupported("mjd_after_nsamps body changed")
        v = b[0].value
        if not (isinstance(b[0], ast.Assign) and ast.unparse(b[0].targets[0]) == "new_time" and isinstance(v, ast.BinOp)
                and isinstance(v.op, ast.Add) and ast.unparse(v.left) == "self.obs_time" and isinstance(v.right, ast.Call)
                and ast.unparse(v.right.func) == "TimeDelta" and len(v.right.args) == 1
                and [(k.arg, ast.unparse(k.value)) for k in v.right.keywords] == [("format", "'sec'")]):
            raise Unsupported("mjd_after_nsamps is no longer obs_time + TimeDelta(<seconds>, format='sec')")
        env = Env(H, fn, {"nsamps": "Z"}, hprefix="self")
        sec = env.toQ(env.expr(v.right.args[0]))
        out.append("(* from Header.mjd_after_nsamps: Time(tstart, mjd) + TimeDelta(<seconds>) as days (86400 s per day; astropy's own arithmetic is trusted) *)")
        out.append(f"Definition mjd_after_nsamps (h : Hdr) (nsamps : Z) : Q := (h_tstart h + {sec} / 86400)%Q.\n")
    except Unsupported as e:
        errors.append(f"mjd_after_nsamps: {e}")
        out.append(f"(* UNSUPPORTED mjd_after_nsamps: {str(e).replace('*)', '* )')} *)\n")
    # ---- dedispersed_header ----
    try:
        fn = _meth(H, "dedispersed_header")
        b = _body(fn)
        if len(b) != 1 or not isinstance(b[0], ast.Return):
            raise Unsupported("dedispersed_header body changed")
        c = b[0].value
        if not (isinstance(c, ast.Call) and ast.unparse(c.func) == "self.new_header" and len(c.args) == 1 and isinstance(c.args[0], ast.Dict)):
            raise Unsupported("dedispersed_header is no longer self.new_header({...})")
        env = Env(H, fn, {"dm": "Q"}, hprefix="self")
        lst, keys = upd_list(env, c.args[0])
        out.append("(* from Header.dedispersed_header *)")
        out.append(f"Definition dedispersed_header_upd (dm : Q) : list (string * val) :=\n  {lst}.\n")
    except Unsupported as e:
        errors.append(f"dedispersed_header: {e}")
        out.append(f"(* UNSUPPORTED dedispersed_header: {str(e).replace('*)', '* )')} *)\n")

    # ---- readers.py ----
    rmod = _parse(repo, "sigpyproc/readers.py")
    FR = _cls(rmod, "FilReader")
    try:
        gen_read_block(out, errors, H, _meth(FR, "read_block"))
    except Unsupported as e:
        errors.append(f"read_block: {e}")
    TSC = {"classes": ("TimeSeries",), "data": "alloc"}
    try:
        gen_site(out, errors, H, "read_dedisp_block", _meth(FR, "read_dedisp_block"), {"start": "Z", "nsamps": "Z", "dm": "Q"}, "container",
                 ctor={"classes": ("FilterbankBlock",), "data": "alloc", "dm": True})
    except Unsupported as e:
        errors.append(f"read_dedisp_block: {e}")

    # ---- base.py ----
    bmod = _parse(repo, "sigpyproc/base.py")
    FB = _cls(bmod, "Filterbank")
    MD = {"max_delay": "int(chan_delays.max())"}

    def site(name, meth, params, kind, **kw):
        try:
            gen_site(out, errors, H, name, _meth(FB, meth), params, kind, **kw)
        except Unsupported as e:
            errors.append(f"{name}: {e}")
            out.append(f"(* UNSUPPORTED {name}: {str(e).replace('*)', '* )')} *)\n")

    site("collapse", "collapse", {"start": "Z", "nsamps": "Z", "nsamps_none": "B"}, "container", ctor=TSC)
    site("bandpass", "bandpass", {"start": "Z", "nsamps": "Z", "nsamps_none": "B"}, "container", ctor=TSC)
    site("dedisperse", "dedisperse", {"dm": "Q", "start": "Z", "nsamps": "Z", "nsamps_none": "B", "max_delay": "Z"}, "container", ctor=TSC, opaque=MD)
    site("read_chan", "read_chan", {"ichan": "Z", "start": "Z", "nsamps": "Z", "nsamps_none": "B"}, "container", ctor=TSC)
    site("invert_freq", "invert_freq", {"start": "Z"}, "file")
    site("apply_channel_mask", "apply_channel_mask", {"start": "Z"}, "file")
    site("downsample", "downsample", {"tfactor": "Z", "ffactor": "Z", "start": "Z"}, "file")
    site("extract_samps", "extract_samps", {"start": "Z", "nsamps": "Z"}, "file")

    def chk_chans(env, call, d):
        # `chan`, if the header uses it, must be the channel written into that very file
        if d is not None and uses_name(d, "chan") and not comp_binding_ok(env.fn, d, "chan", "batch_chans"):
            raise Unsupported("`chan` in the header of extract_chans is not bound by `for chan, filename in zip(batch_chans, batch_files)`")
        w = [ast.unparse(n) for n in ast.walk(env.fn) if isinstance(n, ast.Call) and ast.unparse(n.func) == "out_file.cwrite"]
        if w != ["out_file.cwrite(data_2d[:, batch_chans[ifile]])"]:
            raise Unsupported("extract_chans no longer writes data_2d[:, batch_chans[ifile]] into file ifile")
    site("extract_chans", "extract_chans", {"chan": "Z", "start": "Z"}, "file", extra_checks=chk_chans, allow_reassigned=("chan",))

    def chk_bands(env, call, d):
        src = ast.unparse(env.fn)
        for need in ("iband_chanstart = chanstart + (batch_start + ifile) * chanpersub",
                     "subband_ar = data_2d[:, iband_chanstart:iband_chanstart + chanpersub]",
                     "for i, filename in enumerate(batch_files)"):
            if need not in src:
                raise Unsupported("extract_bands: expected line not found: " + need)
    site("extract_bands", "extract_bands", {"chanstart": "Z", "chanpersub": "Z", "batch_start": "Z", "i": "Z", "start": "Z"}, "file",
         extra_checks=chk_bands, allow_reassigned=("batch_start", "i"))
    site("requantize", "requantize", {"nbits_out": "Z", "start": "Z"}, "file")
    site("remove_zerodm", "remove_zerodm", {"start": "Z"}, "file")
    site("subband", "subband", {"dm": "Q", "nsub": "Z", "start": "Z"}, "file")

    # ---- block.py ----
    kmod = _parse(repo, "sigpyproc/block.py")
    BB, FBk = _cls(kmod, "BaseBlock"), _cls(kmod, "FilterbankBlock")

    def bsite(name, cls, meth, params, kind, **kw):
        try:
            gen_site(out, errors, H, name, _meth(cls, meth), params, kind, **kw)
        except Unsupported as e:
            errors.append(f"{name}: {e}")
            out.append(f"(* UNSUPPORTED {name}: {str(e).replace('*)', '* )')} *)\n")

    BLK = ("FilterbankBlock", "self.__class__", "self._new_like")
    bsite("block_pad_samples", BB, "pad_samples", {"nsamps_final": "Z", "offset": "Z"}, "container", ctor={"classes": BLK, "data": "data_pad"})
    bsite("block_downsample", FBk, "downsample", {"ffactor": "Z", "tfactor": "Z", "blk_dm": "Q"}, "container",
          ctor={"classes": BLK, "data": "new_ar", "dm": True}, ext={"self.dm": ("blk_dm", "Q")})
    # BaseBlock.normalise / pad_samples build their result through self._new_like: FilterbankBlock's must hand the block's own DM over
    try:
        nl = [ast.unparse(s) for s in _meth(FBk, "_new_like").body if not (isinstance(s, ast.Expr) and isinstance(s.value, ast.Constant))]
        if nl != ["return FilterbankBlock(data, header, self.dm)"]:
            raise Unsupported("FilterbankBlock._new_like is not `return FilterbankBlock(data, header, self.dm)`: " + "; ".join(nl))
        for mname in ("normalise", "pad_samples"):
            rets = [n for n in ast.walk(_meth(BB, mname)) if isinstance(n, ast.Return)]
            if len(rets) != 1 or not (isinstance(rets[0].value, ast.Call) and ast.unparse(rets[0].value.func) == "self._new_like"):
                raise Unsupported(f"BaseBlock.{mname} no longer returns self._new_like(...)")
        out.append("(* FilterbankBlock._new_like(data, header) = FilterbankBlock(data, header, self.dm): the DM attribute of the block returned by\n"
                   "   BaseBlock.normalise / pad_samples *)\nDefinition cdm_block_new_like (blk_dm : Q) : Q := blk_dm.\n")
    except Unsupported as e:
        errors.append(f"block_new_like: {e}")
        out.append(f"(* UNSUPPORTED block_new_like: {str(e).replace('*)', '* )')} *)\n")
    bsite("block_get_tim", FBk, "get_tim", {"blk_dm": "Q"}, "container", ctor={"classes": ("TimeSeries",), "data": "ts"},
          ext={"self.dm": ("blk_dm", "Q")})
    bsite("block_dedisperse", FBk, "dedisperse", {"dm": "Q", "out_nsamps": "Z"}, "container",
          ctor={"classes": BLK, "data": "new_ar", "dm": True}, ext={"new_ar.shape[1]": ("out_nsamps", "Z")})
    bsite("block_to_file", FBk, "to_file", {"blk_dm": "Q"}, "file", ext={"self.dm": ("blk_dm", "Q")})

    # ---- timeseries.py ----
    tmod = _parse(repo, "sigpyproc/timeseries.py")
    TS = _cls(tmod, "TimeSeries")
    TSX = ("TimeSeries",)
    bsite("ts_downsample", TS, "downsample", {"factor": "Z", "out_len": "Z"}, "container", ctor={"classes": TSX, "data": "tim_data"},
          ext={"len(tim_data)": ("out_len", "Z")})
    bsite("ts_pad", TS, "pad", {"out_len": "Z"}, "container", ctor={"classes": TSX, "data": "tim_data"}, ext={"len(tim_data)": ("out_len", "Z")})
    bsite("ts_resample", TS, "resample", {"out_len": "Z"}, "container", ctor={"classes": TSX, "data": "tim_ar"}, ext={"tim_ar.size": ("out_len", "Z")})
    bsite("ts_correlate", TS, "correlate", {"out_len": "Z"}, "container", ctor={"classes": TSX, "data": "corr_ar"}, ext={"corr_ar.size": ("out_len", "Z")})
    bsite("ts_to_tim", TS, "to_tim", {}, "file")
    # TimeSeries -> TimeSeries methods that hand the header on unchanged: new_header() without updates, or self.header itself
    bsite("ts_normalise", TS, "normalise", {}, "container", ctor={"classes": TSX, "data": "zscore_re.data"})
    bsite("ts_apply_boxcar", TS, "apply_boxcar", {}, "container", ctor={"classes": TSX, "data": "boxcar_ar"})
    try:
        fn = _meth(TS, "deredden")
        rets = [n for n in ast.walk(fn) if isinstance(n, ast.Return)]
        if [ast.unparse(r) for r in rets] != ["return TimeSeries(tim_deredden, self.header)"] or header_calls(fn):
            raise Unsupported("TimeSeries.deredden no longer returns TimeSeries(tim_deredden, self.header)")
        out.append("(* from deredden (container): the header object of the input itself *)\nDefinition hdr_ts_deredden (h : Hdr) : Hdr := h.\n")
    except Unsupported as e:
        errors.append(f"ts_deredden: {e}")
        out.append(f"(* UNSUPPORTED ts_deredden: {str(e).replace('*)', '* )')} *)\n")
    bsite("block_normalise", BB, "normalise", {}, "container", ctor={"classes": BLK, "data": "zscore_re.data"})

    # ---- dispersion delays of either sign: dedisperse / subband refer them to the earliest channel ----
    try:
        txt = None
        for meth in ("dedisperse", "subband"):
            fn = _meth(FB, meth)
            asg = [n for n in ast.walk(fn) if isinstance(n, ast.Assign) and ast.unparse(n.targets[0]) in ("chan_delays", "max_delay")]
            asg.sort(key=lambda n: n.lineno)
            srcs = [ast.unparse(a) for a in asg]
            if len(srcs) != 3 or srcs[0] != "chan_delays = self.header.get_dmdelays(dm)" or srcs[2] != "max_delay = int(chan_delays.max())":
                raise Unsupported(f"{meth}: chan_delays / max_delay statements changed: " + " | ".join(srcs)[:200])
            v = asg[1].value
            if not (isinstance(v, ast.BinOp) and isinstance(v.op, ast.Sub) and ast.unparse(v.left) == "chan_delays"):
                raise Unsupported(f"{meth}: the delays are no longer shifted by subtracting a scalar: " + srcs[1][:100])
            env = Env(H, fn, {}, ext={"chan_delays.min()": ("dmin", "Z")})
            sh = env.expr(v.right)
            if sh[1] != "Z" or env.lets:
                raise Unsupported(f"{meth}: shift of the delays is not an integer expression of chan_delays.min()")
            if txt is not None and txt != sh[0]:
                raise Unsupported("dedisperse and subband shift their delays differently")
            txt = sh[0]
        out.append("(* from Filterbank.dedisperse / subband: chan_delays = get_dmdelays(dm) - <shift>; max_delay = int(chan_delays.max()).\n"
                   "   dmin, dmax: smallest / largest delay as get_dmdelays returns them (negative on an ascending band or for a negative DM) *)")
        out.append(f"Definition delay_shift (dmin : Z) : Z := {txt}.")
        out.append("Definition max_delay_referred (dmin dmax : Z) : Z := (dmax - delay_shift dmin)%Z.\n")
    except Unsupported as e:
        errors.append(f"delay_shift: {e}")
        out.append(f"(* UNSUPPORTED delay_shift: {str(e).replace('*)', '* )')} *)\n")

    # ---- kernels.roll_block_valid: which columns FilterbankBlock.dedisperse(only_valid_samples=True) keeps ----
    try:
        kern = _parse(repo, "sigpyproc/core/kernels.py")
        fn = [n for n in kern.body if isinstance(n, ast.FunctionDef) and n.name == "roll_block_valid"]
        if len(fn) != 1:
            raise Unsupported("kernels.roll_block_valid not found")
        fn = fn[0]
        src = ast.unparse(fn)
        for need in ("nrows, ncols = arr.shape", "res = np.empty((nrows, valid_cols), dtype=arr.dtype)",
                     "res[irow, :] = arr[irow, start_col - shift:end_col - shift]", "shift = shifts[irow]", "return res"):
            if need not in src:
                raise Unsupported("roll_block_valid: expected line not found: " + need)
        dd = ast.unparse(_meth(FBk, "dedisperse"))
        if "new_ar = kernels.roll_block_valid(self.data, -delays)" not in dd or "delays = self.header.get_dmdelays(dm, ref_freq=ref_freq)" not in dd:
            raise Unsupported("FilterbankBlock.dedisperse no longer calls kernels.roll_block_valid(self.data, -delays)")
        env = Env(H, fn, {"ncols": "Z"}, ext={"np.max(shifts)": ("smax", "Z"), "np.min(shifts)": ("smin", "Z")}, allow_reassigned=("ncols",))
        vc = env.expr(ast.Name(id="valid_cols", ctx=ast.Load()))
        lets = env.let_prefix()
        sc = env.vars["start_col"][0]
        out.append("(* from kernels.roll_block_valid(arr, shifts): res[row, j] = arr[row, start_col - shifts[row] + j] for j < valid_cols;\n"
                   "   smin, smax: smallest / largest shift.  FilterbankBlock.dedisperse passes shifts = -delays *)")
        out.append(f"Definition roll_valid_cols (ncols smin smax : Z) : Z :=\n{lets}  {vc[0]}.")
        out.append(f"Definition roll_valid_start (ncols smin smax : Z) : Z :=\n{lets}  {sc}.")
        out.append("Definition block_valid_cols (n dmin dmax : Z) : Z := roll_valid_cols n (- dmax) (- dmin).")
        out.append("Definition block_valid_start (n dmin dmax : Z) : Z := roll_valid_start n (- dmax) (- dmin).\n")
    except Unsupported as e:
        errors.append(f"roll_block_valid: {e}")
        out.append(f"(* UNSUPPORTED roll_block_valid: {str(e).replace('*)', '* )')} *)\n")
    return "\n".join(out) + "\n", errors


GENERATORS = {"C08.v": gen_c08}

if __name__ == "__main__":
    import sys
    t, errs = gen_c08(sys.argv[1] if len(sys.argv) > 1 else "/repo")
    print(t)
    for e in errs:
        print("ERROR", e, file=sys.stderr)
