"""py2coq plug-in for C17 (FoldedData.update_dm / update_period): Gen/FoldRefs.v.

What is read from the ast of sigpyproc/foldedcube.py (fresh on every run):
  * every assignment `self.X = ...` of class FoldedData, to classify the attributes that hold a DM or a period as
      - folding value  : assigned once, in __init__, from the constructor argument `dm` / `period`
      - current value  : assigned in __init__ from the argument AND in update_dm / update_period from the target
    (properties such as `self.dm` are resolved through their `return self._dm` body);
  * the argument expressions of the two delay computations: which of those attributes is the reference in
    `delta_dm = newdm - <ref>`, in `tsamp = <ref> / self.nbins`, and in the two places of
    `dbins = (newperiod / <ref> - 1) * self.header.tobs * self.nbins / <ref>`;
  * whether the result of params.compute_dmdelays (which squeezes a one-sub-band result to a 0-d array) is
    restored to one dimension before it is stored and indexed.
Everything else of update_dm, update_period, _get_dmdelays, _get_pdelays and the shape properties must be, statement by
statement, the text the hand model Model/C17_FoldedCube.v was written from; any other difference is an error
(fail closed) and makes the C17 proof side red."""
from __future__ import annotations

import ast

REL = "sigpyproc/foldedcube.py"
CLS = "FoldedData"


class Unsupported(Exception):
    pass


def _strip_doc(body):
    if body and isinstance(body[0], ast.Expr) and isinstance(body[0].value, ast.Constant) and isinstance(body[0].value.value, str):
        return body[1:]
    return body


def _cls(repo):
    mod = ast.parse(open(f"{repo}/{REL}").read())
    for node in mod.body:
        if isinstance(node, ast.ClassDef) and node.name == CLS:
            return node
    raise Unsupported(f"class {CLS} not found in {REL}")


def _methods(cls):
    out = {}
    for f in cls.body:
        if isinstance(f, ast.FunctionDef):
            isprop = any(isinstance(d, ast.Name) and d.id == "property" for d in f.decorator_list)
            if f.decorator_list and not isprop:
                raise Unsupported(f"{f.name}: unknown decorator {ast.unparse(f.decorator_list[0])}")
            if f.name in out:
                raise Unsupported(f"{f.name} defined twice")
            out[f.name] = (f, isprop)
        elif isinstance(f, (ast.Expr, ast.Pass)):
            continue
        else:
            raise Unsupported("class body statement " + ast.unparse(f)[:60])
    return out


def _args(fn):
    a = fn.args
    if a.vararg or a.kwarg or a.kwonlyargs or a.posonlyargs:
        raise Unsupported(f"{fn.name}: unusual signature")
    return [x.arg for x in a.args]


def _self_stores(cls):
    """all places where an attribute of self is (re)bound or mutated: {attr: [(method, kind, value_src)]}"""
    stores = {}

    def note(attr, meth, kind, val):
        stores.setdefault(attr, []).append((meth, kind, val))

    for f in cls.body:
        if not isinstance(f, ast.FunctionDef):
            continue
        for n in ast.walk(f):
            tgts = []
            if isinstance(n, ast.Assign):
                tgts, val = n.targets, ast.unparse(n.value)
            elif isinstance(n, (ast.AugAssign, ast.AnnAssign)):
                tgts, val = [n.target], "<aug>" if isinstance(n, ast.AugAssign) else (ast.unparse(n.value) if n.value else "<none>")
            elif isinstance(n, ast.Delete):
                tgts, val = n.targets, "<del>"
            elif isinstance(n, ast.Call) and isinstance(n.func, ast.Name) and n.func.id in ("setattr", "delattr"):
                raise Unsupported(f"{f.name}: {n.func.id}() on the object")
            elif isinstance(n, ast.Attribute) and isinstance(n.value, ast.Name) and n.value.id == "self" and n.attr == "__dict__":
                raise Unsupported(f"{f.name}: self.__dict__ used")
            for t in tgts:
                for tt in ast.walk(t):
                    if isinstance(tt, ast.Attribute) and isinstance(tt.value, ast.Name) and tt.value.id == "self" and isinstance(tt.ctx, (ast.Store, ast.Del)):
                        note(tt.attr, f.name, "assign", val)
    return stores


def _classify(stores, attr, which):
    """which in {'dm','period'}: 'fold' | 'cur' for attribute `attr`"""
    upd = "update_dm" if which == "dm" else "update_period"
    sites = sorted((m, v) for m, _k, v in stores.get(attr, []))
    if sites == [("__init__", which)]:
        return "fold"
    if sites == sorted([("__init__", which), (upd, which)]):
        return "cur"
    raise Unsupported(f"attribute self.{attr} is neither a folding nor a current {which}: assigned at {sites}")


def _resolve(meths, expr):
    """`self.X` -> underlying stored attribute name (through a property `return self._x`)"""
    if not (isinstance(expr, ast.Attribute) and isinstance(expr.value, ast.Name) and expr.value.id == "self"):
        raise Unsupported("reference is not an attribute of self: " + ast.unparse(expr))
    name = expr.attr
    seen = set()
    while name in meths:
        if name in seen:
            raise Unsupported("property cycle at " + name)
        seen.add(name)
        fn, isprop = meths[name]
        if not isprop:
            raise Unsupported(f"self.{name} is a method, not a value")
        body = _strip_doc(fn.body)
        if len(body) != 1 or not isinstance(body[0], ast.Return):
            raise Unsupported(f"property {name} is not a plain `return self._x`")
        r = body[0].value
        if not (isinstance(r, ast.Attribute) and isinstance(r.value, ast.Name) and r.value.id == "self"):
            raise Unsupported(f"property {name} returns {ast.unparse(r)}")
        name = r.attr
    return name


def _expect(fn_name, stmts, expected):
    """compare unparsed statements with the expected texts; entries of `expected` may be callables (stmt -> None, raising)"""
    if len(stmts) != len(expected):
        raise Unsupported(f"{fn_name}: {len(stmts)} statements, the model was written from {len(expected)}: "
                          + " | ".join(ast.unparse(s).split(chr(10))[0] for s in stmts)[:300])
    for s, e in zip(stmts, expected):
        if callable(e):
            e(s)
        elif ast.unparse(s) != e:
            raise Unsupported(f"{fn_name}: statement `{ast.unparse(s)[:120]}` differs from the modelled `{e}`")


def _props_exact(meths, table):
    for name, ret in table.items():
        if name not in meths or not meths[name][1]:
            raise Unsupported(f"property {name} missing")
        body = _strip_doc(meths[name][0].body)
        if len(body) != 1 or ast.unparse(body[0]) != f"return {ret}":
            raise Unsupported(f"property {name} is not `return {ret}`")


def analyse(repo):
    cls = _cls(repo)
    meths = _methods(cls)
    for m in ("__init__", "update_dm", "update_period", "_get_dmdelays", "_get_pdelays"):
        if m not in meths or meths[m][1]:
            raise Unsupported(f"method {m} missing")
    stores = _self_stores(cls)
    _props_exact(meths, {"data": "self._data", "header": "self._hdr", "nsubints": "self.data.shape[0]",
                         "nsubbands": "self.data.shape[1]", "nbins": "self.data.shape[2]"})
    # the cube and the header are bound once; the shift vectors only where the model says
    for attr, allowed in (("_data", {"__init__"}), ("_hdr", {"__init__"}),
                          ("_fph_shifts", {"__init__", "_get_dmdelays"}), ("_tph_shifts", {"__init__", "_get_pdelays"})):
        bad = {m for m, _k, _v in stores.get(attr, [])} - allowed
        if bad:
            raise Unsupported(f"self.{attr} is assigned in {sorted(bad)}")
    # no other method may touch the shift vectors or write the cube (reads through get_* are fine)
    for name, (fn, _p) in meths.items():
        if name in ("__init__", "_get_dmdelays", "_get_pdelays"):
            continue
        src = ast.unparse(fn)
        if "_fph_shifts" in src or "_tph_shifts" in src:
            raise Unsupported(f"{name} uses the shift vectors")
    # __init__: argument names, shift vectors start at zero, data converted once
    init = meths["__init__"][0]
    if _args(init)[:5] != ["self", "data", "hdr", "period", "dm"]:
        raise Unsupported("__init__ signature changed: " + ", ".join(_args(init)))
    isrc = [ast.unparse(s) for s in _strip_doc(init.body)]
    for need in ("self._data = np.asarray(data, dtype=np.float32)", "self._hdr = hdr",
                 "self._tph_shifts = np.zeros(self.nsubints, dtype=np.int32)",
                 "self._fph_shifts = np.zeros(self.nsubbands, dtype=np.int32)"):
        if need not in isrc:
            raise Unsupported("__init__: expected statement not found: " + need)
    for s in _strip_doc(init.body):
        if not (isinstance(s, ast.Assign) or (isinstance(s, ast.Expr) and ast.unparse(s) == "self._check_input()")):
            raise Unsupported("__init__: statement " + ast.unparse(s)[:80])

    holes = {}

    def ref(which, key):
        def chk_expr(e):
            holes[key] = _classify(stores, _resolve(meths, e), which)
        return chk_expr

    # ---- update_dm / update_period -----------------------------------------------------------------
    def updater(name, arg, getter, var, idx, attr_which):
        fn = meths[name][0]
        if _args(fn) != ["self", arg]:
            raise Unsupported(f"{name} signature changed")
        loop = (f"for isubint in range(self.nsubints):\n    for isubband in range(self.nsubbands):\n"
                f"        self.data[isubint][isubband] = np.roll(self.data[isubint][isubband], -{var}[{idx}], axis=0)")

        def last(s):
            if not (isinstance(s, ast.Assign) and len(s.targets) == 1 and ast.unparse(s.value) == arg):
                raise Unsupported(f"{name}: last statement `{ast.unparse(s)}` does not store the target")
            if _classify(stores, _resolve(meths, s.targets[0]), attr_which) != "cur":
                raise Unsupported(f"{name}: target stored in a non-current attribute")
        _expect(name, _strip_doc(fn.body), [f"{var} = self.{getter}({arg})", loop, last])

    updater("update_dm", "dm", "_get_dmdelays", "dmdelays", "isubband", "dm")
    updater("update_period", "period", "_get_pdelays", "pdelays", "isubint", "period")
    # the value reported by the properties dm / period must be the current one
    for prop, which in (("dm", "dm"), ("period", "period")):
        if prop not in meths or not meths[prop][1]:
            raise Unsupported(f"property {prop} missing")
        a = _resolve(meths, ast.Attribute(value=ast.Name(id="self"), attr=prop))
        if _classify(stores, a, which) != "cur":
            raise Unsupported(f"property {prop} does not report the current value")

    # ---- _get_dmdelays -----------------------------------------------------------------------------
    fn = meths["_get_dmdelays"][0]
    if _args(fn) != ["self", "newdm"]:
        raise Unsupported("_get_dmdelays signature changed")

    def s_delta(s):
        ok = (isinstance(s, ast.Assign) and ast.unparse(s.targets[0]) == "delta_dm" and isinstance(s.value, ast.BinOp)
              and isinstance(s.value.op, ast.Sub) and ast.unparse(s.value.left) == "newdm")
        if not ok:
            raise Unsupported("_get_dmdelays: `delta_dm = newdm - <ref>` not found: " + ast.unparse(s))
        ref("dm", "dm_delta")(s.value.right)

    def s_tsamp(s):
        ok = (isinstance(s, ast.Assign) and ast.unparse(s.targets[0]) == "tsamp" and isinstance(s.value, ast.BinOp)
              and isinstance(s.value.op, ast.Div) and ast.unparse(s.value.right) == "self.nbins")
        if not ok:
            raise Unsupported("_get_dmdelays: `tsamp = <ref> / self.nbins` not found: " + ast.unparse(s))
        ref("period", "dm_tsamp")(s.value.left)

    call = "params.compute_dmdelays(freqs, delta_dm, tsamp, self.header.fch1, in_samples=True)"

    def s_call(s):
        if not (isinstance(s, ast.Assign) and ast.unparse(s.targets[0]) == "drifts"):
            raise Unsupported("_get_dmdelays: `drifts = params.compute_dmdelays(...)` not found: " + ast.unparse(s))
        v = ast.unparse(s.value)
        if v == call:
            holes["dm_1d"] = False
        elif v in (f"np.atleast_1d({call})", f"{call}.reshape(-1)", f"{call}.reshape(self.nsubbands)",
                   f"np.reshape({call}, -1)", f"np.reshape({call}, self.nsubbands)"):
            holes["dm_1d"] = True
        else:
            raise Unsupported("_get_dmdelays: unrecognised delay call: " + v)

    zero_dm = "if delta_dm == 0:\n    drifts = -1 * self._fph_shifts\n    self._fph_shifts.fill(0)\n    return drifts"
    body = list(_strip_doc(fn.body))
    # optional statement right after the delay call that restores one dimension: `drifts = np.atleast_1d(drifts)` (or reshape)
    made_1d_after = False
    if len(body) == 10 and ast.unparse(body[6]) in ("drifts = np.atleast_1d(drifts)", "drifts = drifts.reshape(-1)",
                                                    "drifts = drifts.reshape(self.nsubbands)", "drifts = np.reshape(drifts, -1)"):
        made_1d_after = True
        del body[6]
    _expect("_get_dmdelays", body, [
        s_delta, zero_dm,
        "chan_width = self.header.foff * self.header.nchans / self.nsubbands",
        "freqs = np.arange(self.nsubbands, dtype=np.float64) * chan_width + self.header.fch1",
        s_tsamp, s_call,
        "bin_drifts = drifts - self._fph_shifts", "self._fph_shifts = drifts", "return bin_drifts"])
    holes["dm_1d"] = holes["dm_1d"] or made_1d_after

    # ---- _get_pdelays ------------------------------------------------------------------------------
    fn = meths["_get_pdelays"][0]
    if _args(fn) != ["self", "newperiod"]:
        raise Unsupported("_get_pdelays signature changed")

    def s_dbins(s):
        # dbins = (newperiod / <r1> - 1) * self.header.tobs * self.nbins / <r2>
        try:
            assert isinstance(s, ast.Assign) and ast.unparse(s.targets[0]) == "dbins"
            top = s.value
            assert isinstance(top, ast.BinOp) and isinstance(top.op, ast.Div)
            r2 = top.right
            m2 = top.left
            assert isinstance(m2, ast.BinOp) and isinstance(m2.op, ast.Mult) and ast.unparse(m2.right) == "self.nbins"
            m1 = m2.left
            assert isinstance(m1, ast.BinOp) and isinstance(m1.op, ast.Mult) and ast.unparse(m1.right) == "self.header.tobs"
            sub = m1.left
            assert isinstance(sub, ast.BinOp) and isinstance(sub.op, ast.Sub) and ast.unparse(sub.right) == "1"
            q = sub.left
            assert isinstance(q, ast.BinOp) and isinstance(q.op, ast.Div) and ast.unparse(q.left) == "newperiod"
            r1 = q.right
        except AssertionError:
            raise Unsupported("_get_pdelays: `dbins = (newperiod / <ref> - 1) * self.header.tobs * self.nbins / <ref>` not found: "
                              + ast.unparse(s)) from None
        ref("period", "p_ratio")(r1)
        ref("period", "p_scale")(r2)

    zero_p = "if dbins == 0:\n    drifts = -1 * self._tph_shifts\n    self._tph_shifts.fill(0)\n    return drifts"
    _expect("_get_pdelays", _strip_doc(fn.body), [
        s_dbins, zero_p,
        "drifts = np.arange(self.nsubints, dtype=np.float32)",
        "drifts = np.round(drifts / (self.nsubints / dbins)).astype(np.int32)",
        "bin_drifts = drifts - self._tph_shifts", "self._tph_shifts = drifts", "return bin_drifts"])
    text = {m: ast.unparse(ast.Module(body=_strip_doc(meths[m][0].body), type_ignores=[]))
            for m in ("update_dm", "update_period", "_get_dmdelays", "_get_pdelays")}
    holes["hdr_reads"], holes["hdr_writes"] = _header_frame(meths)
    return holes, text


HDR_MODEL_FIELDS = ("fch1", "foff", "nchans", "tobs")     # the fields of Model/C17_Header.v (hdrv)


def _is_hdr(e):
    """`self.header` or `self._hdr`"""
    return (isinstance(e, ast.Attribute) and isinstance(e.value, ast.Name) and e.value.id == "self" and e.attr in ("header", "_hdr"))


def _header_frame(meths):
    """what the four update methods do with the header: (sorted fields read, list of possible modifications).
    A modification is: a store / augmented store / del of `self.header.X` (-> "X"), rebinding self.header / self._hdr
    (-> "<rebind>"), calling a method of the header (-> "<call m>"), or letting the header object escape as an argument or an
    alias (-> "<escape>").  Fields read must be fields of the model's header record (fail closed)."""
    reads, writes = set(), []
    for name in ("update_dm", "update_period", "_get_dmdelays", "_get_pdelays"):
        fn = meths[name][0]
        parents = {}
        for n in ast.walk(fn):
            for c in ast.iter_child_nodes(n):
                parents[c] = n
        for n in ast.walk(fn):
            if not _is_hdr(n):
                continue
            if isinstance(n.ctx, (ast.Store, ast.Del)):
                writes.append("<rebind>")
                continue
            par = parents.get(n)
            if isinstance(par, ast.Attribute) and par.value is n:
                gp = parents.get(par)
                if isinstance(par.ctx, (ast.Store, ast.Del)):
                    writes.append(par.attr)
                elif isinstance(gp, ast.AugAssign) and gp.target is par:
                    writes.append(par.attr)
                elif isinstance(gp, ast.Call) and gp.func is par:
                    writes.append(f"<call {par.attr}>")
                elif isinstance(gp, (ast.Attribute, ast.Subscript)) and gp.value is par and isinstance(gp.ctx, (ast.Store, ast.Del)):
                    writes.append(par.attr)          # self.header.X.y = ... / self.header.X[k] = ...
                else:
                    if par.attr not in HDR_MODEL_FIELDS:
                        raise Unsupported(f"{name}: reads header field `{par.attr}`, which the model's header record does not have")
                    reads.add(par.attr)
            else:
                writes.append("<escape>")            # the header object itself is passed on / aliased
    return sorted(reads), writes


def gen_foldrefs(repo="/repo"):
    head = ["(* GENERATED by tools/py2coq/gen_c17.py from sigpyproc/foldedcube.py -- do not edit *)",
            "From Coq Require Import Bool String List.", "Import ListNotations.", ""]
    try:
        holes, text = analyse(repo)
    except Unsupported as e:
        return "\n".join(head + [f"(* UNSUPPORTED FoldedData: {str(e).replace('*)', '* )').replace('(*', '( *')} *)", ""]), [f"FoldedData: {e}"]
    b = lambda x: "true" if x else "false"  # noqa: E731
    out = head + [
        "(* Which stored value each delay computation takes as its reference: [true] = the value the cube was folded",
        "   with (an attribute bound once, in __init__), [false] = the value installed by the latest update. *)",
        "(* _get_dmdelays:  delta_dm = newdm - <ref> *)",
        f"Definition dm_delta_ref_is_fold : bool := {b(holes['dm_delta'] == 'fold')}.",
        "(* _get_dmdelays:  tsamp = <ref> / self.nbins *)",
        f"Definition dm_tsamp_ref_is_fold : bool := {b(holes['dm_tsamp'] == 'fold')}.",
        "(* _get_pdelays:   dbins = (newperiod / <ref> - 1) * ... *)",
        f"Definition p_ratio_ref_is_fold : bool := {b(holes['p_ratio'] == 'fold')}.",
        "(* _get_pdelays:   dbins = ... * self.header.tobs * self.nbins / <ref> *)",
        f"Definition p_scale_ref_is_fold : bool := {b(holes['p_scale'] == 'fold')}.",
        "(* _get_dmdelays:  the (squeezed) result of params.compute_dmdelays is made one-dimensional again before it is",
        "   stored in _fph_shifts and indexed by sub-band *)",
        f"Definition dm_drifts_made_1d : bool := {b(holes['dm_1d'])}.",
        "",
        "(* Frame of update_dm / update_period / _get_dmdelays / _get_pdelays on the observational metadata: the header fields",
        "   they read, and every place where they could modify the header (store to a field, rebinding, method call on the",
        "   header, the header object escaping).  Props/C17.v proves from [header_writes = nil] that no history changes it. *)",
        "Definition header_fields_read : list string := [" + "; ".join(f'"{x}"' for x in holes["hdr_reads"]) + "]%string.",
        "Definition header_writes : list string := [" + "; ".join(f'"{x}"' for x in holes["hdr_writes"]) + "]%string.",
        "",
        "(* The statements the hand model Model/C17_FoldedCube.v follows (checked statement by statement by the generator):"]
    for m, t in text.items():
        out.append(f"   --- {m}")
        for line in t.splitlines():
            out.append("   " + line.replace("*)", "* )").replace("(*", "( *"))
    out.append("*)")
    return "\n".join(out) + "\n", []


GENERATORS = {"FoldRefs.v": gen_foldrefs}

if __name__ == "__main__":
    import sys
    t, errs = gen_foldrefs(sys.argv[1] if len(sys.argv) > 1 else "/repo")
    print(t)
    for e in errs:
        print("ERROR", e, file=sys.stderr)
