"""gen_c05: translator plug-in for property C05 (SIGPROC header codec).

Reads the Python `ast` of the CURRENT sources sigpyproc/io/sigproc.py and sigpyproc/header.py and emits
coq/Gen/C05Header.v:

  * the tables `header_keys` (with struct codes), `telescope_ids`, `machine_ids` and the defaults used by
    `Header.telescope_id/machine_id` and `Header.from_sigproc`;
  * how `encode_key` computes the two length prefixes (number of characters or number of encoded bytes);
  * the constants and the sign/seconds formatting of `parse_radec`;
  * `flags_of_frame` (from `Header.to_sigproc`) and `frame_of_flags` (from `Header.from_sigproc`), translated
    statement by statement.

The control structure of `_read_string`, `parse_header`, `encode_header`, `edit_header` is hand-modelled in
coq/Model/C05_HeaderCodec.v; this plug-in pins their text (normalised by `ast.unparse`) so that any edit of
these functions is reported (fail closed) instead of being silently ignored.

Everything outside the recognised forms raises `Unsupported`, which the harness treats like a broken proof.
The module has no import-time dependency besides the standard library.
"""
from __future__ import annotations

import ast
import os


class Unsupported(Exception):
    pass


FRAMES = {"topocentric": 0, "barycentric": 1, "pulsarcentric": 2}
STRUCT_CODES = {"b": "Tb", "I": "TI", "d": "Td", "str": "Tstr"}


def zbytes(s: str) -> str:
    b = s.encode("utf-8")
    if any(c >= 128 for c in b):
        raise Unsupported(f"non-ASCII literal {s!r}")
    safe = s.replace("*)", "* )").replace("(*", "( *")
    return "[" + "; ".join(str(c) for c in b) + f"] (* {safe!r} *)"


def _module(repo, rel):
    path = os.path.join(repo, rel)
    return ast.parse(open(path).read())


def _toplevel_assign(mod, name):
    for node in mod.body:
        if isinstance(node, ast.Assign) and len(node.targets) == 1 and isinstance(node.targets[0], ast.Name) \
                and node.targets[0].id == name:
            return node.value
        if isinstance(node, ast.AnnAssign) and isinstance(node.target, ast.Name) and node.target.id == name and node.value:
            return node.value
    raise Unsupported(f"module-level assignment to {name} not found")


def _function(mod, name, cls=None):
    body = mod.body
    if cls is not None:
        for node in mod.body:
            if isinstance(node, ast.ClassDef) and node.name == cls:
                body = node.body
                break
        else:
            raise Unsupported(f"class {cls} not found")
    for node in body:
        if isinstance(node, ast.FunctionDef) and node.name == name:
            return node
    raise Unsupported(f"function {cls + '.' if cls else ''}{name} not found")


def _strip_doc(fn):
    body = list(fn.body)
    if body and isinstance(body[0], ast.Expr) and isinstance(body[0].value, ast.Constant) and isinstance(body[0].value.value, str):
        body = body[1:]
    return body


def _dict_literal(e, what):
    """{const: const} possibly wrapped in bidict(...)"""
    if isinstance(e, ast.Call) and ast.unparse(e.func) == "bidict" and len(e.args) == 1 and not e.keywords:
        e = e.args[0]
    if not isinstance(e, ast.Dict):
        raise Unsupported(f"{what}: not a dict literal")
    out = []
    for k, v in zip(e.keys, e.values):
        if not (isinstance(k, ast.Constant) and isinstance(v, ast.Constant)):
            raise Unsupported(f"{what}: non-constant entry {ast.unparse(k) if k else '**'}")
        out.append((k.value, v.value))
    return out


# ------------------------------------------------------------------------------------------------
# tables
# ------------------------------------------------------------------------------------------------
def tables(sp):
    out = []
    hk = _dict_literal(_toplevel_assign(sp, "header_keys"), "header_keys")
    names = [k for k, _ in hk]
    if len(set(names)) != len(names):
        raise Unsupported("header_keys: duplicate key in the literal")
    rows = []
    for k, code in hk:
        if not isinstance(k, str) or code not in STRUCT_CODES:
            raise Unsupported(f"header_keys: unknown struct code {code!r} for {k!r}")
        rows.append(f"  ({zbytes(k)}, {STRUCT_CODES[code]})")
    out.append("(* struct codes: 'b' one signed byte, 'I' 4-byte unsigned, 'd' 8-byte double, 'str' length-prefixed string *)")
    out.append("Inductive hty : Set := Tb | TI | Td | Tstr.")
    out.append("Definition header_keys : list (list Z * hty) := [\n" + ";\n".join(rows) + "\n].\n")
    for tname in ("telescope_ids", "machine_ids"):
        tb = _dict_literal(_toplevel_assign(sp, tname), tname)
        rows = []
        for k, v in tb:
            if not isinstance(k, str) or isinstance(v, bool) or not isinstance(v, int):
                raise Unsupported(f"{tname}: entry {k!r}: {v!r} is not str -> int")
            rows.append(f"  ({zbytes(k)}, {v})")
        # bidict() refuses duplicate keys or values at import time; the theorems re-check on the literal
        out.append(f"Definition {tname} : list (list Z * Z) := [\n" + ";\n".join(rows) + "\n].\n")
    return out


# ------------------------------------------------------------------------------------------------
# encode_key: which length does each prefix carry?
# ------------------------------------------------------------------------------------------------
def _bytes_expr(e, env, strvars, mod, depth=0):
    """symbolic value of a bytes-typed expression: list of atoms
       ('len', 'chars'|'bytes', var) | ('bytes', var) | ('pack',)"""
    if isinstance(e, ast.BinOp) and isinstance(e.op, ast.Add):
        return _bytes_expr(e.left, env, strvars, mod, depth) + _bytes_expr(e.right, env, strvars, mod, depth)
    if isinstance(e, ast.Name) and e.id in env:
        return list(env[e.id])
    if isinstance(e, ast.Call):
        f = ast.unparse(e.func)
        if f == "struct.pack" and len(e.args) == 2 and not e.keywords:
            fmt, arg = e.args
            if isinstance(fmt, ast.Constant) and fmt.value == "I":
                if isinstance(arg, ast.Call) and ast.unparse(arg.func) == "len" and len(arg.args) == 1:
                    a = arg.args[0]
                    if isinstance(a, ast.Name) and a.id in strvars:
                        return [("len", "chars", a.id)]
                    if isinstance(a, ast.Name) and a.id in env and env[a.id] and env[a.id][0][0] == "bytes" and len(env[a.id]) == 1:
                        return [("len", "bytes", env[a.id][0][1])]
                    if isinstance(a, ast.Call) and isinstance(a.func, ast.Attribute) and a.func.attr == "encode" and not a.args \
                            and not a.keywords and isinstance(a.func.value, ast.Name) and a.func.value.id in strvars:
                        return [("len", "bytes", a.func.value.id)]
                raise Unsupported("encode_key: length prefix of an unrecognised expression: " + ast.unparse(arg))
            if isinstance(fmt, ast.Name) and fmt.id == "value_type" and isinstance(arg, ast.Name) and arg.id == "value":
                return [("pack",)]
            raise Unsupported("encode_key: unrecognised struct.pack call " + ast.unparse(e))
        if isinstance(e.func, ast.Attribute) and e.func.attr == "encode" and not e.args and not e.keywords \
                and isinstance(e.func.value, ast.Name) and e.func.value.id in strvars:
            return [("bytes", e.func.value.id)]
        # a module-level helper taking one string
        if isinstance(e.func, ast.Name) and len(e.args) == 1 and not e.keywords and isinstance(e.args[0], ast.Name) \
                and e.args[0].id in strvars and depth == 0:
            try:
                helper = _function(mod, e.func.id)
            except Unsupported:
                raise Unsupported("encode_key: call of unknown function " + e.func.id) from None
            if len(helper.args.args) != 1 or helper.args.kwonlyargs or helper.args.vararg or helper.args.kwarg:
                raise Unsupported(f"{helper.name}: unexpected signature")
            p = helper.args.args[0].arg
            henv = {}
            res = None
            for s in _strip_doc(helper):
                if isinstance(s, ast.Assign) and len(s.targets) == 1 and isinstance(s.targets[0], ast.Name):
                    henv[s.targets[0].id] = _bytes_expr(s.value, henv, {p}, mod, depth + 1)
                elif isinstance(s, ast.Return) and s.value is not None:
                    res = _bytes_expr(s.value, henv, {p}, mod, depth + 1)
                    break
                else:
                    raise Unsupported(f"{helper.name}: unsupported statement {ast.unparse(s)[:60]}")
            if res is None:
                raise Unsupported(f"{helper.name}: no return")
            arg = e.args[0].id
            return [a[:-1] + (arg,) if a[0] in ("len", "bytes") else a for a in res]
    raise Unsupported("encode_key: unrecognised bytes expression " + ast.unparse(e)[:80])


def encode_key_modes(sp):
    fn = _function(sp, "encode_key")
    args = [a.arg for a in fn.args.args]
    if args != ["key", "value", "value_type"]:
        raise Unsupported(f"encode_key: signature changed: {args}")
    defaults = [ast.unparse(d) for d in fn.args.defaults]
    if defaults != ["None", "'str'"]:
        raise Unsupported(f"encode_key: defaults changed: {defaults}")
    env = {}
    returns = []     # (guard text, atoms)
    for s in _strip_doc(fn):
        if isinstance(s, ast.Assign) and len(s.targets) == 1 and isinstance(s.targets[0], ast.Name):
            env[s.targets[0].id] = _bytes_expr(s.value, env, {"key"}, sp)
        elif isinstance(s, ast.If) and not s.orelse:
            guard = ast.unparse(s.test)
            strvars = {"key", "value"} if "isinstance(value, str)" in guard else {"key"}
            benv = dict(env)
            ret = None
            for t in s.body:
                if isinstance(t, ast.Assign) and len(t.targets) == 1 and isinstance(t.targets[0], ast.Name):
                    benv[t.targets[0].id] = _bytes_expr(t.value, benv, strvars, sp)
                elif isinstance(t, ast.Return) and t.value is not None:
                    ret = _bytes_expr(t.value, benv, strvars, sp)
                    break
                else:
                    raise Unsupported("encode_key: unsupported statement " + ast.unparse(t)[:60])
            if ret is None:
                raise Unsupported("encode_key: branch without return: " + guard)
            returns.append((guard, ret))
        elif isinstance(s, ast.Return) and s.value is not None:
            returns.append(("", _bytes_expr(s.value, env, {"key"}, sp)))
            break
        else:
            raise Unsupported("encode_key: unsupported statement " + ast.unparse(s)[:60])
    guards = [g for g, _ in returns]
    if guards != ["value is None", "value_type == 'str' and isinstance(value, str)", ""]:
        raise Unsupported(f"encode_key: branch structure changed: {guards}")
    shapes = [[(a[0],) + ((a[2],) if len(a) == 3 else (a[1],) if len(a) == 2 else ()) for a in r] for _, r in returns]
    want = [[("len", "key"), ("bytes", "key")],
            [("len", "key"), ("bytes", "key"), ("len", "value"), ("bytes", "value")],
            [("len", "key"), ("bytes", "key"), ("pack",)]]
    if shapes != want:
        raise Unsupported(f"encode_key: byte layout changed: {shapes}")
    kmodes = {r[0][1] for _, r in returns}
    if len(kmodes) != 1:
        raise Unsupported("encode_key: the key length prefix is computed differently in different branches")
    kmode = kmodes.pop()
    vmode = returns[1][1][2][1]
    return kmode == "chars", vmode == "chars"


# ------------------------------------------------------------------------------------------------
# pinned text of the hand-modelled functions
# ------------------------------------------------------------------------------------------------
PINNED = {
    "_read_string": [
        "strlen = struct.unpack('I', fp.read(struct.calcsize('I')))[0]",
        "return fp.read(strlen).decode()",
    ],
    "encode_header": [
        "hdr_encoded = encode_key('HEADER_START')",
        "for key, value in header.items():",
        "if key not in header_keys:",
        "continue",
        "hdr_encoded += encode_key(key, value=value, value_type=header_keys[key])",
        "hdr_encoded += encode_key('HEADER_END')",
        "return hdr_encoded",
    ],
    "parse_header": [
        "filepath = validate_path(filename)",
        "with filepath.open('rb') as fp:",
        "header: dict[str, float | str] = {}",
        "try:",
        "key = _read_string(fp)",
        "except struct.error:",
        "msg = f'File {filename} Header is not in sigproc format... Is file empty?.'",
        "raise OSError(msg) from None",
        "if key != 'HEADER_START':",
        "msg = f'File {filename} Header is not in sigproc format.'",
        "raise OSError(msg)",
        "while True:",
        "key = _read_string(fp)",
        "if key == 'HEADER_END':",
        "break",
        "key_fmt = header_keys[key]",
        "if key_fmt == 'str':",
        "header[key] = _read_string(fp)",
        "else:",
        "header[key] = struct.unpack(key_fmt, fp.read(struct.calcsize(key_fmt)))[0]",
        "header['hdrlen'] = fp.tell()",
        "fp.seek(0, 2)",
        "header['filelen'] = fp.tell()",
        "header['datalen'] = int(header['filelen']) - int(header['hdrlen'])",
        "header['nsamples'] = 8 * int(header['datalen']) // int(header['nbits']) // int(header['nchans'])",
        "fp.seek(0)",
        "header['filename'] = filepath.as_posix()",
        "return header",
    ],
    "edit_header": [
        "if key not in header_keys:",
        "msg = f\"Key '{key}' is not a valid sigproc key.\"",
        "raise ValueError(msg)",
        "header = parse_header(filename)",
        "if key == 'source_name' and isinstance(value, str):",
        "oldlen = len(header['source_name'])",
        "value = value[:oldlen] + ' ' * (oldlen - len(value))",
        "hdr = header.copy()",
        "hdr.update({key: value})",
        "new_hdr = encode_header(hdr)",
        "filepath = validate_path(filename, writable=True)",
        "if header['hdrlen'] == len(new_hdr):",
        "with filepath.open('rb+') as fp:",
        "fp.seek(0)",
        "fp.write(new_hdr)",
        "else:",
        "msg = f'New header is too long/short for file {filename}'",
        "raise ValueError(msg)",
    ],
}


def pinned_text(sp):
    out, errors = [], []
    for name, want in PINNED.items():
        try:
            fn = _function(sp, name)
            fn2 = ast.FunctionDef(name=fn.name, args=fn.args, body=_strip_doc(fn), decorator_list=[], returns=None,
                                  type_comment=None, lineno=0, col_offset=0)
            try:
                fn2.type_params = []
            except Exception:  # noqa: BLE001
                pass
            got = [ln.strip() for ln in ast.unparse(ast.fix_missing_locations(fn2)).splitlines()[1:]]
            if got != want:
                import difflib
                d = [x for x in difflib.unified_diff(want, got, lineterm="", n=0) if not x.startswith(("---", "+++", "@@"))]
                raise Unsupported(f"{name}: statements differ from the hand-modelled text: " + " | ".join(d)[:300])
            out.append(f"(* {name}: text identical to the version modelled in Model/C05_HeaderCodec.v *)")
        except Unsupported as e:
            errors.append(str(e))
    return out, errors


# ------------------------------------------------------------------------------------------------
# parse_radec
# ------------------------------------------------------------------------------------------------
def _divmod_stmt(s, want_targets, want_arg_text):
    """`a, b = divmod(x, CONST)` -> CONST"""
    if not (isinstance(s, ast.Assign) and len(s.targets) == 1 and isinstance(s.targets[0], ast.Tuple)):
        raise Unsupported("parse_radec: expected a divmod assignment, got " + ast.unparse(s)[:60])
    tg = [ast.unparse(t) for t in s.targets[0].elts]
    v = s.value
    if tg != want_targets or not (isinstance(v, ast.Call) and ast.unparse(v.func) == "divmod" and len(v.args) == 2):
        raise Unsupported("parse_radec: expected %s = divmod(...), got %s" % (", ".join(want_targets), ast.unparse(s)[:60]))
    if ast.unparse(v.args[0]) != want_arg_text:
        raise Unsupported(f"parse_radec: divmod argument {ast.unparse(v.args[0])} (expected {want_arg_text})")
    c = v.args[1]
    if not (isinstance(c, ast.Constant) and isinstance(c.value, int) and not isinstance(c.value, bool) and c.value > 0):
        raise Unsupported("parse_radec: divmod by a non-constant " + ast.unparse(c))
    return c.value


def _sec_format(fv, name):
    """FormattedValue for a seconds field -> None (repr) or number of fixed decimals"""
    if ast.unparse(fv.value) != name or fv.conversion != -1:
        raise Unsupported(f"parse_radec: seconds field is {ast.unparse(fv.value)} (expected {name})")
    if fv.format_spec is None:
        return None
    spec = fv.format_spec
    if not (isinstance(spec, ast.JoinedStr) and len(spec.values) == 1 and isinstance(spec.values[0], ast.Constant)):
        raise Unsupported("parse_radec: dynamic format spec")
    txt = spec.values[0].value
    import re
    m = re.fullmatch(r"\.(\d+)f", txt)
    if not m:
        raise Unsupported(f"parse_radec: seconds format spec {txt!r} not modelled (only repr or .Nf)")
    return int(m.group(1))


def parse_radec_modes(sp):
    fn = _function(sp, "parse_radec")
    if [a.arg for a in fn.args.args] != ["src_raj", "src_dej"]:
        raise Unsupported("parse_radec: signature changed")
    body = _strip_doc(fn)
    if len(body) != 7:
        raise Unsupported(f"parse_radec: {len(body)} statements (7 modelled)")
    ra_hi = _divmod_stmt(body[0], ["ho", "mi"], "src_raj")
    ra_lo = _divmod_stmt(body[1], ["mi", "se"], "mi")
    # sign
    s = body[2]
    if not (isinstance(s, ast.Assign) and ast.unparse(s.targets[0]) == "sign" and isinstance(s.value, ast.IfExp)
            and ast.unparse(s.value.test) == "src_dej < 0"):
        raise Unsupported("parse_radec: sign assignment not of the form `sign = A if src_dej < 0 else B`: " + ast.unparse(s)[:80])
    try:
        sneg, spos = ast.literal_eval(s.value.body), ast.literal_eval(s.value.orelse)
    except (ValueError, SyntaxError):
        raise Unsupported("parse_radec: sign values are not literals: " + ast.unparse(s)[:80]) from None
    de_hi = _divmod_stmt(body[3], ["de", "ami"], "abs(src_dej)")
    de_lo = _divmod_stmt(body[4], ["ami", "ase"], "ami")
    s = body[5]
    if not (isinstance(s, ast.Assign) and ast.unparse(s.targets[0]) == "radec_str" and isinstance(s.value, ast.JoinedStr)):
        raise Unsupported("parse_radec: radec_str is not an f-string")
    # split the f-string into blank-separated tokens of pieces
    tokens, cur = [], []
    for part in s.value.values:
        if isinstance(part, ast.Constant):
            txt = part.value
            if txt.strip(" ") != "":
                raise Unsupported(f"parse_radec: literal text {txt!r} inside radec_str")
            if cur:
                tokens.append(cur)
                cur = []
            if len(txt) != 1:
                raise Unsupported("parse_radec: fields separated by more than one blank")
        else:
            cur.append(part)
    if cur:
        tokens.append(cur)
    if len(tokens) != 6:
        raise Unsupported(f"parse_radec: radec_str has {len(tokens)} fields (6 modelled)")

    def single(tok, text):
        if len(tok) != 1 or ast.unparse(tok[0].value) != text or tok[0].format_spec is not None or tok[0].conversion != -1:
            raise Unsupported("parse_radec: field " + "".join(ast.unparse(t.value) for t in tok) + f" (expected {text})")
    single(tokens[0], "int(ho)")
    single(tokens[1], "int(mi)")
    ra_fix = _sec_format(tokens[2][0], "se") if len(tokens[2]) == 1 else None
    if len(tokens[2]) != 1:
        raise Unsupported("parse_radec: RA seconds field")
    single(tokens[4], "int(ami)")
    if len(tokens[5]) != 1:
        raise Unsupported("parse_radec: Dec seconds field")
    de_fix = _sec_format(tokens[5][0], "ase")
    t = tokens[3]
    if len(t) == 1:
        txt = ast.unparse(t[0].value)
        if txt not in ("sign * int(de)", "int(de) * sign") or t[0].format_spec is not None or t[0].conversion != -1:
            raise Unsupported("parse_radec: degree field " + txt)
        if (sneg, spos) != (-1, 1):
            raise Unsupported(f"parse_radec: numeric sign values {(sneg, spos)!r}")
        numeric = True
    elif len(t) == 2:
        if ast.unparse(t[0].value) != "sign" or ast.unparse(t[1].value) != "int(de)" or any(x.format_spec is not None or x.conversion != -1 for x in t):
            raise Unsupported("parse_radec: degree field " + "".join(ast.unparse(x.value) for x in t))
        if sneg != "-" or spos not in ("", "+"):
            raise Unsupported(f"parse_radec: textual sign values {(sneg, spos)!r}")
        numeric = False
    else:
        raise Unsupported("parse_radec: degree field has %d pieces" % len(t))
    r = body[6]
    if not (isinstance(r, ast.Return) and ast.unparse(r.value) == "SkyCoord(radec_str, unit=(units.hourangle, units.deg))"):
        raise Unsupported("parse_radec: return statement changed: " + ast.unparse(r)[:80])
    for nm, fx in (("RA", ra_fix), ("Dec", de_fix)):
        if fx is not None and fx < 8:
            raise Unsupported(f"parse_radec: {nm} seconds printed with {fx} < 8 decimals (rounding of the seconds is not modelled)")
    return dict(ra_hi=ra_hi, ra_lo=ra_lo, de_hi=de_hi, de_lo=de_lo, numeric=numeric, ra_fix=ra_fix, de_fix=de_fix)


# ------------------------------------------------------------------------------------------------
# frames
# ------------------------------------------------------------------------------------------------
FLAGS = ("pulsarcentric", "barycentric")


def _flag_of_get(e, holder):
    """header.get("k") / header.get("k", 0) / header["k"] -> k"""
    if isinstance(e, ast.Call) and isinstance(e.func, ast.Attribute) and e.func.attr == "get" and ast.unparse(e.func.value) == holder \
            and e.args and isinstance(e.args[0], ast.Constant) and e.args[0].value in FLAGS and not e.keywords:
        if len(e.args) == 1 or (len(e.args) == 2 and isinstance(e.args[1], ast.Constant) and e.args[1].value in (0, None, False)):
            return e.args[0].value
    if isinstance(e, ast.Subscript) and ast.unparse(e.value) == holder and isinstance(e.slice, ast.Constant) and e.slice.value in FLAGS:
        return e.slice.value
    return None


def _ftest(e, holder):
    k = _flag_of_get(e, holder)
    if k is not None:
        return f"(negb ({k} =? 0))"
    if isinstance(e, ast.UnaryOp) and isinstance(e.op, ast.Not):
        return f"(negb {_ftest(e.operand, holder)})"
    if isinstance(e, ast.BoolOp):
        op = "&&" if isinstance(e.op, ast.And) else "||"
        return "(" + f" {op} ".join(_ftest(v, holder) for v in e.values) + ")"
    if isinstance(e, ast.Compare) and len(e.ops) == 1 and isinstance(e.comparators[0], ast.Constant) \
            and isinstance(e.comparators[0].value, int) and not isinstance(e.comparators[0].value, bool):
        k = _flag_of_get(e.left, holder)
        c = e.comparators[0].value
        if k is not None and isinstance(e.ops[0], ast.Eq):
            return f"({k} =? {c})"
        if k is not None and isinstance(e.ops[0], ast.NotEq):
            return f"(negb ({k} =? {c}))"
    raise Unsupported("from_sigproc: frame test not recognised: " + ast.unparse(e)[:80])


def _fexpr(e, holder, defined):
    if isinstance(e, ast.Constant) and isinstance(e.value, str):
        if e.value not in FRAMES:
            raise Unsupported(f"from_sigproc: unknown frame name {e.value!r}")
        return str(FRAMES[e.value])
    if isinstance(e, ast.Name) and e.id == "frame":
        if not defined:
            raise Unsupported("from_sigproc: `frame` read before assignment")
        return "frame"
    if isinstance(e, ast.IfExp):
        return f"(if {_ftest(e.test, holder)} then {_fexpr(e.body, holder, defined)} else {_fexpr(e.orelse, holder, defined)})"
    raise Unsupported("from_sigproc: frame expression not recognised: " + ast.unparse(e)[:80])


def _fstmts(stmts, holder, defined):
    """sequence of statements assigning `frame` -> (list of `let frame := e in` lines, defined afterwards)"""
    lines = []
    for s in stmts:
        if isinstance(s, ast.Assign) and len(s.targets) == 1 and ast.unparse(s.targets[0]) == "frame":
            lines.append(f"let frame := {_fexpr(s.value, holder, defined)} in")
            defined = True
        elif isinstance(s, ast.If):
            tl, td = _fstmts(s.body, holder, defined)
            el, ed = _fstmts(s.orelse, holder, defined)
            if not (td and ed):
                raise Unsupported("from_sigproc: a branch of `if` leaves `frame` unassigned")
            lines.append(f"let frame := (if {_ftest(s.test, holder)} then ({' '.join(tl)} frame) else ({' '.join(el)} frame)) in")
            defined = True
        else:
            raise Unsupported("from_sigproc: statement not recognised in the frame computation: " + ast.unparse(s)[:80])
    return lines, defined


def _mentions_frame(s):
    return any(isinstance(n, ast.Name) and n.id == "frame" and isinstance(n.ctx, ast.Store) for n in ast.walk(s))


def frames(hd):
    out = []
    # to_sigproc: the two flag entries of hdr_update
    fn = _function(hd, "to_sigproc", "Header")
    upd = None
    for s in _strip_doc(fn):
        if isinstance(s, ast.Assign) and ast.unparse(s.targets[0]) == "hdr_update" and isinstance(s.value, ast.Dict):
            upd = s.value
    if upd is None:
        raise Unsupported("to_sigproc: hdr_update dict literal not found")
    entries = {k.value: v for k, v in zip(upd.keys, upd.values) if isinstance(k, ast.Constant)}
    exprs = {}
    for flag in FLAGS:
        if flag not in entries:
            raise Unsupported(f"to_sigproc: no '{flag}' entry in hdr_update")
        v = entries[flag]
        if isinstance(v, ast.Call) and ast.unparse(v.func) == "int" and len(v.args) == 1:
            v = ast.IfExp(test=v.args[0], body=ast.Constant(1), orelse=ast.Constant(0))
        if not (isinstance(v, ast.IfExp) and isinstance(v.body, ast.Constant) and isinstance(v.orelse, ast.Constant)
                and isinstance(v.body.value, int) and isinstance(v.orelse.value, int)
                and isinstance(v.test, ast.Compare) and len(v.test.ops) == 1 and isinstance(v.test.ops[0], ast.Eq)
                and ast.unparse(v.test.left) == "self.frame" and isinstance(v.test.comparators[0], ast.Constant)
                and v.test.comparators[0].value in FRAMES):
            raise Unsupported(f"to_sigproc: '{flag}' entry not of the form `A if self.frame == NAME else B`: " + ast.unparse(entries[flag])[:80])
        exprs[flag] = f"(if frame =? {FRAMES[v.test.comparators[0].value]} then {int(v.body.value)} else {int(v.orelse.value)})"
    # the update must win over the attribute dictionary: check `sig_header.update(hdr_update)` follows
    txt = ast.unparse(fn)
    if "sig_header.update(hdr_update)" not in txt or "return sig_header" not in txt:
        raise Unsupported("to_sigproc: hdr_update is not merged into the returned dictionary")
    out.append("(* frames: 0 topocentric, 1 barycentric, 2 pulsarcentric *)")
    out.append("(* from Header.to_sigproc: (pulsarcentric, barycentric) flags written for a frame *)")
    out.append(f"Definition flags_of_frame (frame : Z) : Z * Z :=\n  ({exprs['pulsarcentric']}, {exprs['barycentric']}).\n")
    # from_sigproc
    fn = _function(hd, "from_sigproc", "Header")
    body = _strip_doc(fn)
    if not (body and isinstance(body[0], ast.Assign) and ast.unparse(body[0].targets[0]) == "header"
            and ast.unparse(body[0].value).startswith("sigproc.parse_header_multi(")):
        raise Unsupported("from_sigproc: first statement is not header = sigproc.parse_header_multi(...)")
    fstm, upd, rest = [], None, []
    for s in body[1:]:
        if isinstance(s, ast.Assign) and ast.unparse(s.targets[0]) == "hdr_update" and isinstance(s.value, ast.Dict):
            upd = s.value
        elif upd is None and _mentions_frame(s):
            fstm.append(s)
        else:
            if _mentions_frame(s):
                raise Unsupported("from_sigproc: `frame` assigned after hdr_update")
            rest.append(s)
    if upd is None:
        raise Unsupported("from_sigproc: hdr_update dict literal not found")
    entries = {k.value: v for k, v in zip(upd.keys, upd.values) if isinstance(k, ast.Constant)}
    if "frame" not in entries:
        raise Unsupported("from_sigproc: hdr_update has no 'frame' entry")
    lines, defined = _fstmts(fstm, "header", False)
    final = _fexpr(entries["frame"], "header", defined)
    if "header.update(hdr_update)" not in ast.unparse(fn):
        raise Unsupported("from_sigproc: hdr_update is not merged into the header")
    out.append("(* from Header.from_sigproc: frame chosen from the two flags (an absent key reads as 0) *)")
    out.append("Definition frame_of_flags (pulsarcentric barycentric : Z) : Z :=\n  "
               + "\n  ".join(lines + [final]) + ".\n")
    # ids: defaults
    for prop, table in (("telescope_id", "telescope_ids"), ("machine_id", "machine_ids")):
        p = _function(hd, prop, "Header")
        attr = "telescope" if prop == "telescope_id" else "backend"
        stm = _strip_doc(p)
        if not (len(stm) == 1 and isinstance(stm[0], ast.Return) and isinstance(stm[0].value, ast.Call)
                and ast.unparse(stm[0].value.func) == f"sigproc.{table}.get" and len(stm[0].value.args) == 2
                and ast.unparse(stm[0].value.args[0]) == f"self.{attr}" and isinstance(stm[0].value.args[1], ast.Constant)
                and isinstance(stm[0].value.args[1].value, int)):
            raise Unsupported(f"Header.{prop}: not `return sigproc.{table}.get(self.{attr}, DEFAULT)`")
        out.append(f"Definition {prop}_default : Z := {stm[0].value.args[1].value}.  (* Header.{prop} *)")
        key = attr
        if key not in entries:
            raise Unsupported(f"from_sigproc: hdr_update has no '{key}' entry")
        v = entries[key]
        ok = (isinstance(v, ast.Call) and ast.unparse(v.func) in (f"sigproc.{table}.inv.get", f"sigproc.{table}.inverse.get")
              and len(v.args) == 2 and isinstance(v.args[1], ast.Constant) and isinstance(v.args[1].value, str))
        if ok:
            inner = v.args[0]
            ok = (isinstance(inner, ast.Call) and ast.unparse(inner.func) == "header.get" and len(inner.args) == 2
                  and isinstance(inner.args[0], ast.Constant) and inner.args[0].value == prop
                  and isinstance(inner.args[1], ast.Constant) and isinstance(inner.args[1].value, int))
        if not ok:
            raise Unsupported(f"from_sigproc: '{key}' entry not `sigproc.{table}.inv.get(header.get('{prop}', D), NAME)`: " + ast.unparse(v)[:100])
        out.append(f"Definition {attr}_missing_id : Z := {inner.args[1].value}.  (* from_sigproc: id assumed when the key is absent *)")
        out.append(f"Definition {attr}_default_name : list Z := {zbytes(v.args[1].value)}.\n")
    # to_sigproc takes telescope_id / machine_id from the properties (to_dict with properties)
    ts = ast.unparse(_function(hd, "to_sigproc", "Header"))
    if "header = self.to_dict()" not in ts or "if key in sigproc.header_keys" not in ts:
        raise Unsupported("to_sigproc: the attribute/property dictionary is no longer filtered by sigproc.header_keys")
    return out


# ------------------------------------------------------------------------------------------------
# pointing angles: which Angle attribute does to_sigproc write, in which unit does from_sigproc read it back?
# ------------------------------------------------------------------------------------------------
POINTING = {"za_start": "zenith", "az_start": "azimuth"}
ATTR_CODE = {"zenith": 0, "azimuth": 1}
KEY_CODE = {"za_start": 0, "az_start": 1}
DEG_UNITS = ("units.deg", "units.degree", "'deg'", "'degree'", "u.deg", "u.degree")


def _angle_written(e, key):
    """expression of a hdr_update entry -> (Header attribute, written in degrees?)"""
    txt0 = ast.unparse(e)
    if isinstance(e, ast.Call) and ast.unparse(e.func) == "float" and len(e.args) == 1 and not e.keywords:
        e = e.args[0]
    attr = None
    indeg = None
    if isinstance(e, ast.Attribute) and isinstance(e.value, ast.Attribute) and ast.unparse(e.value.value) == "self":
        attr = e.value.attr
        if e.attr in ("deg", "degree"):
            indeg = True
        elif e.attr == "value":
            indeg = False                                  # the number in whatever unit the Angle is held
    elif isinstance(e, ast.Call) and isinstance(e.func, ast.Attribute) and e.func.attr == "to_value" and len(e.args) == 1 \
            and not e.keywords and isinstance(e.func.value, ast.Attribute) and ast.unparse(e.func.value.value) == "self" \
            and ast.unparse(e.args[0]) in DEG_UNITS:
        attr, indeg = e.func.value.attr, True
    elif isinstance(e, ast.Attribute) and e.attr == "value" and isinstance(e.value, ast.Call) and isinstance(e.value.func, ast.Attribute) \
            and e.value.func.attr == "to" and len(e.value.args) == 1 and ast.unparse(e.value.args[0]) in DEG_UNITS \
            and isinstance(e.value.func.value, ast.Attribute) and ast.unparse(e.value.func.value.value) == "self":
        attr, indeg = e.value.func.value.attr, True
    if attr not in ATTR_CODE or indeg is None:
        raise Unsupported(f"to_sigproc: '{key}' entry not recognised (self.<zenith|azimuth>.deg / .to_value(units.deg) / .value): {txt0[:80]}")
    return attr, indeg


def _angle_read(e, attr):
    """from_sigproc entry `Angle(header.get(KEY, 0) * units.deg)` -> KEY"""
    txt = ast.unparse(e)
    if not (isinstance(e, ast.Call) and ast.unparse(e.func) == "Angle" and len(e.args) == 1):
        raise Unsupported(f"from_sigproc: '{attr}' entry is not Angle(...): {txt[:80]}")
    a = e.args[0]
    unit_ok = False
    if isinstance(a, ast.BinOp) and isinstance(a.op, ast.Mult) and ast.unparse(a.right) in DEG_UNITS and not e.keywords:
        a, unit_ok = a.left, True
    elif len(e.keywords) == 1 and e.keywords[0].arg == "unit" and ast.unparse(e.keywords[0].value) in DEG_UNITS:
        unit_ok = True
    if not unit_ok:
        raise Unsupported(f"from_sigproc: '{attr}' is not read in degrees: {txt[:80]}")
    if not (isinstance(a, ast.Call) and ast.unparse(a.func) == "header.get" and len(a.args) == 2 and isinstance(a.args[0], ast.Constant)
            and a.args[0].value in KEY_CODE and isinstance(a.args[1], ast.Constant) and a.args[1].value == 0):
        raise Unsupported(f"from_sigproc: '{attr}' entry not Angle(header.get(KEY, 0) * units.deg): {txt[:80]}")
    return a.args[0].value


def pointing(hd):
    out = ["(* pointing angles.  Header attributes: 0 zenith, 1 azimuth; SIGPROC keys (defined in degrees): 0 za_start, 1 az_start *)"]
    fn = _function(hd, "to_sigproc", "Header")
    upd = None
    for s in _strip_doc(fn):
        if isinstance(s, ast.Assign) and ast.unparse(s.targets[0]) == "hdr_update" and isinstance(s.value, ast.Dict):
            upd = s.value
    if upd is None:
        raise Unsupported("to_sigproc: hdr_update dict literal not found")
    entries = {k.value: v for k, v in zip(upd.keys, upd.values) if isinstance(k, ast.Constant)}
    for key in POINTING:
        if key not in entries:
            raise Unsupported(f"to_sigproc: no '{key}' entry in hdr_update")
        attr, indeg = _angle_written(entries[key], key)
        out.append(f"(* from Header.to_sigproc: {key} = {ast.unparse(entries[key])} *)")
        out.append(f"Definition {key}_attr : Z := {ATTR_CODE[attr]}.")
        out.append(f"Definition {key}_in_deg : bool := {'true' if indeg else 'false'}.  (* false: the raw .value in the Angle's own unit *)")
    fn = _function(hd, "from_sigproc", "Header")
    upd = None
    for s in _strip_doc(fn):
        if isinstance(s, ast.Assign) and ast.unparse(s.targets[0]) == "hdr_update" and isinstance(s.value, ast.Dict):
            upd = s.value
    if upd is None:
        raise Unsupported("from_sigproc: hdr_update dict literal not found")
    entries = {k.value: v for k, v in zip(upd.keys, upd.values) if isinstance(k, ast.Constant)}
    for attr in ("zenith", "azimuth"):
        if attr not in entries:
            raise Unsupported(f"from_sigproc: hdr_update has no '{attr}' entry")
        key = _angle_read(entries[attr], attr)
        out.append(f"(* from Header.from_sigproc: {attr} = {ast.unparse(entries[attr])}  (read as degrees) *)")
        out.append(f"Definition {attr}_read_key : Z := {KEY_CODE[key]}.")
    out.append("")
    return out


# ------------------------------------------------------------------------------------------------
def gen_c05(repo="/repo"):
    errors = []
    out = ["(* GENERATED by tools/py2coq/gen_c05.py from sigpyproc/io/sigproc.py and sigpyproc/header.py -- do not edit *)",
           "From Coq Require Import ZArith List Bool.", "Import ListNotations.", "Open Scope Z_scope.", ""]
    sp = _module(repo, "sigpyproc/io/sigproc.py")
    hd = _module(repo, "sigpyproc/header.py")

    def section(name, f):
        try:
            out.extend(f())
        except Unsupported as e:
            errors.append(f"{name}: {e}")
            out.append(f"(* UNSUPPORTED {name}: {str(e).replace('*)', '* )').replace('(*', '( *')} *)\n")

    section("tables", lambda: tables(sp))

    def kw():
        return [f"Definition kw_header_start : list Z := {zbytes('HEADER_START')}.",
                f"Definition kw_header_end : list Z := {zbytes('HEADER_END')}.",
                f"Definition key_source_name : list Z := {zbytes('source_name')}.",
                f"Definition key_nbits : list Z := {zbytes('nbits')}.",
                f"Definition key_nchans : list Z := {zbytes('nchans')}.\n"]
    section("keywords", kw)

    def ek():
        kc, vc = encode_key_modes(sp)
        return ["(* from encode_key: does the 4-byte prefix carry len(str) (characters) or the number of encoded bytes? *)",
                f"Definition keylen_chars : bool := {'true' if kc else 'false'}.",
                f"Definition vallen_chars : bool := {'true' if vc else 'false'}.\n"]
    section("encode_key", ek)
    ptxt, perr = pinned_text(sp)
    out.extend(ptxt)
    out.append("")
    errors.extend(perr)

    def rd():
        m = parse_radec_modes(sp)
        b = lambda x: "true" if x else "false"  # noqa: E731
        return ["(* from parse_radec: the divmod constants, how the sign of the declination reaches the string handed to",
                "   SkyCoord (numeric: `sign * int(de)`, so that -1 * 0 prints as 0; textual: a '-' character), and whether the",
                "   seconds are printed with repr() (exponent notation below 1e-4) or with a fixed number of decimals *)",
                f"Definition ra_div_hi : Z := {m['ra_hi']}.", f"Definition ra_div_lo : Z := {m['ra_lo']}.",
                f"Definition dec_div_hi : Z := {m['de_hi']}.", f"Definition dec_div_lo : Z := {m['de_lo']}.",
                f"Definition dec_sign_numeric : bool := {b(m['numeric'])}.",
                f"Definition ra_sec_repr : bool := {b(m['ra_fix'] is None)}.",
                f"Definition dec_sec_repr : bool := {b(m['de_fix'] is None)}.\n"]
    section("parse_radec", rd)
    section("frames", lambda: frames(hd))
    section("pointing", lambda: pointing(hd))
    return "\n".join(out), errors


GENERATORS = {"C05Header.v": gen_c05}

if __name__ == "__main__":
    import sys
    t, errs = gen_c05(sys.argv[1] if len(sys.argv) > 1 else "/repo")
    print(t)
    for e in errs:
        print("ERROR", e, file=sys.stderr)
