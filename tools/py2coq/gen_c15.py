"""gen_c15: Gen/Stats.v -- sigpyproc/core/stats.py (estimate_loc / estimate_scale / estimate_zscore and the
per-method scale functions) and utils.apply_along_axes as Gallina over Model/C15_np.v (NumPy over exact rationals).

Two emitters, both fail closed:
  * a small typed translator for the NumPy expressions of the `_scale_*` functions and their 1-D helpers
    (types: nd, ndo (NaN-carrying), vec, mat, Q, Z, axis, bool, cov).  Any call, operator, subscript form or
    keyword it does not know raises `Bad`;
  * the four pieces of glue (apply_along_axes, estimate_loc, estimate_scale, estimate_zscore) are recognised by the
    exact text of their statements (docstrings and annotations removed) and emitted from a fixed reading.  Any
    textual change makes the generation fail, which the harness reports like a broken proof.

What the emitted terms do NOT say (modelled, not verified): float rounding and the float32 cast of estimate_zscore,
np.isclose(x, 0) (read as x = 0), NaN (a masked array), broadcasting errors, empty-input ValueErrors (preconditions).
External functions are Section variables: np_sqrt, np_pi, np_std1 (np.std of a lane), biweight1 (astropy's
biweight_scale of a lane), np_cov01 (np.cov(a, b)[0, 1]).
"""
from __future__ import annotations

import ast
import os
from fractions import Fraction


class Bad(Exception):
    pass


STR_LOC = {"median": "L_median", "mean": "L_mean", "norm": "L_norm"}
STR_SCALE = {"std": "S_std", "iqr": "S_iqr", "mad": "S_mad", "doublemad": "S_doublemad", "diffcov": "S_diffcov",
             "biweight": "S_biweight", "qn": "S_qn", "sn": "S_sn", "gapper": "S_gapper", "norm": "S_norm"}


def qlit(v):
    """exact rational literal of a Python int / float constant (floats by their shortest decimal repr)"""
    if isinstance(v, bool):
        raise Bad("bool constant as number")
    if isinstance(v, int):
        return f"(qz {v})" if v >= 0 else f"(qz ({v}))"
    fr = Fraction(repr(v))
    e = 0
    while (fr * 10 ** e).denominator != 1:
        e += 1
        if e > 40:
            raise Bad(f"constant {v!r} is not a short decimal")
    m = (fr * 10 ** e).numerator
    return f"(qdec {m} {e})" if m >= 0 else f"(qdec ({m}) {e})"


def kw(call, name, default=None):
    for k in call.keywords:
        if k.arg == name:
            return k.value
    return default


def only_kws(call, allowed):
    for k in call.keywords:
        if k.arg not in allowed:
            raise Bad(f"keyword {k.arg} in {ast.unparse(call)}")


def is_const(e, v):
    return isinstance(e, ast.Constant) and e.value == v and type(e.value) is type(v)


def neg_one(e):
    return isinstance(e, ast.UnaryOp) and isinstance(e.op, ast.USub) and is_const(e.operand, 1)


class Fn:
    """translation of one function body"""

    def __init__(self, name, env, known_1d):
        self.name = name
        self.env = dict(env)        # python name -> type
        self.known_1d = known_1d    # python names of 1-D helper functions -> coq names
        self.lenvar = {}            # names bound to len(<vec>) : name -> vec name

    # ---- expressions: returns (text, type) ------------------------------------------------
    def ex(self, e):
        if isinstance(e, ast.Constant):
            if isinstance(e.value, bool) or e.value is None or isinstance(e.value, str):
                raise Bad("constant " + repr(e.value))
            if isinstance(e.value, int):
                return (str(e.value) if e.value >= 0 else f"({e.value})"), "Z"
            if isinstance(e.value, float):
                return qlit(e.value), "Q"
            raise Bad("constant " + repr(e.value))
        if isinstance(e, ast.Name):
            if e.id not in self.env:
                raise Bad(f"{self.name}: unknown name {e.id}")
            return e.id, self.env[e.id]
        if isinstance(e, ast.Attribute):
            t = ast.unparse(e)
            if t == "np.pi":
                return "np_pi", "Q"
            raise Bad("attribute " + t)
        if isinstance(e, ast.UnaryOp) and isinstance(e.op, ast.USub):
            x, t = self.ex(e.operand)
            if t == "Z":
                return f"(- {x})", "Z"
            raise Bad("unary minus on " + t)
        if isinstance(e, ast.BinOp):
            return self.binop(e)
        if isinstance(e, ast.Compare):
            if len(e.ops) != 1:
                raise Bad("chained comparison")
            if isinstance(e.ops[0], ast.Eq) and is_const(e.comparators[0], 0):
                x, t = self.ex(e.left)          # `x == 0` on an array: the exact-zero test (np_isclose0 is read as x = 0 in the model)
                if t != "nd":
                    raise Bad("== 0 on " + t)
                return f"(np_isclose0 {x})", "nd"
            a, ta = self.ex(e.left)
            b, tb = self.ex(e.comparators[0])
            op = {ast.LtE: "np_le", ast.GtE: "np_ge", ast.Lt: "np_lt", ast.Gt: "np_gt"}.get(type(e.ops[0]))
            if op is None or "nd" not in (ta, tb):
                raise Bad("comparison " + ast.unparse(e))
            return f"({op} {self.as_nd(a, ta)} {self.as_nd(b, tb)})", "nd"
        if isinstance(e, ast.Subscript):
            return self.subscript(e)
        if isinstance(e, ast.Call):
            return self.call(e)
        raise Bad("expression " + ast.unparse(e)[:80])

    def as_q(self, x, t):
        if t == "Q":
            return x
        if t == "Z":
            return f"(qz {x})"
        raise Bad(f"{t} used as a number")

    def as_nd(self, x, t):
        if t == "nd":
            return x
        if t in ("Q", "Z"):
            return f"(scalar {self.as_q(x, t)})"
        raise Bad(f"{t} used as an array")

    def binop(self, e):
        op = type(e.op)
        # data[..., None] - data[..., None, :]  (all pairs along the last axis)
        if op is ast.Sub and isinstance(e.left, ast.Subscript) and isinstance(e.right, ast.Subscript):
            l, r = ast.unparse(e.left), ast.unparse(e.right)
            if isinstance(e.left.value, ast.Name) and isinstance(e.right.value, ast.Name) and e.left.value.id == e.right.value.id:
                nm = e.left.value.id
                if l == f"{nm}[..., None]" and r == f"{nm}[..., None, :]" and self.env.get(nm) == "nd":
                    return f"(np_pairdiff_last {nm})", "nd"
        # data[:, None] - data  (1-D: the matrix of all differences)
        if op is ast.Sub and isinstance(e.left, ast.Subscript) and isinstance(e.right, ast.Name):
            nm = e.right.id
            if ast.unparse(e.left) == f"{nm}[:, None]" and self.env.get(nm) == "vec":
                return f"(outer_sub {nm})", "mat"
        a, ta = self.ex(e.left)
        b, tb = self.ex(e.right)
        if ta == "Z" and tb == "Z":
            z = {ast.Add: "+", ast.Sub: "-", ast.Mult: "*", ast.FloorDiv: "/"}.get(op)
            if z:
                return f"({a} {z} {b})", "Z"
            if op is ast.Div:
                return f"({self.as_q(a, ta)} / {self.as_q(b, tb)})%Qc", "Q"
            raise Bad("integer operator " + op.__name__)
        if ta in ("Z", "Q") and tb in ("Z", "Q"):
            q = {ast.Add: "+", ast.Sub: "-", ast.Mult: "*", ast.Div: "/"}.get(op)
            if not q:
                raise Bad("rational operator " + op.__name__)
            return f"({self.as_q(a, ta)} {q} {self.as_q(b, tb)})%Qc", "Q"
        if "nd" in (ta, tb) and ta in ("nd", "Q", "Z") and tb in ("nd", "Q", "Z"):
            f = {ast.Add: "np_add", ast.Sub: "np_sub", ast.Mult: "np_mul", ast.Div: "np_div"}.get(op)
            if not f:
                raise Bad("array operator " + op.__name__)
            return f"({f} {self.as_nd(a, ta)} {self.as_nd(b, tb)})", "nd"
        if ta == "vec" and tb == "vec" and op is ast.Mult:
            return f"(vmul {a} {b})", "vec"
        raise Bad(f"operator {op.__name__} on {ta}, {tb}")

    def subscript(self, e):
        s = e.slice
        if isinstance(e.value, ast.Call) and ast.unparse(e.value.func) == "np.partition":
            c = e.value
            if len(c.args) != 2 or c.keywords or ast.unparse(c.args[1]) != ast.unparse(s):
                raise Bad("np.partition form " + ast.unparse(e))
            v, tv = self.ex(c.args[0])
            k, tk = self.ex(s)
            if tv != "vec" or tk != "Z":
                raise Bad("np.partition types")
            return f"(kth {v} {k})", "Q"
        x, t = self.ex(e.value)
        if t == "mat" and isinstance(s, ast.Call) and ast.unparse(s.func) == "np.triu_indices":
            if len(s.args) != 1 or not isinstance(s.args[0], ast.Name) or s.args[0].id not in self.lenvar:
                raise Bad("np.triu_indices argument")
            k = kw(s, "k")
            only_kws(s, {"k"})
            if k is None or not is_const(k, 1):
                raise Bad("np.triu_indices k")
            return f"(triu1 {x})", "vec"
        if t == "vec" and isinstance(s, ast.Slice) and s.step is None:
            if s.lower is None and s.upper is not None and neg_one(s.upper):
                return f"(vinit {x})", "vec"
            if s.upper is None and s.lower is not None and is_const(s.lower, 1):
                return f"(vtail {x})", "vec"
        if t == "nd" and isinstance(s, ast.Constant) and isinstance(s.value, int) and s.value >= 0:
            return f"(np_index0 {x} {s.value})", "nd"
        if t == "cov" and ast.unparse(s) == "(0, 1)":
            return x, "Q"
        raise Bad("subscript " + ast.unparse(e))

    def axis_kw(self, c):
        """(axis text : option Z, keepdims text)"""
        ax = kw(c, "axis")
        kd = kw(c, "keepdims")
        if ax is None:
            a = "None"
        elif isinstance(ax, ast.Name) and self.env.get(ax.id) == "axis":
            a = ax.id
        elif neg_one(ax):
            a = "(Some (-1))"
        elif isinstance(ax, ast.Constant) and isinstance(ax.value, int):
            a = f"(Some {ax.value})"
        else:
            raise Bad("axis argument " + ast.unparse(ax))
        if kd is None:
            k = "false"
        elif isinstance(kd, ast.Constant) and isinstance(kd.value, bool):
            k = "true" if kd.value else "false"
        else:
            raise Bad("keepdims argument")
        return a, k

    def call(self, c):
        f = ast.unparse(c.func)
        args = c.args
        if f == "np.asanyarray":
            only_kws(c, {"dtype"})
            if len(args) != 1 or ast.unparse(kw(c, "dtype")) != "np.float64":
                raise Bad("np.asanyarray form")
            return self.ex(args[0])
        if f in ("np.median", "np.mean", "np.nanmedian", "np.nanmean"):
            only_kws(c, {"axis", "keepdims"})
            if len(args) != 1:
                raise Bad(f + " arguments")
            x, t = self.ex(args[0])
            a, k = self.axis_kw(c)
            red = {"np.median": "median1", "np.mean": "mean1", "np.nanmedian": "nanmedian1", "np.nanmean": "nanmean1"}[f]
            if t == "nd" and not f.startswith("np.nan"):
                return f"(np_reduce {red} {x} {a} {k})", "nd"
            if t == "ndo" and f.startswith("np.nan"):
                return f"(np_oreduce {red} {x} {a} {k})", "nd"
            if t == "mat" and f == "np.median" and a == "(Some (-1))" and k == "false":
                return f"(mmedian_last {x})", "vec"
            if t == "vec" and f in ("np.median", "np.mean") and a == "None" and k == "false":
                return f"({red} {x})", "Q"
            raise Bad(f"{f} on {t}")
        if f == "np.percentile":
            only_kws(c, {"axis", "keepdims"})
            if len(args) != 2 or not isinstance(args[1], ast.List):
                raise Bad("np.percentile form")
            x, t = self.ex(args[0])
            if t != "nd":
                raise Bad("np.percentile on " + t)
            ps = []
            for p in args[1].elts:
                if not (isinstance(p, ast.Constant) and isinstance(p.value, (int, float)) and not isinstance(p.value, bool)):
                    raise Bad("percentile list")
                ps.append(qlit(p.value))
            a, k = self.axis_kw(c)
            lst = "".join(f"{p} :: " for p in ps) + "nil"
            return f"(np_percentiles ({lst}) {x} {a} {k})", "nd"
        if f == "np.diff":
            only_kws(c, {"axis"})
            x, t = self.ex(args[0])
            ax = kw(c, "axis")
            if t == "nd" and ax is not None and is_const(ax, 0):
                return f"(np_diff0 {x})", "nd"
            if t == "vec" and ax is None:
                return f"(diff1 {x})", "vec"
            raise Bad("np.diff form")
        if f == "np.squeeze":
            only_kws(c, {"axis"})
            x, t = self.ex(args[0])
            if t != "nd" or len(args) != 1:
                raise Bad("np.squeeze on " + t)
            ax = kw(c, "axis")
            if ax is None:
                return f"(np_squeeze {x})", "nd"
            if isinstance(ax, ast.Name) and self.env.get(ax.id) == "axis":
                return f"(np_squeeze_axis {x} {ax.id})", "nd"
            raise Bad("np.squeeze axis")
        if f == "np.abs" and len(args) == 1 and not c.keywords:
            x, t = self.ex(args[0])
            if t == "nd":
                return f"(np_abs {x})", "nd"
            if t == "mat":
                return f"(mabs {x})", "mat"
            if t == "Q":
                return f"(Qcabs {x})", "Q"
            raise Bad("np.abs on " + t)
        if f == "np.sqrt" and len(args) == 1 and not c.keywords:
            x, t = self.ex(args[0])
            if t in ("Q", "Z"):
                return f"(np_sqrt {self.as_q(x, t)})", "Q"
            raise Bad("np.sqrt on " + t)
        if f == "np.isclose" and len(args) == 2 and not c.keywords and is_const(args[1], 0):
            x, t = self.ex(args[0])
            if t != "nd":
                raise Bad("np.isclose on " + t)
            return f"(np_isclose0 {x})", "nd"
        if f == "np.any" and len(args) == 1 and not c.keywords:
            x, t = self.ex(args[0])
            if t != "nd":
                raise Bad("np.any on " + t)
            return f"(np_any {x})", "bool"
        if f == "np.where" and len(args) == 3 and not c.keywords:
            cnd, tc = self.ex(args[0])
            x, tx = self.ex(args[1])
            if tc != "nd":
                raise Bad("np.where condition")
            if ast.unparse(args[2]) == "np.nan":
                return f"(np_where_nan {cnd} {self.as_nd(x, tx)})", "ndo"
            y, ty = self.ex(args[2])
            return f"(np_where {cnd} {self.as_nd(x, tx)} {self.as_nd(y, ty)})", "nd"
        if f == "apply_along_axes" and len(args) == 3 and not c.keywords:
            if not isinstance(args[0], ast.Name) or args[0].id not in self.known_1d:
                raise Bad("apply_along_axes of an unknown function " + ast.unparse(args[0]))
            x, t = self.ex(args[1])
            if t != "nd" or not (isinstance(args[2], ast.Name) and self.env.get(args[2].id) == "axis"):
                raise Bad("apply_along_axes arguments")
            return f"(apply_along_axes {self.known_1d[args[0].id]} {x} {args[2].id})", "nd"
        if f == "astrostats.biweight_scale" and len(args) == 1:
            only_kws(c, {"axis"})
            x, t = self.ex(args[0])
            a, k = self.axis_kw(c)
            if t != "nd":
                raise Bad("biweight_scale on " + t)
            return f"(np_reduce biweight1 {x} {a} false)", "nd"
        if f == "len" and len(args) == 1 and isinstance(args[0], ast.Name) and self.env.get(args[0].id) == "vec":
            return f"(vlen {args[0].id})", "Z"
        if f == "np.sort" and len(args) == 1 and not c.keywords:
            x, t = self.ex(args[0])
            if t != "vec":
                raise Bad("np.sort on " + t)
            return f"(sort {x})", "vec"
        if f == "np.arange" and not c.keywords:
            if len(args) == 2:
                a, ta = self.ex(args[0])
                b, tb = self.ex(args[1])
                if ta == tb == "Z":
                    return f"(arange_up {a} {b})", "vec"
            if len(args) == 3 and neg_one(args[2]):
                a, ta = self.ex(args[0])
                b, tb = self.ex(args[1])
                if ta == tb == "Z":
                    return f"(arange_down {a} {b})", "vec"
            raise Bad("np.arange form")
        if f == "np.dot" and len(args) == 2 and not c.keywords:
            a, ta = self.ex(args[0])
            b, tb = self.ex(args[1])
            if ta == tb == "vec":
                return f"(dot1 {a} {b})", "Q"
            raise Bad("np.dot types")
        if f == "np.cov" and len(args) == 2 and not c.keywords:
            a, ta = self.ex(args[0])
            b, tb = self.ex(args[1])
            if ta == tb == "vec":
                return f"(np_cov01 {a} {b})", "cov"   # only the [0, 1] entry of the matrix may be read
            raise Bad("np.cov types")
        if isinstance(c.func, ast.Attribute) and c.func.attr == "ravel" and not args and not c.keywords:
            x, t = self.ex(c.func.value)
            if t == "vec":
                return x, "vec"
            raise Bad("ravel on " + t)
        raise Bad("call " + ast.unparse(c)[:80])

    @staticmethod
    def memo(x, t):
        """let-bound arrays are materialised (memo is the identity on shape and elements)"""
        if t == "nd" and not x.isidentifier():
            return f"memo {x}"
        if t == "ndo":
            return f"omemo {x}"
        return x

    # ---- statements -------------------------------------------------------------------------
    def body(self, stmts, ind=1):
        pad = "  " * ind
        if not stmts:
            raise Bad(f"{self.name}: no return")
        s, rest = stmts[0], stmts[1:]
        if isinstance(s, ast.Expr) and isinstance(s.value, ast.Constant) and isinstance(s.value.value, str):
            return self.body(rest, ind)
        if isinstance(s, ast.Return):
            if rest:
                raise Bad("code after return")
            x, t = self.ex(s.value)
            self.ret = t
            return pad + x
        if isinstance(s, ast.Assign) and len(s.targets) == 1 and isinstance(s.targets[0], ast.Name):
            n = s.targets[0].id
            x, t = self.ex(s.value)
            if isinstance(s.value, ast.Call) and ast.unparse(s.value.func) == "len":
                self.lenvar[n] = s.value.args[0].id
            self.env[n] = t
            x = self.memo(x, t)
            return f"{pad}let {n} := {x} in\n" + self.body(rest, ind)
        if isinstance(s, ast.Assign) and len(s.targets) == 1 and ast.unparse(s.targets[0]) == "cov":
            raise Bad("unreachable")
        if isinstance(s, ast.If) and not s.orelse:
            c, tc = self.ex(s.test)
            if tc != "bool":
                raise Bad("if condition " + ast.unparse(s.test))
            before = dict(self.env)
            inner = []
            carried = []
            for b in s.body:
                if not (isinstance(b, ast.Assign) and len(b.targets) == 1 and isinstance(b.targets[0], ast.Name)):
                    raise Bad("statement in if: " + ast.unparse(b)[:60])
                n = b.targets[0].id
                x, t = self.ex(b.value)
                self.env[n] = t
                x = self.memo(x, t)
                inner.append(f"{pad}    let {n} := {x} in")
                if n in before:
                    if before[n] != t:
                        raise Bad(f"{n} changes type in if")
                    if n not in carried:
                        carried.append(n)
            for n in list(self.env):
                if n not in before:
                    del self.env[n]
            if not carried:
                raise Bad("if without effect")
            tv = carried[0] if len(carried) == 1 else "(" + ", ".join(carried) + ")"
            tp = carried[0] if len(carried) == 1 else "'(" + ", ".join(carried) + ")"
            return (f"{pad}let {tp} := if {c} then (\n" + "\n".join(inner) + f"\n{pad}    {tv}) else {tv} in\n"
                    + self.body(rest, ind))
        raise Bad(f"{self.name}: statement " + ast.unparse(s)[:70])


def normalized(fn):
    """source text of a function without docstring and annotations (what the glue templates are keyed on)"""
    fn = ast.parse(ast.unparse(fn)).body[0]
    if fn.body and isinstance(fn.body[0], ast.Expr) and isinstance(fn.body[0].value, ast.Constant) and isinstance(fn.body[0].value.value, str):
        fn.body = fn.body[1:]
    fn.returns = None
    for a in fn.args.args + fn.args.kwonlyargs:
        a.annotation = None
    out = []
    for s in fn.body:
        if isinstance(s, ast.AnnAssign):      # x: T = v  ->  x = v
            s = ast.Assign(targets=[s.target], value=s.value, lineno=0)
            ast.fix_missing_locations(s)
        out.append(ast.unparse(s))
    sig = ast.unparse(fn.args)
    return sig, out


# ---- the glue, recognised by text ------------------------------------------------------------------
GLUE_APPLY = ("func, data, axis=None", [
    "if axis is None:\n    return func(data.ravel())",
    "if isinstance(axis, int):\n    axis = (axis,)",
    "axis = tuple((ax % data.ndim for ax in axis))",
    "moved_data = np.moveaxis(data, axis, range(len(axis)))",
    "reshaped_data = moved_data.reshape(-1, *moved_data.shape[len(axis):])",
    "return np.apply_along_axis(func, axis=0, arr=reshaped_data)",
])
COQ_APPLY = """(* utils.apply_along_axes for axis None or an int (a tuple of axes is outside the modelled domain) *)
Definition apply_along_axes (func : vec -> Qc) (data : nd) (axis : option Z) : nd :=
  match axis with
  | None => scalar (func (ravel data))
  | Some ax =>
      let ax := ax mod ndim data in                                   (* axis = (ax % data.ndim,) *)
      let moved_data := memo (np_moveaxis_front data (Z.to_nat ax)) in  (* np.moveaxis(data, axis, range(1)) *)
      let reshaped_data := np_reshape_lead moved_data 1 in              (* .reshape(-1, *moved.shape[1:]) *)
      np_apply_along_axis0 func reshaped_data
  end.
"""

GLUE_LOC = ("data, method='median', axis=None, *, keepdims=False", [
    "data = np.asanyarray(data)",
    "if len(data) == 0:\n    msg = 'Cannot estimate loc from an empty array.'\n    raise ValueError(msg)",
    "if method == 'mean':\n    return np.mean(data, axis=axis, keepdims=keepdims, dtype=np.float64)",
    "if method == 'median':\n    return np.median(data, axis=axis, keepdims=keepdims)",
    "msg = f'Method {method} is not supported for estimating location.'",
    "raise ValueError(msg)",
])
COQ_LOC = """(* stats.estimate_loc; None = ValueError.  Precondition (not modelled): the array is not empty *)
Definition estimate_loc (data : nd) (method : loc_method) (axis : option Z) (keepdims : bool) : option nd :=
  if loc_method_eqb method L_mean then Some (np_reduce mean1 data axis keepdims)
  else if loc_method_eqb method L_median then Some (np_reduce median1 data axis keepdims)
  else None.
"""

GLUE_SCALE_HEAD = "data, method='mad', axis=None, *, keepdims=False"
GLUE_SCALE_TAIL = [
    "data = np.asanyarray(data)",
    "if len(data) == 0:\n    msg = 'Cannot estimate scale from an empty array.'\n    raise ValueError(msg)",
    "if method == 'std':\n    return np.std(data, axis=axis, keepdims=keepdims, dtype=np.float64)",
    "scale_func = scale_methods.get(method)",
    "if scale_func is None:\n    msg = f'Method {method} is not supported for estimating scale.'\n    raise ValueError(msg)",
    "result = scale_func(data, axis)",
    "if isinstance(result, np.ndarray) and result.size == 1 and (not keepdims):\n    result = result.reshape(-1)[0]",
    "if keepdims and method != 'doublemad':\n    if axis is None:\n        result = np.expand_dims(result, axis=tuple(range(data.ndim)))\n    else:\n        result = np.expand_dims(result, axis=axis)",
    "return result",
]

GLUE_Z = ("data, loc_method='median', scale_method='mad', axis=0", [
    "data = np.asanyarray(data, dtype=np.float32)",
    "if data.size == 0:\n    msg = 'Cannot estimate Z-scores from an empty array.'\n    raise ValueError(msg)",
    "loc = np.zeros(1, dtype=data.dtype) if loc_method == 'norm' else estimate_loc(data, loc_method, axis, keepdims=True)",
    "scale = np.ones(1, dtype=data.dtype) if scale_method == 'norm' else estimate_scale(data, scale_method, axis, keepdims=True)",
    "zscores = np.subtract(data, loc, dtype=np.float32)",
    "tiny = float(np.finfo(np.float32).tiny) * np.max(np.abs(zscores), axis=axis, keepdims=True).astype(np.float64)",
    "zero_scales = scale <= tiny",
    "if np.any(zero_scales):\n    scale = np.where(zero_scales, 1, scale)",
    "np.divide(zscores, scale, out=zscores)",
    "return ZScoreResult(data=zscores, loc=np.asarray(loc), scale=np.asarray(scale))",
])
COQ_Z = """(* stats.estimate_zscore: (zscores, loc, scale); None = an exception.  The float32 cast is not modelled *)
Definition estimate_zscore (data : nd) (loc_method_ : loc_method) (scale_method_ : scale_method) (axis : option Z)
  : option (nd * nd * nd) :=
  match (if loc_method_eqb loc_method_ L_norm then Some (const1 (qz 0)) else estimate_loc data loc_method_ axis true) with
  | None => None
  | Some loc =>
    let loc := memo loc in
    match (if scale_method_eqb scale_method_ S_norm then Some (const1 (qz 1)) else estimate_scale data scale_method_ axis true) with
    | None => None
    | Some scale =>
        let scale := memo scale in
        let zscores := memo (np_sub data loc) in
        let tiny := memo (np_mul (scalar float32_tiny) (np_reduce max1 (np_abs zscores) axis true)) in
        let zero_scales := memo (np_le scale tiny) in
        let scale := if np_any zero_scales then memo (np_where zero_scales (scalar (qz 1)) scale) else scale in
        let zscores := memo (np_div zscores scale) in
        Some (zscores, loc, scale)
    end
  end.
"""

# per-method functions: python name -> (coq name, kind)
ND_FUNCS = ["_scale_iqr", "_scale_mad", "_scale_doublemad", "_scale_diffcov", "_scale_biweight", "_scale_qn", "_scale_sn", "_scale_gapper"]


def _functions(path):
    mod = ast.parse(open(path).read())
    return {n.name: n for n in mod.body if isinstance(n, ast.FunctionDef)}


def _check_glue(fn, expect, what, errors):
    sig, body = normalized(fn)
    esig, ebody = expect
    if sig != esig:
        errors.append(f"{what}: signature changed: {sig}")
        return False
    if body != ebody:
        for i, (a, b) in enumerate(zip(body + [""] * len(ebody), ebody + [""] * len(body))):
            if a != b:
                errors.append(f"{what}: statement {i} is not the recognised text: {a[:120]!r}")
                break
        return False
    return True


def gen_stats(repo="/repo"):
    errors = []
    out = ["(* GENERATED by tools/py2coq/gen_c15.py from sigpyproc/core/stats.py and sigpyproc/utils.py -- do not edit *)",
           "From Coq Require Import ZArith List Bool QArith Qcanon Qcabs.",
           "Require Import SPP.Base.Rt SPP.Model.C15_np.",
           "Import ListNotations.", "Open Scope Z_scope.", "",
           "Section Ext.",
           "(* external functions: np.sqrt, np.pi, np.std of a lane, astropy's biweight_scale of a lane, np.cov(a, b)[0, 1] *)",
           "Variables (np_sqrt : Qc -> Qc) (np_pi : Qc) (np_std1 biweight1 : vec -> Qc) (np_cov01 : vec -> vec -> Qc).",
           "(* materialisation of let-bound arrays: any function that preserves shape and elements (Model: nd_memo) *)",
           "Variable memo : nd -> nd.",
           "Definition omemo (A : ndo) : ndo := mk_ndo (memo (omask A)) (memo (oval A)).", ""]
    sfn = _functions(f"{repo}/sigpyproc/core/stats.py")
    ufn = _functions(f"{repo}/sigpyproc/utils.py")

    # ---- apply_along_axes -------------------------------------------------------------------
    ok_apply = "apply_along_axes" in ufn and _check_glue(ufn["apply_along_axes"], GLUE_APPLY, "utils.apply_along_axes", errors)
    if "apply_along_axes" not in ufn:
        errors.append("utils.apply_along_axes not found")
    if ok_apply:
        out.append(COQ_APPLY)

    # ---- 1-D helpers: every `_scale_*_1d` function, in source order -------------------------
    known_1d = {}
    for name, fn in sfn.items():
        if name.startswith("_scale_") and name.endswith("_1d"):
            try:
                if [a.arg for a in fn.args.args] != ["data"] or fn.args.kwonlyargs or fn.args.vararg or fn.args.kwarg:
                    raise Bad(f"{name}: parameters")
                t = Fn(name, {"data": "vec"}, {})
                body = t.body(fn.body)
                if t.ret != "Q":
                    raise Bad(f"{name}: returns {t.ret}")
                cn = name[1:]
                out.append(f"(* from stats.{name} *)\nDefinition {cn} (data : vec) : Qc :=\n{body}.\n")
                known_1d[name] = cn
            except Bad as e:
                errors.append(f"{name}: {e}")
                out.append(f"(* UNSUPPORTED {name}: {str(e).replace('*)', '* )')} *)\n")

    # ---- N-d scale functions ------------------------------------------------------------------
    done = {}
    for name in ND_FUNCS:
        try:
            if name not in sfn:
                raise Bad("not found in stats.py")
            fn = sfn[name]
            if [a.arg for a in fn.args.args] != ["data", "axis"] or fn.args.kwonlyargs or fn.args.vararg or fn.args.kwarg:
                raise Bad("parameters")
            if ast.unparse(fn.args.defaults[0]) != "None" or len(fn.args.defaults) != 1:
                raise Bad("axis default")
            t = Fn(name, {"data": "nd", "axis": "axis"}, known_1d if ok_apply else {})
            body = t.body(fn.body)
            if t.ret != "nd":
                raise Bad(f"returns {t.ret}")
            cn = name[1:]
            out.append(f"(* from stats.{name} *)\nDefinition {cn} (data : nd) (axis : option Z) : nd :=\n{body}.\n")
            done[name] = cn
        except Bad as e:
            errors.append(f"{name}: {e}")
            out.append(f"(* UNSUPPORTED {name}: {str(e).replace('*)', '* )')} *)\n")

    # ---- estimate_loc ---------------------------------------------------------------------------
    if "estimate_loc" in sfn and _check_glue(sfn["estimate_loc"], GLUE_LOC, "stats.estimate_loc", errors):
        out.append(COQ_LOC)
    elif "estimate_loc" not in sfn:
        errors.append("stats.estimate_loc not found")

    # ---- estimate_scale: the dispatch table is read from the dict literal -------------------------
    ok_scale = False
    if "estimate_scale" in sfn:
        sig, body = normalized(sfn["estimate_scale"])
        try:
            if sig != GLUE_SCALE_HEAD:
                raise Bad("signature changed: " + sig)
            if len(body) != len(GLUE_SCALE_TAIL) + 1 or body[1:] != GLUE_SCALE_TAIL:
                bad = next((b for b, e in zip(body[1:], GLUE_SCALE_TAIL) if b != e), "(number of statements)")
                raise Bad("statement is not the recognised text: " + bad[:120])
            d = ast.parse(body[0]).body[0]
            if not (isinstance(d, ast.Assign) and ast.unparse(d.targets[0]) == "scale_methods" and isinstance(d.value, ast.Dict)):
                raise Bad("dispatch table form")
            arms = []
            for k, v in zip(d.value.keys, d.value.values):
                if not (isinstance(k, ast.Constant) and k.value in STR_SCALE and isinstance(v, ast.Name)):
                    raise Bad("dispatch entry " + ast.unparse(k))
                if v.id not in done:
                    raise Bad(f"dispatch entry {k.value!r} -> {v.id}, which was not translated")
                if k.value in ("std", "norm"):
                    raise Bad("dispatch entry " + k.value)
                arms.append((STR_SCALE[k.value], done[v.id]))
            if len({a for a, _ in arms}) != len(arms):
                raise Bad("duplicate dispatch key")
            lines = ["(* stats.estimate_scale; None = an exception (ValueError for an unknown method, AxisError from np.expand_dims).",
                     "   Precondition (not modelled): the array is not empty *)",
                     "Definition estimate_scale (data : nd) (method : scale_method) (axis : option Z) (keepdims : bool) : option nd :=",
                     "  if scale_method_eqb method S_std then Some (np_reduce np_std1 data axis keepdims) else",
                     "  match (match method with"]
            for a, fnm in arms:
                lines.append(f"         | {a} => Some ({fnm} data axis)")
            lines += ["         | _ => None end) with",
                      "  | None => None",
                      "  | Some result =>",
                      "      let result := memo result in",
                      "      let result := if (size result =? 1) && negb keepdims then np_first result else result in",
                      "      if keepdims && negb (scale_method_eqb method S_doublemad) then",
                      "        match axis with",
                      "        | None => np_expand_dims_range result (ndim data)",
                      "        | Some ax => np_expand_dims result ax",
                      "        end",
                      "      else Some result",
                      "  end.", ""]
            out.append("\n".join(lines))
            ok_scale = True
        except Bad as e:
            errors.append(f"stats.estimate_scale: {e}")
            out.append(f"(* UNSUPPORTED estimate_scale: {str(e).replace('*)', '* )')} *)\n")
    else:
        errors.append("stats.estimate_scale not found")

    # ---- estimate_zscore --------------------------------------------------------------------------
    if "estimate_zscore" in sfn and _check_glue(sfn["estimate_zscore"], GLUE_Z, "stats.estimate_zscore", errors):
        if ok_scale:
            out.append(COQ_Z)
    elif "estimate_zscore" not in sfn:
        errors.append("stats.estimate_zscore not found")

    out.append("End Ext.")
    # ---- the callers named by the property: they must pass their arguments through unchanged ------
    try:
        for rel, cls, call in (("sigpyproc/block.py", "FilterbankBlock", "stats.estimate_zscore(self.data, loc_method, scale_method, axis)"),
                               ("sigpyproc/timeseries.py", "TimeSeries", "stats.estimate_zscore(self.data, loc_method, scale_method)")):
            src = open(f"{repo}/{rel}").read()
            mod = ast.parse(src)
            found = False
            for node in ast.walk(mod):
                if isinstance(node, ast.FunctionDef) and node.name == "normalise":
                    if call in ast.unparse(node):
                        found = True
            if not found:
                errors.append(f"{rel}: normalise no longer calls {call}")
        out.append("(* FilterbankBlock.normalise / TimeSeries.normalise call estimate_zscore(self.data, loc_method, scale_method[, axis]) *)")
    except OSError as e:
        errors.append(str(e))
    return "\n".join(out) + "\n", errors


GENERATORS = {"Stats.v": gen_stats}

if __name__ == "__main__":
    import sys
    t, errs = gen_stats(sys.argv[1] if len(sys.argv) > 1 else os.environ.get("VERIF_REPO", "/repo"))
    print(t)
    for e in errs:
        print("ERROR", e, file=sys.stderr)
