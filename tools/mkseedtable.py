"""fill the seeded-changes table of DESIGN.md from seeded/*/meta.json"""
import glob, json, os, re
rows = ["| seed | property | change (files) | needs | demo 0/1 | suite | checks run -> result | re-confirmed on HEAD (tools/seedrecheck.py) |", "|---|---|---|---|---|---|---|---|"]
def recheck(m):
    r = m.get("recheck")
    if not r:
        return ""
    if r.get("error") or not r.get("applies", True):
        return f"{r.get('head')}: " + (r.get("error") or "patch does not apply")[:60]
    how = "no-failing-input-found" if not r.get("concrete_input") else (r.get("failing_classes") or "").replace("failing classes: ", "")[:110]
    return (f"{r.get('head')}: demo {r.get('demo_exit_without_change')}/{r.get('demo_exit_with_change')}, "
            + (f"suite {'pass' if r.get('suite_ok') else 'FAIL'}, " if "suite_ok" in r else "") + ("VIOLATION " + how if r.get("caught") else "MISSED"))


for d in sorted(glob.glob("/verif/seeded/*/")):
    m = json.load(open(d + "meta.json"))
    notes = open(d + "notes.md").read() if os.path.exists(d + "notes.md") else ""
    needs = m.get("needs") or ""
    if not needs:
        mm = re.search(r"(?im)^.*(needs|manifest|only (shows|manifests|when)).*$", notes)
        needs = (mm.group(0).strip()[:160] if mm else "")
    res = "; ".join(f"{c}: " + ("VIOLATION " + ("(no-failing-input-found)" if r.get("violation_line") and "no-failing-input-found" in r["violation_line"] else (r.get("failing_classes") or "").replace("failing classes: ", "")[:110]) if r["exit"] else "exit 0 (MISSED)") for c, r in m.get("checks", {}).items())
    rows.append(f"| {m['id']} | {m['breaks_property']} | {', '.join(m.get('files_changed', []))} | {needs.replace('|', '/')} | {m.get('demo_exit_without_change')}/{m.get('demo_exit_with_change')} | "
                f"{'pass' if m.get('suite_ok') else m.get('suite_tail', 'n/a')[:30]} | {res.replace('|', '/')} | {recheck(m).replace('|', '/')} |")
s = open("/verif/DESIGN.md").read()
tbl = "<!-- SEEDED_TABLE_BEGIN -->\n" + "\n".join(rows) + "\n<!-- SEEDED_TABLE_END -->"
if "SEEDED_TABLE_BEGIN" in s:
    s = re.sub(r"<!-- SEEDED_TABLE_BEGIN -->.*?<!-- SEEDED_TABLE_END -->", lambda _: tbl, s, flags=re.S)
else:
    s = s.replace("SEEDED_TABLE", tbl)
open("/verif/DESIGN.md", "w").write(s)
print(len(rows) - 2, "seeds")
