"""Refresh the numeric columns (obligations, oracle evaluations, quick wall) of the status table in DESIGN.md section 12.3 from evidence/*.json
and the count of theorems / examples from coq/Props/<ID>.v.   usage: python3 tools/mkstatus.py"""
import json
import re

s = open("/verif/DESIGN.md").read()
out = []
for line in s.splitlines():
    m = re.match(r"^\| (C\d\d) \|", line)
    if m and line.count("|") >= 9 and "built by" not in line:
        pid = m.group(1)
        cols = [c.strip() for c in line.strip().strip("|").split("|")]
        try:
            e = json.load(open(f"/verif/evidence/{pid}.json"))
            if e.get("tier") == "quick":
                cols[3] = str(e["coverage"]["obligations"])
                cols[5] = str(e["coverage"]["evaluations"]) + (" kernel runs" if "kernel runs" in cols[5] else " truncations" if "truncations" in cols[5] else "")
                cols[7] = f"{round(e['wall_s'])} s"
            src = open(f"/verif/coq/Props/{pid}.v").read()
            src = re.sub(r"\(\*.*?\*\)", "", src, flags=re.S)
            nt = len(re.findall(r"^\s*(Theorem|Corollary|Lemma)\b", src, flags=re.M))
            ne = len(re.findall(r"^\s*Example\b", src, flags=re.M))
            cols[2] = f"{nt} / {ne}"
        except (OSError, KeyError, ValueError):
            pass
        line = "| " + " | ".join(cols) + " |"
    out.append(line)
open("/verif/DESIGN.md", "w").write("\n".join(out) + "\n")
print("status table refreshed")
