"""Common machinery of the /verif checks: regenerate Gen/ from /repo, build the Coq cone of a property,
hygiene scan, run Gallina terms under vm_compute, collect correspondence disagreements and oracle
failures, match known findings, write evidence and print the verdict.  See DESIGN.md section 2.4."""
from __future__ import annotations

import fcntl
import hashlib
import json
import os
import random
import re
import subprocess
import sys
import time

VERIF = os.environ.get("VERIF_ROOT", "/verif")
REPO = os.environ.get("VERIF_REPO", "/repo")
COQ = f"{VERIF}/coq"
OUT = VERIF          # where evidence/ and replays/ are written
SCRATCH = "/root/.cache/verif-scratch" if VERIF == "/verif" else f"{VERIF}/.scratch"
if os.path.realpath(REPO) != "/repo":
    # a check run against a scratch copy of the repository must not disturb /verif/coq (its Gen/ files are regenerated
    # from REPO): work in a private mirror of the Coq tree and write evidence/replays there
    _alt = ("/root/.cache/verif-alt/" if VERIF == "/verif" else f"{VERIF}/.alt/") + os.path.basename(os.path.realpath(REPO))
    os.makedirs(_alt, exist_ok=True)
    subprocess.run(["rsync", "-a", "--delete", "--exclude", "Corr/", "--exclude", ".lock", f"{VERIF}/coq/", f"{_alt}/coq/"], check=False)
    COQ = f"{_alt}/coq"
    OUT = _alt
    SCRATCH = f"{_alt}/scratch"
sys.path.insert(0, f"{VERIF}/tools/py2coq")
sys.path.insert(0, f"{VERIF}/tools")

HYGIENE_RE = re.compile(
    r"\b(Admitted|admit|Axiom|Axioms|Parameter|Parameters|Conjecture|Abort All|Unset Guard Checking|bypass_check|"
    r"Unset Positivity Checking|Unset Universe Checking|type-in-type|impredicative-set|native_compute|Admit Obligations)\b")


def sh(cmd, timeout=600, cwd=None, env=None):
    try:
        p = subprocess.run(cmd, shell=True, cwd=cwd, env=env, capture_output=True, text=True, timeout=timeout)
        return p.returncode, p.stdout + p.stderr
    except subprocess.TimeoutExpired as e:
        out = (e.stdout or b"").decode(errors="replace") if isinstance(e.stdout, bytes) else (e.stdout or "")
        return 124, out + f"\nTIMEOUT after {timeout}s: {cmd}"


IMPORT_RE = re.compile(r"Require\b(?:(?!\.\s)[\s\S])*?\b(Psatz|Lra|Reals|Rbase|Classical\w*|FunctionalExtensionality|ProofIrrelevance|Program|JMeq|Equations|Hammer|"
                       r"Epsilon|ChoiceFacts|Description|Floats)\b")


class Lock:
    def __init__(self, path=f"{COQ}/.lock"):
        self.path = path

    def __enter__(self):
        self.f = open(self.path, "w")
        fcntl.flock(self.f, fcntl.LOCK_EX)
        return self

    def __exit__(self, *a):
        fcntl.flock(self.f, fcntl.LOCK_UN)
        self.f.close()


class Hang(BaseException):
    """an implementation call did not return within the per-case budget (BaseException: not swallowed by `except Exception`)"""


_WATCH = {"armed": False, "tick": 0.0, "budget": 0.0, "run": None}


def _on_alarm(signum, frame):
    raise Hang()


def watch_arm(run=None):
    """(re)start the per-case budget; called by Run.case.  A pure-Python loop that never ends is interrupted by SIGALRM (-> Hang);
    a native call that never returns is ended by the hard watchdog thread at twice the budget."""
    import signal
    if run is not None:
        _WATCH["run"] = run
    r = _WATCH["run"]
    if r is None:
        return
    _WATCH.update(armed=True, tick=time.time(), budget=r.case_budget)
    try:
        signal.signal(signal.SIGALRM, _on_alarm)
        signal.setitimer(signal.ITIMER_REAL, r.case_budget)
    except ValueError:   # not in the main thread
        pass


def watch_disarm():
    import signal
    _WATCH["armed"] = False
    try:
        signal.setitimer(signal.ITIMER_REAL, 0)
    except ValueError:
        pass


def _hard_watchdog():
    while True:
        time.sleep(5)
        if _WATCH["armed"] and time.time() - _WATCH["tick"] > 2 * _WATCH["budget"] + 30:
            r = _WATCH["run"]
            try:
                os.makedirs(f"{OUT}/replays", exist_ok=True)
                replay = f"{OUT}/replays/{r.pid}_{r.seed}.json"
                json.dump({"property": r.pid, "seed": r.seed, "tier": r.tier, "kind": "failing-input",
                           "failure_classes": {"implementation-hang": 1},
                           "failures": [{"key": "implementation-hang", "what": f"a native implementation call did not return within {2 * r.case_budget + 30:.0f} s",
                                         "case": {"last_case": r.last_key}}] + r.failures[:20]}, open(replay, "w"), indent=1, default=str)
                print(f"VIOLATION property={r.pid} replay={replay}", flush=True)
            finally:
                os._exit(1)


def write_if_changed(path, text):
    old = None
    if os.path.exists(path):
        old = open(path).read()
    if old != text:
        os.makedirs(os.path.dirname(path), exist_ok=True)
        with open(path, "w") as f:
            f.write(text)
        return True
    return False


def coq_project():
    """(re)write _CoqProject from the file tree and make sure the Makefile exists"""
    files = []
    for d in ("Base", "Gen", "Model", "Proofs", "Props"):
        p = f"{COQ}/{d}"
        if os.path.isdir(p):
            files += sorted(f"{d}/{f}" for f in os.listdir(p) if f.endswith(".v"))
    txt = "-Q . SPP\n-arg -w -arg -deprecated-hint-without-locality,-notation-overridden,-ambiguous-paths\n" + "\n".join(files) + "\n"
    changed = write_if_changed(f"{COQ}/_CoqProject", txt)
    if changed or not os.path.exists(f"{COQ}/Makefile"):
        rc, out = sh("coq_makefile -f _CoqProject -o Makefile", cwd=COQ, timeout=60)
        if rc != 0:
            raise RuntimeError("coq_makefile failed: " + out)


def regen():
    """Regenerate coq/Gen/*.v from /repo's working tree.  Returns (errors, changed_files)."""
    import importlib
    import py2coq
    importlib.reload(py2coq)
    errors, changed = {}, []
    for fname, gen in py2coq.GENERATORS.items():
        path = f"{COQ}/Gen/{fname}"
        try:
            text, errs = gen(REPO)
            if errs:
                errors.setdefault(fname, []).extend(str(e) for e in errs)
        except Exception as e:  # fail closed: the file is replaced by one that cannot satisfy its dependants
            errors.setdefault(fname, []).append(f"{type(e).__name__}: {e}")
            text = f"(* GENERATION FAILED: {type(e).__name__}: {str(e)[:300].replace('*)', '* )')} *)\n"
        if write_if_changed(path, text):
            changed.append(fname)
    coq_project()
    return errors, changed


def coq_make(targets, timeout=900, jobs=8):
    """make the given .vo targets (full build, never -vos); returns (ok, log)"""
    t = " ".join(targets)
    rc, out = sh(f"timeout {timeout} make -f Makefile -j{jobs} {t} 2>&1", cwd=COQ, timeout=timeout + 30)
    return rc == 0, out


def coq_run(name, vtext, timeout=300):
    """compile a throw-away file coq/Corr/<name>.v and return (rc, stdout)"""
    was_armed = _WATCH["armed"]
    watch_disarm()
    try:
        return _coq_run(name, vtext, timeout)
    finally:
        if was_armed:
            watch_arm()


def _coq_run(name, vtext, timeout):
    d = f"{COQ}/Corr"
    os.makedirs(d, exist_ok=True)
    path = f"{d}/{name}.v"
    with open(path, "w") as f:
        f.write(vtext)
    rc, out = sh(f"ulimit -s unlimited; timeout {timeout} coqc -Q . SPP -w -all Corr/{name}.v 2>&1", cwd=COQ, timeout=timeout + 30)
    for ext in (".vo", ".vok", ".vos", ".glob"):
        try:
            os.remove(f"{d}/{name}{ext}")
        except OSError:
            pass
    try:
        os.remove(f"{d}/.{name}.aux")
    except OSError:
        pass
    return rc, out


def zlist(xs):
    return "[" + "; ".join(str(int(x)) for x in xs) + "]"


def zlistlist(xss):
    return "[" + ";\n ".join(zlist(x) for x in xss) + "]"


def parse_eval(out):
    """values printed by `Eval vm_compute in ...` : returns the list of '= ...' payload strings (unwrapped)"""
    vals = []
    for m in re.finditer(r"^\s*= (.*?)\n\s*: ", out, flags=re.S | re.M):
        vals.append(" ".join(m.group(1).split()))
    return vals


def count_obligations(files):
    n = 0
    for f in files:
        p = f"{COQ}/{f}"
        if os.path.exists(p):
            n += len(re.findall(r"^\s*(?:Local\s+|Global\s+)?(Theorem|Lemma|Example|Corollary|Fact|Proposition)\b", open(p).read(), flags=re.M))
    return n


def cone_of(target_v):
    """transitive .v dependencies (inside SPP) of a file, from its Require lines"""
    seen, todo = [], [target_v]
    while todo:
        f = todo.pop()
        if f in seen or not os.path.exists(f"{COQ}/{f}"):
            continue
        seen.append(f)
        for m in re.finditer(r"SPP\.([A-Za-z0-9_]+)\.([A-Za-z0-9_]+)", open(f"{COQ}/{f}").read()):
            todo.append(f"{m.group(1)}/{m.group(2)}.v")
    return seen


def load_known():
    """open findings: known_findings.json (committed; never written at run time)"""
    p = f"{VERIF}/known_findings.json"
    if not os.path.exists(p):
        return []
    return json.load(open(p)).get("findings", [])


class Run:
    """one execution of one property's check"""

    def __init__(self, pid, tier, seed, replay=None):
        self.pid, self.tier, self.seed = pid, tier, seed
        self.t0 = time.time()
        # budget between two ticks (Run.case, end of a Coq build): far above any legitimate gap (whole quick runs take < 90 s)
        self.case_budget = float(os.environ.get("VERIF_CASE_TIMEOUT", "300" if tier == "quick" else "2400"))
        self.last_key = None
        self.pin_changes = []
        watch_arm(self)
        self.rng = random.Random(seed)
        self.red = []            # reasons the proof side / translator / correspondence no longer checks
        self.failures = []       # oracle failures: dict(key, what, case)
        self.disagreements = []  # model vs implementation differences
        self.evals = 0
        self.distinct = set()
        self.samples = []
        self.hist = {}
        self.notes = []
        self.assumptions_printed = []
        self.obligations = 0
        self.discharged = 0
        self.checker_cmd = ""
        self.trusted = []
        self.assume = []
        self.rule = ""
        self.exhaustive = False
        self.extra_cov = {}
        os.makedirs(SCRATCH, exist_ok=True)

    # ---- proof side ------------------------------------------------------------------------
    def prove(self, props_file, timeout=900):
        """steps 1-3: regenerate, build the cone of Props/<id>.v, scrape Print Assumptions, hygiene"""
        watch_disarm()
        try:
            return self._prove(props_file, timeout)
        finally:
            watch_arm(self)

    def _prove(self, props_file, timeout):
        with Lock():
            errs, changed = regen()
            cone0 = cone_of(props_file)
            for fname, es in errs.items():
                if f"Gen/{fname}" in cone0 or fname.startswith("BROKEN_"):
                    for e in es:
                        self.red.append(f"translator: {fname}: {e}")
            import pins
            self.pin_changes = pins.check(self.pid, REPO)
            self.red += self.pin_changes
            changed = [c for c in changed if f"Gen/{c}" in cone0]
            if changed:
                self.notes.append("Gen files rewritten from /repo: " + ", ".join(changed))
            vo = props_file[:-2] + ".vo"
            for ext in (".vo", ".vok", ".vos", ".glob"):
                try:
                    os.remove(f"{COQ}/{props_file[:-2]}{ext}")
                except OSError:
                    pass
            ok, log = coq_make([vo], timeout=timeout)
            self.checker_cmd = f"cd {COQ} && make -f Makefile {vo}   (coqc 8.16.1, full .vo build of the dependency cone)"
        cone = cone_of(props_file)
        self.cone = cone
        self.obligations = count_obligations(cone)
        if ok:
            self.discharged = self.obligations
        else:
            # count the files of the cone that did compile
            done = [f for f in cone if os.path.exists(f"{COQ}/{f[:-2]}.vo")]
            self.discharged = count_obligations(done)
            m = re.search(r'File "\./([^"]+)", line (\d+)[^\n]*\n((?:.*\n){0,8})', log)
            where = f"{m.group(1)}:{m.group(2)} {m.group(3).strip()[:400]}" if m else log[-600:]
            self.red.append("proof: build of " + vo + " failed at " + where)
        self.build_log = log
        # Print Assumptions output
        axioms = set()
        closed = len(re.findall(r"Closed under the global context", log))
        for m in re.finditer(r"^Axioms:\n((?:.+\n)+?)(?=\S|\Z)", log, flags=re.M):
            for line in m.group(1).splitlines():
                mm = re.match(r"^([A-Za-z0-9_.']+)\s*:", line)
                if mm:
                    axioms.add(mm.group(1))
        self.assumptions_printed = sorted(axioms)
        self.closed_count = closed
        # hygiene
        for f in cone:
            txt = open(f"{COQ}/{f}").read()
            txt_nc = re.sub(r"\(\*.*?\*\)", "", txt, flags=re.S)
            for m in HYGIENE_RE.finditer(txt_nc):
                self.red.append(f"hygiene: {f} contains '{m.group(1)}'")
            # libraries that bring axioms into `coqchk -o` although no theorem uses them (the trusted base names none of these)
            for m in IMPORT_RE.finditer(txt_nc):
                self.red.append(f"hygiene: {f} imports '{m.group(1)}' (loads axioms of the standard library: use Lia / Lqa / Qfield instead)")
            # Variable/Hypothesis outside a Section
            depth = 0
            for line in txt_nc.splitlines():
                s = line.strip()
                if re.match(r"^Section\b", s):
                    depth += 1
                elif re.match(r"^End\b", s) and depth > 0:
                    depth -= 1
                elif depth == 0 and re.match(r"^(Variable|Variables|Hypothesis|Hypotheses|Context)\b", s):
                    self.red.append(f"hygiene: {f} declares '{s[:40]}' outside a section")
        return ok

    def need(self, targets, timeout=600):
        """make sure model/gen .vo files needed by the correspondence exist even if a proof broke"""
        watch_disarm()
        try:
            return self._need(targets, timeout)
        finally:
            watch_arm(self)

    def _need(self, targets, timeout):
        with Lock():
            ok, log = coq_make(targets, timeout=timeout)
        if not ok:
            self.red.append("model: build of " + " ".join(targets) + " failed: " + log[-400:])
        return ok

    # ---- bookkeeping -----------------------------------------------------------------------
    def case(self, key, nontrivial=True, regime=None, sample=None):
        self.evals += 1
        self.last_key = key
        watch_arm(self)
        if nontrivial:
            self.distinct.add(key if isinstance(key, (str, int, tuple)) else json.dumps(key, sort_keys=True, default=str))
        if regime is not None:
            self.hist[regime] = self.hist.get(regime, 0) + 1
        if sample is not None and len(self.samples) < 8:
            self.samples.append(sample)

    def tick(self, key):
        """name the implementation call about to be made (the replay of a hang) and restart the per-case budget"""
        self.last_key = key
        watch_arm(self)

    def fail(self, key, what, case):
        self.failures.append({"key": key, "what": what, "case": case})

    def disagree(self, what, case):
        self.disagreements.append({"what": what, "case": case})

    # ---- verdict ---------------------------------------------------------------------------
    def finish(self):
        watch_disarm()
        known = [k for k in load_known() if k.get("property") == self.pid]
        known_keys = {k["key"]: k for k in known}
        unlisted, listed = [], {}
        self.failures.sort(key=lambda f: len(json.dumps(f["case"], default=str)))
        for f in self.failures:
            if f["key"] in known_keys:
                listed.setdefault(f["key"], f)
            else:
                unlisted.append(f)
        for k, f in listed.items():
            print(f"KNOWN-FINDING: property={self.pid} {known_keys[k]['what']}")
        violation = False
        replay = None
        os.makedirs(f"{OUT}/replays", exist_ok=True)
        if unlisted:
            violation = True
            replay = f"{OUT}/replays/{self.pid}_{self.seed}.json"
            hist = {}
            for f in unlisted:
                hist[f["key"]] = hist.get(f["key"], 0) + 1
            firsts, seenk = [], set()
            for f in unlisted:       # smallest case of every finding class first
                if f["key"] not in seenk:
                    seenk.add(f["key"]); firsts.append(f)
            print("  failing classes:", json.dumps(hist))
            json.dump({"property": self.pid, "seed": self.seed, "tier": self.tier, "kind": "failing-input", "failure_classes": hist,
                       "failures": (firsts + unlisted)[:40], "red": self.red, "disagreements": self.disagreements[:10]},
                      open(replay, "w"), indent=1, default=str)
            print(f"VIOLATION property={self.pid} replay={replay}")
        elif self.red or self.disagreements:
            # a disagreement / broken obligation that is fully explained by a listed finding does not alarm
            violation = True
            replay = f"{OUT}/replays/{self.pid}_{self.seed}.json"
            gen_diff = sh("git diff --stat -- coq/Gen; git diff -- coq/Gen | head -300", cwd=VERIF)[1]
            json.dump({"property": self.pid, "seed": self.seed, "tier": self.tier, "kind": "no-failing-input-found",
                       "no_longer_checks": self.red, "disagreements": self.disagreements[:20],
                       "gen_diff_vs_committed": gen_diff, "build_log_tail": getattr(self, "build_log", "")[-3000:]},
                      open(replay, "w"), indent=1, default=str)
            print(f"VIOLATION property={self.pid} replay={replay} no-failing-input-found")
        wall = time.time() - self.t0
        cov = {
            "obligations": max(self.obligations, 1),
            "discharged": max(self.discharged, 0) if self.obligations else 0,
            "checker_cmd": self.checker_cmd or "n/a",
            "trusted_base": self.trusted + [f"Print Assumptions: {self.closed_count} theorems closed under the global context"
                                            + (("; axioms reported: " + ", ".join(self.assumptions_printed)) if self.assumptions_printed else "; no axioms reported")],
            "evaluations": self.evals,
            "distinct_nontrivial": len(self.distinct),
            "rule": self.rule,
            "samples": self.samples or ["(none)"],
            "regimes": self.hist,
            "exhaustive": self.exhaustive,
            "correspondence_disagreements": len(self.disagreements),
            "oracle_failures": len(self.failures),
            "known_findings_hit": sorted(listed),
            "notes": self.notes,
        }
        cov.update(self.extra_cov)
        ev = {"property_id": self.pid, "tier": self.tier, "seed": self.seed, "level": "proof", "coverage": cov,
              "assumptions": self.assume, "wall_s": round(wall, 2), "violations": (len(unlisted) if unlisted else (1 if violation else 0))}
        os.makedirs(f"{OUT}/evidence", exist_ok=True)
        json.dump(ev, open(f"{OUT}/evidence/{self.pid}.json", "w"), indent=1, default=str)
        print(f"{self.pid}: tier={self.tier} seed={self.seed} obligations={self.obligations} discharged={self.discharged} "
              f"evaluations={self.evals} distinct={len(self.distinct)} disagreements={len(self.disagreements)} "
              f"failures={len(self.failures)} red={len(self.red)} wall={wall:.1f}s")
        for r in self.red[:5]:
            print("  RED:", r[:500])
        return 1 if violation else 0
