"""C15 -- robust normalisation is finite, affine-equivariant and axis-consistent.

Proof: Props/C15.v over Gen/Stats.v (regenerated from sigpyproc/core/stats.py + utils.apply_along_axes by
tools/py2coq/gen_c15.py) and the NumPy-over-Q model Model/C15_np.v.  Correspondence: the generated Gallina
(estimate_loc / estimate_scale / estimate_zscore, every method but biweight) under vm_compute versus the implementation on
the same arrays, including which calls raise.  Oracle: the relations of the property in plain NumPy against the
implementation (per-axis == per-lane, keepdims results broadcast, scale(a x + b) = |a| scale(x), zscore sign, finiteness).
"""
from __future__ import annotations

import concurrent.futures
import os
import re
import warnings
from fractions import Fraction

import numpy as np

import vlib

SCALES = ["std", "iqr", "mad", "doublemad", "diffcov", "biweight", "qn", "sn", "gapper"]
LOCS = ["median", "mean"]
COQ_SCALE = {"std": "S_std", "iqr": "S_iqr", "mad": "S_mad", "doublemad": "S_doublemad", "diffcov": "S_diffcov",
             "qn": "S_qn", "sn": "S_sn", "gapper": "S_gapper", "norm": "S_norm"}
COQ_LOC = {"median": "L_median", "mean": "L_mean", "norm": "L_norm"}
# oracle keys of the three defects of the tree without fixes/C15-*.diff
KEY_SN = "lanes-sn-axis"
KEY_SQUEEZE = ("keepdims-squeeze-mad", "keepdims-squeeze-iqr")
KEY_DM = ("equivariance-doublemad-reflection", "equivariance-zscore-doublemad-reflection")

# tolerances (justified in findings.d/C15.md and the evidence notes)
RT_LANE = 1e-9      # float64, same arithmetic on the same numbers in a different summation order
RT_SCALE = 1e-6     # float64 estimate_scale under x -> a x + b: unit roundoff 1.1e-16 x (|b| + |a| max|x|) / (|a| spread) <= 1e4
RT_Z = 1e-4         # estimate_zscore works on float32 data: 6e-8 x (offset / scale <= 1e2) x a few operations, 10x margin
QUANT = 1.0 / 16    # data are multiples of 1/16: ties are exact, non-zero gaps are >= 1/16 (so no scale is "almost" zero)


# ------------------------------------------------------------------------------------------------------------
# data
# ------------------------------------------------------------------------------------------------------------
def gen_data(rng, shape, kind):
    n = int(np.prod(shape))
    nrng = np.random.default_rng(rng.randrange(2 ** 32))
    if kind == "normal":
        x = np.round(nrng.normal(3.0, 5.0, n) / QUANT) * QUANT
    elif kind == "ties":
        x = nrng.integers(0, 4, n).astype(np.float64)
    elif kind == "heavyties":
        x = np.where(nrng.random(n) < 0.7, 2.0, np.round(nrng.normal(0.0, 5.0, n) / QUANT) * QUANT)
    elif kind == "const":
        x = np.full(n, 7.25)
    elif kind == "outliers":
        x = np.round(nrng.normal(0.0, 1.0, n) / QUANT) * QUANT
        k = max(1, n // 10)
        idx = nrng.choice(n, k, replace=False)
        x[idx] += nrng.choice([-1.0, 1.0], k) * nrng.integers(100, 100000, k)
    elif kind == "skewed":
        x = np.round(nrng.exponential(4.0, n) / QUANT) * QUANT
    else:
        raise ValueError(kind)
    return x.reshape(shape)


def lanes_of(x, axis):
    """list of (index into the keepdims=False result, lane as a 1-D array)"""
    if axis is None or x.ndim == 1:
        return [((), x.ravel())]
    if axis == 0:
        return [((j,), x[:, j]) for j in range(x.shape[1])]
    return [((i,), x[i, :]) for i in range(x.shape[0])]


def put_lane(shape, axis, pos, lane_vals):
    """scatter per-sample values of one lane back to an array position selector"""
    if axis is None or len(shape) == 1:
        return (slice(None),) * len(shape), np.reshape(lane_vals, shape)
    if axis == 0:
        return (slice(None), pos[0]), lane_vals
    return (pos[0], slice(None)), lane_vals


def spread(v):
    v = np.asarray(v, dtype=np.float64).ravel()
    return float(np.max(np.abs(v - np.median(v)))) if v.size else 0.0


def diffcov_kappa(lane):
    """condition number of the signed sum behind _scale_diffcov_1d (cancellation)"""
    d = np.diff(lane)
    if d.size < 3:
        return np.inf
    p, q = d[:-1] - np.mean(d[:-1]), d[1:] - np.mean(d[1:])
    t = p * q
    s = abs(np.sum(t))
    return np.inf if s == 0 else float(np.sum(np.abs(t)) / s)


def close(a, b, rtol, atol):
    a, b = np.asarray(a, dtype=np.float64), np.asarray(b, dtype=np.float64)
    return a.shape == b.shape and bool(np.all(np.abs(a - b) <= atol + rtol * np.abs(b)))


def tolist(a):
    return np.asarray(a, dtype=np.float64).ravel().tolist()


# ------------------------------------------------------------------------------------------------------------
# oracle
# ------------------------------------------------------------------------------------------------------------
def oracle(R, stats):
    rng = R.rng
    quick = R.tier == "quick"
    shapes1 = [(8,), (9,), (16,)] + ([] if quick else [(33,), (64,)])
    shapes2 = [(8, 8), (9, 11), (12, 8)] + ([] if quick else [(16, 9), (8, 21)])
    degenerate = [(1, 9), (9, 1)] + ([] if quick else [(1, 16), (12, 1)])
    kinds = ["normal", "ties", "heavyties", "const", "outliers", "skewed"]
    reps = 1 if quick else 8
    plan = []
    for sh in shapes1 + shapes2 + degenerate:
        for kind in kinds:
            for _ in range(reps):
                plan.append((sh, kind))
    rng.shuffle(plan)
    amaps = []

    def new_map():
        e = rng.uniform(-2.0, 2.0)
        a = rng.choice([-1.0, 1.0]) * 10.0 ** e
        if rng.random() < 0.3:
            a = rng.choice([-1.0, 1.0]) * 2.0 ** rng.randrange(-6, 7)      # exact scalings
        if rng.random() < 0.15:
            a = rng.choice([1e-2, -1e-2, 1e2, -1e2, 1.0, -1.0])
        b = round(rng.gauss(0.0, 10.0) * abs(a), 3) if rng.random() < 0.8 else 0.0
        return float(a), float(b)

    def fail(key, what, case):
        R.fail(key, what, case)

    for ci, (shape, kind) in enumerate(plan):
        x = gen_data(rng, shape, kind)
        a, b = new_map()
        y = a * x + b
        axes = [None, 0] if len(shape) == 1 else [ax for ax in (None, 0, 1) if ax is None or shape[ax] >= 8]
        sx_spread = spread(x)
        for m in SCALES:
            for axis in axes:
                base = {"shape": list(shape), "kind": kind, "method": m, "axis": axis, "a": a, "b": b, "x": tolist(x)}
                regime = f"{m}/axis={axis}/{'1d' if len(shape) == 1 else ('deg' if 1 in shape else '2d')}"
                R.case((ci, m, axis), nontrivial=kind != "const", regime=regime,
                       sample={"shape": list(shape), "kind": kind, "method": m, "axis": axis, "a": a, "b": b} if ci < 2 and m == "mad" else None)
                lanes = lanes_of(x, axis)
                # ---- the 1-D estimator on each lane (the reference of "per lane") --------------------------------
                try:
                    lane_est = [np.asarray(stats.estimate_scale(l.copy(), m), dtype=np.float64) for _, l in lanes]
                except Exception as e:  # noqa: BLE001
                    fail(f"exception-1d-{m}", f"1-D estimate_scale raised {type(e).__name__}: {e}", base)
                    continue
                # ---- per-axis == per-lane, keepdims=False ----------------------------------------------------------
                try:
                    r = np.asarray(stats.estimate_scale(x, m, axis), dtype=np.float64)
                    rk = np.asarray(stats.estimate_scale(x, m, axis, keepdims=True), dtype=np.float64)
                except Exception as e:  # noqa: BLE001
                    key = f"keepdims-squeeze-{m}" if (m in ("mad", "iqr") and 1 in shape) else f"exception-scale-{m}"
                    fail(key, f"estimate_scale raised {type(e).__name__}: {e}", base)
                    continue
                atol = 1e-12 * (1.0 + float(np.max(np.abs(x))))
                lanes_bad = False
                if m == "doublemad":
                    full = np.empty(shape)
                    for (pos, l), le in zip(lanes, lane_est):
                        sel, vals = put_lane(shape, axis, pos, le)
                        full[sel] = vals
                    for nm, arr in (("", r), ("-keepdims", rk)):
                        if arr.shape != tuple(shape) or not close(arr, full, RT_LANE, atol):
                            fail(f"lanes-doublemad{nm}", "doublemad along the axis is not the 1-D doublemad of each lane",
                                 dict(base, got=tolist(arr), expected=tolist(full)))
                else:
                    exp = np.array([float(le) for le in lane_est])
                    lanes_bad = r.size != exp.size or not close(r.ravel(), exp, RT_LANE, atol)
                    if lanes_bad:
                        key = KEY_SN if m == "sn" else f"lanes-scale-{m}"
                        fail(key, "estimate_scale along the axis differs from the 1-D estimator of each lane (or of the flattened data)",
                             dict(base, got=tolist(r), expected=tolist(exp)))
                    # ---- keepdims=True broadcasts against the input, lane by lane ---------------------------------
                    try:
                        bro = np.broadcast_to(rk, shape)
                    except ValueError:
                        fail(f"broadcast-scale-{m}", "keepdims=True result does not broadcast against the input",
                             dict(base, got_shape=list(rk.shape)))
                        bro = None
                    if bro is not None:
                        full = np.empty(shape)
                        for (pos, l), le in zip(lanes, lane_est):
                            sel, vals = put_lane(shape, axis, pos, np.full(l.shape, float(le)))
                            full[sel] = vals
                        if not close(bro, full, RT_LANE, atol):
                            key = KEY_SN if m == "sn" else f"broadcast-scale-{m}"
                            fail(key, "keepdims=True result, broadcast to the input, is not the per-lane estimate",
                                 dict(base, got=tolist(rk), got_shape=list(rk.shape), expected=tolist(full)))
                # ---- |a|-equivariance of the scale ---------------------------------------------------------------------
                try:
                    ry = np.asarray(stats.estimate_scale(y, m, axis, keepdims=True), dtype=np.float64)
                except Exception as e:  # noqa: BLE001
                    fail(f"exception-scale-{m}", f"estimate_scale(a x + b) raised {type(e).__name__}: {e}", base)
                    continue
                sa = abs(a) * max(sx_spread, 1e-300)
                # zero / negligible scales: absolute slack relative to the spread of the data; diffcov is the square root of
                # a signed sum, so its absolute error is sqrt(eps) x spread
                atol_s = (1e-6 if m == "diffcov" else 1e-11) * (sa + abs(b) + abs(a) * float(np.max(np.abs(x))))
                ok = ry.shape == rk.shape and bool(np.all(np.abs(ry - abs(a) * rk) <= atol_s + RT_SCALE * abs(a) * np.abs(rk)))
                if not ok and m == "doublemad" and a < 0 and ry.shape == rk.shape:
                    loc = np.asarray(stats.estimate_loc(x, "median", axis, keepdims=True))
                    off = np.abs(ry - abs(a) * rk) > atol_s + RT_SCALE * abs(a) * np.abs(rk)
                    key = KEY_DM[0] if bool(np.all((x == loc)[off])) else "equivariance-scale-doublemad"
                    fail(key, "doublemad: scale(a x + b) != |a| scale(x) (a < 0; at samples equal to the median)" if key == KEY_DM[0]
                         else "scale(a x + b) != |a| scale(x)", dict(base, scale_x=tolist(rk), scale_y=tolist(ry)))
                elif not ok:
                    fail(f"equivariance-scale-{m}", "scale(a x + b) != |a| scale(x)", dict(base, scale_x=tolist(rk), scale_y=tolist(ry)))
                # ---- Z-scores ---------------------------------------------------------------------------------------------
                for lm in LOCS + ["norm"]:
                    zbase = dict(base, loc_method=lm)
                    try:
                        zx = stats.estimate_zscore(x, lm, m, axis)
                        zy = stats.estimate_zscore(y, lm, m, axis)
                    except Exception as e:  # noqa: BLE001
                        key = f"keepdims-squeeze-{m}" if (m in ("mad", "iqr") and 1 in shape) else f"exception-zscore-{m}"
                        fail(key, f"estimate_zscore raised {type(e).__name__}: {e}", zbase)
                        continue
                    R.evals += 1
                    dzx, dzy = np.asarray(zx.data, dtype=np.float64), np.asarray(zy.data, dtype=np.float64)
                    if dzx.shape != tuple(shape) or not np.all(np.isfinite(dzx)) or not np.all(np.isfinite(dzy)):
                        fail(f"finite-zscore-{m}", "Z-scores of finite data are not finite (or have the wrong shape)",
                             dict(zbase, z=tolist(dzx)[:40]))
                        continue
                    if lm == "norm":
                        continue       # no location: only finiteness and shape are demanded
                    # per-axis == per-lane
                    full = np.empty(shape)
                    lane_ok = True
                    for pos, l in lanes:
                        try:
                            zl = np.asarray(stats.estimate_zscore(l.copy(), lm, m, 0).data, dtype=np.float64)
                        except Exception:  # noqa: BLE001
                            lane_ok = False
                            break
                        sel, vals = put_lane(shape, axis, pos, zl)
                        full[sel] = vals
                    if lane_ok and not bool(np.all(np.abs(dzx - full) <= 1e-5 * (1.0 + np.abs(full)))):
                        key = KEY_SN if m == "sn" else f"lanes-zscore-{m}"
                        fail(key, "Z-scores along the axis differ from the Z-scores of each lane", dict(zbase, got=tolist(dzx)[:60], expected=tolist(full)[:60]))
                    # sign(a)-equivariance, where the scale is not (numerically) zero and the estimator is well conditioned
                    mask = np.ones(shape, dtype=bool)
                    for (pos, l), le in zip(lanes, lane_est):
                        sp = spread(l)
                        lane_scale = np.asarray(le, dtype=np.float64)
                        degenerate_lane = bool(np.all(lane_scale <= 1e-6 * max(sp, 1e-300))) or sp == 0.0
                        illcond = m == "diffcov" and diffcov_kappa(l) > 10.0
                        if m == "doublemad" and not degenerate_lane:
                            # one scale per sample: the unit-scale fallback applies sample by sample
                            sel, vals = put_lane(shape, axis, pos, (lane_scale > 1e-6 * sp).astype(float))
                            mask[sel] = np.asarray(vals, dtype=bool) if np.ndim(mask[sel]) else bool(vals)
                        if degenerate_lane or illcond:
                            sel, _ = put_lane(shape, axis, pos, np.zeros(l.shape))
                            mask[sel] = False
                            R.hist["zscore-lane-skipped-" + ("zero-scale" if degenerate_lane else "illconditioned")] = \
                                R.hist.get("zscore-lane-skipped-" + ("zero-scale" if degenerate_lane else "illconditioned"), 0) + 1
                    dev = np.abs(dzy - np.sign(a) * dzx)
                    bad = mask & (dev > RT_Z * (1.0 + np.abs(dzx)))
                    if bool(np.any(bad)):
                        if m == "doublemad":
                            loc = np.asarray(stats.estimate_loc(x, "median", axis, keepdims=True))
                            key = KEY_DM[1] if (a < 0 and bool(np.all((x == loc)[bad]))) else "equivariance-zscore-doublemad"
                        elif lanes_bad:
                            key = KEY_SN if m == "sn" else f"lanes-scale-{m}"     # the scale used is not the lane's: same defect
                        else:
                            key = f"equivariance-zscore-{m}"
                        fail(key, "zscore(a x + b) != sign(a) zscore(x)", dict(zbase, z_x=tolist(dzx[bad])[:10], z_y=tolist(dzy[bad])[:10]))
        # ---- location estimators: per-axis == per-lane, and broadcast ------------------------------------------------
        for lm in LOCS:
            for axis in axes:
                try:
                    r = np.asarray(stats.estimate_loc(x, lm, axis), dtype=np.float64)
                    rk = np.asarray(stats.estimate_loc(x, lm, axis, keepdims=True), dtype=np.float64)
                    exp = np.array([float(stats.estimate_loc(l.copy(), lm)) for _, l in lanes_of(x, axis)])
                    bro = np.broadcast_to(rk, shape)
                except Exception as e:  # noqa: BLE001
                    fail(f"exception-loc-{lm}", f"estimate_loc raised {type(e).__name__}: {e}", {"shape": list(shape), "axis": axis, "x": tolist(x)})
                    continue
                R.evals += 1
                atol = 1e-12 * (1.0 + float(np.max(np.abs(x))))
                if r.size != exp.size or not close(r.ravel(), exp, RT_LANE, atol) or bro.shape != tuple(shape):
                    fail(f"lanes-loc-{lm}", "estimate_loc along the axis differs from the 1-D estimator of each lane",
                         {"shape": list(shape), "axis": axis, "x": tolist(x), "got": tolist(r), "expected": tolist(exp)})


def callers(R, stats):
    """FilterbankBlock.normalise / TimeSeries.normalise hand their data to estimate_zscore unchanged (observe_at)"""
    from sigpyproc.block import FilterbankBlock
    from sigpyproc.header import Header
    from sigpyproc.timeseries import TimeSeries
    nrng = np.random.default_rng(R.rng.randrange(2 ** 32))
    for nch, ns in ((1, 16), (3, 16)):
        x = (np.round(nrng.normal(0, 4, (nch, ns)) * 16) / 16).astype(np.float32)
        hdr = Header(filename="c15.fil", data_type="filterbank", nchans=nch, foff=-1.0, fch1=1500.0, nbits=32, tsamp=1e-3, tstart=60000.0, nsamples=ns)
        for lm, sm in (("mean", "std"), ("median", "mad"), ("median", "iqr")):
            R.case(("block", nch, lm, sm), regime="FilterbankBlock.normalise")
            try:
                got = FilterbankBlock(x.copy(), hdr).normalise(lm, sm, 1).data
                exp = np.stack([stats.estimate_zscore(x[i], lm, sm, 0).data for i in range(nch)])
            except Exception as e:  # noqa: BLE001
                key = f"keepdims-squeeze-{sm}" if (sm in ("mad", "iqr") and nch == 1) else "exception-block-normalise"
                R.fail(key, f"FilterbankBlock.normalise raised {type(e).__name__}: {e}", {"nchans": nch, "loc": lm, "scale": sm, "x": tolist(x)})
                continue
            if got.shape != x.shape or not np.all(np.isfinite(got)) or not np.allclose(got, exp, rtol=1e-5, atol=1e-5):
                R.fail("block-normalise", "FilterbankBlock.normalise differs from the per-channel Z-scores", {"nchans": nch, "loc": lm, "scale": sm, "x": tolist(x)})
    t = (np.round(nrng.normal(0, 4, 24) * 16) / 16).astype(np.float32)
    hdr = Header(filename="c15.tim", data_type="time series", nchans=1, foff=-1.0, fch1=1500.0, nbits=32, tsamp=1e-3, tstart=60000.0, nsamples=24)
    for lm, sm in (("mean", "std"), ("median", "mad")):
        R.case(("tim", lm, sm), regime="TimeSeries.normalise")
        try:
            got = TimeSeries(t.copy(), hdr).normalise(lm, sm).data
            exp = stats.estimate_zscore(t, lm, sm).data
        except Exception as e:  # noqa: BLE001
            R.fail("exception-timeseries-normalise", f"TimeSeries.normalise raised {type(e).__name__}: {e}", {"x": tolist(t)})
            continue
        if not np.allclose(got, exp, rtol=1e-6, atol=1e-6) or not np.all(np.isfinite(got)):
            R.fail("timeseries-normalise", "TimeSeries.normalise differs from estimate_zscore", {"x": tolist(t)})


# ------------------------------------------------------------------------------------------------------------
# correspondence: generated Gallina under vm_compute vs the implementation
# ------------------------------------------------------------------------------------------------------------
def q(x):
    fr = Fraction(float(x))
    return f"(qfrac ({fr.numerator}) {fr.denominator})"


def qlist(xs):
    xs = list(xs)
    return "(" + "".join(q(v) + " :: " for v in xs) + "nil)"


def zl(xs):
    return "[" + "; ".join(str(int(v)) for v in xs) + "]"


CORR_HDR = """From Coq Require Import ZArith List Bool QArith.
Require Import SPP.Base.Rt SPP.Model.C15_np SPP.Gen.Stats.
Import ListNotations. Open Scope Z_scope.
Definition est := estimate_scale approx_sqrt approx_pi std1 (fun _ => qz 0) cov01 nd_memo.
Definition zsc := estimate_zscore approx_sqrt approx_pi std1 (fun _ => qz 0) cov01 nd_memo.
Fixpoint all2 (tol : Qcanon.Qc) (a b : vec) : bool := match a, b with [], [] => true | x :: a', y :: b' => close tol x y && all2 tol a' b' | _, _ => false end.
Definition same (tol : Qcanon.Qc) (A : nd) (e : list Z * vec) : bool := shape_eqb (shape A) (fst e) && all2 tol (ravel A) (snd e).
Inductive call := CScale (m : scale_method) (kd : bool) | CLoc (m : loc_method) (kd : bool) | CZ (l : loc_method) (m : scale_method).
Definition ok (c : (list Z * vec) * option Z * call * option (list Z * vec)) : bool :=
  let '(inp, ax, cl, exp) := c in
  let A := nd_of_list (fst inp) (snd inp) in
  match cl with
  | CScale m kd => match est A m ax kd, exp with None, None => true | Some B, Some e => same (qdec 1 9) B e | _, _ => false end
  | CLoc m kd => match estimate_loc A m ax kd, exp with None, None => true | Some B, Some e => same (qdec 1 9) B e | _, _ => false end
  | CZ l m => match zsc A l m ax, exp with None, None => true | Some (z, _, _), Some e => same (qdec 1 4) z e | _, _ => false end
  end.
"""


def correspondence(R, stats):
    rng = R.rng
    quick = R.tier == "quick"
    shapes = [(9,), (8,), (8, 9), (9, 8), (1, 9), (9, 1)] + ([] if quick else [(12,), (10, 8)])
    nrng = np.random.default_rng(rng.randrange(2 ** 32))
    cases, meta = [], []

    def add(x, axis, call, fn, what):
        ax = "None" if axis is None else f"(Some {axis})"
        with warnings.catch_warnings():
            warnings.simplefilter("ignore")
            try:
                r = np.asarray(fn(), dtype=np.float64)
                exp = f"Some ({zl(r.shape)}, {qlist(r.ravel())})" if np.all(np.isfinite(r)) else None
                if exp is None:
                    return
            except Exception:  # noqa: BLE001
                exp = "None"
        cases.append(f"(({zl(x.shape)}, {qlist(x.ravel())}), {ax}, {call}, {exp})")
        meta.append(dict(what, shape=list(x.shape), axis=axis, x=tolist(x), impl=exp[:200]))

    for shape in shapes:
        n = int(np.prod(shape))
        for kind in range(4 if quick else 6):
            if kind == 0:
                x = nrng.integers(-8, 9, n) / 4.0
            elif kind == 1:
                x = np.where(nrng.random(n) < 0.6, 1.0, nrng.integers(-8, 9, n) / 2.0)
            elif kind == 2:
                x = np.full(n, 2.5)
            elif kind == 3:
                x = nrng.integers(-8, 9, n) / 4.0
                x[nrng.integers(0, n)] += 4096.0
            else:
                x = nrng.integers(0, 3, n).astype(np.float64)
            x = x.reshape(shape).astype(np.float64)
            axes = [None, 0] if len(shape) == 1 else [ax for ax in (None, 0, 1) if ax is None or shape[ax] >= 8]
            for axis in axes:
                for m in COQ_SCALE:
                    if m == "norm":
                        continue
                    for kd in (False, True):
                        add(x, axis, f"CScale {COQ_SCALE[m]} {'true' if kd else 'false'}",
                            lambda: stats.estimate_scale(x, m, axis, keepdims=kd), {"call": "estimate_scale", "method": m, "keepdims": kd})
                for lm in LOCS:
                    add(x, axis, f"CLoc {COQ_LOC[lm]} true", lambda: stats.estimate_loc(x, lm, axis, keepdims=True), {"call": "estimate_loc", "method": lm})
                if kind in (0, 1, 2):
                    for lm, m in (("median", "mad"), ("mean", "std"), ("median", "iqr"), ("norm", "qn"), ("median", "doublemad"),
                                  ("mean", "doublemad"), ("median", "sn"), ("mean", "gapper"), ("median", "norm")):
                        add(x, axis, f"CZ {COQ_LOC[lm]} {COQ_SCALE[m]}", lambda: stats.estimate_zscore(x, lm, m, axis).data,
                            {"call": "estimate_zscore", "loc": lm, "scale": m})
    per = 120
    shards = [(i, cases[i:i + per]) for i in range(0, len(cases), per)]

    def run(sh):
        i, cs = sh
        txt = (CORR_HDR + "Definition cases := [\n" + ";\n".join(cs) + "].\n"
               "Eval vm_compute in (length cases, map fst (filter (fun p => negb (ok (snd p))) (combine (seq 0 (length cases)) cases))).\n")
        return i, vlib.coq_run(f"c15_{i // per}", txt, timeout=600)

    nbad = 0
    with concurrent.futures.ThreadPoolExecutor(max_workers=4) as ex:
        for i, (rc, out) in ex.map(run, shards):
            vals = vlib.parse_eval(out)
            if rc != 0 or not vals:
                R.red.append("correspondence: Corr/c15 did not evaluate: " + out[-400:])
                continue
            idxs = [int(v) for v in re.findall(r"(\d+)%nat", vals[0])]
            R.extra_cov["traces_validated_against_impl"] = R.extra_cov.get("traces_validated_against_impl", 0) + (idxs[0] if idxs else 0)
            for bi in idxs[1:][:5]:
                R.disagree("generated model (Gen/Stats.v under vm_compute) and implementation differ", meta[i + bi])
            nbad += len(idxs[1:])
    R.extra_cov["correspondence_cases"] = len(cases)
    R.evals += len(cases)
    R.hist["correspondence"] = len(cases)


# ------------------------------------------------------------------------------------------------------------
def prove(R):
    """Props/C15.v holds for the tree with the C15 repairs.  While the three findings are recorded as known instead
    (known_findings.json), the counterpart coq/Pinned/C15_props.v (partial + refuted theorems) is what must hold."""
    known = {k.get("key") for k in vlib.load_known() if k.get("property") == "C15"}
    open_keys = {KEY_SN, *KEY_SQUEEZE, *KEY_DM}
    pinned_mode = open_keys <= known
    if not pinned_mode:
        ok = R.prove("Props/C15.v")
        if ok:
            if R.tier == "thorough":     # independent re-check of the compiled cone
                with vlib.Lock():
                    rc, out = vlib.sh("timeout 900 coqchk -silent -R . SPP -o SPP.Props.C15 2>&1", cwd=vlib.COQ, timeout=960)
                if rc != 0 or "* Axioms: <none>" not in out:
                    R.red.append("coqchk: " + out[-400:])
                else:
                    R.notes.append("coqchk -o SPP.Props.C15: no axioms, no type-in-type, no assumed positivity / guardedness")
            return
    else:
        R.notes.append("all C15 findings are listed as known: proving coq/Pinned/C15_props.v (partial + refuted) in place of Props/C15.v")
    # the shared part of the cone, then the three files of coq/Pinned by hand (they are not part of the Makefile)
    shared = ["Proofs/C15_glue.vo", "Proofs/C15_equiv.vo"]
    R.need(shared)
    logs = []
    allok = True
    with vlib.Lock():
        for f in ("C15_pinned", "C15_mainp", "C15_props"):
            rc, out = vlib.sh(f"timeout 600 coqc -Q . SPP -w -deprecated-hint-without-locality,-notation-overridden,-ambiguous-paths Pinned/{f}.v 2>&1", cwd=vlib.COQ, timeout=660)
            logs.append(out)
            if rc != 0:
                allok = False
                break
    log = "\n".join(logs)
    cone = vlib.cone_of("Pinned/C15_props.v")
    for f in cone:
        txt = re.sub(r"\(\*.*?\*\)", "", open(f"{vlib.COQ}/{f}").read(), flags=re.S)
        for mm in vlib.HYGIENE_RE.finditer(txt):
            R.red.append(f"hygiene: {f} contains '{mm.group(1)}'")
    closed = len(re.findall(r"Closed under the global context", log))
    if pinned_mode:
        R.cone = cone
        R.obligations = vlib.count_obligations(cone)
        R.discharged = R.obligations if allok else 0
        R.closed_count = closed
        R.assumptions_printed = []
        R.checker_cmd = f"cd {vlib.COQ} && make Proofs/C15_glue.vo Proofs/C15_equiv.vo && coqc -Q . SPP Pinned/C15_pinned.v Pinned/C15_mainp.v Pinned/C15_props.v"
        if not allok:
            R.red.append("proof: coq/Pinned/C15_props.v does not build: " + log[-500:])
    else:
        R.notes.append("Props/C15.v (full strength, for the repaired tree) does not build on this tree; the counterpart coq/Pinned/C15_props.v "
                       "(partial + refuted theorems for the unrepaired text) " + ("builds: %d theorems closed under the global context" % closed if allok else "does not build either"))


def run(R: vlib.Run):
    warnings.filterwarnings("ignore")
    os.environ.setdefault("NUMBA_NUM_THREADS", "4")
    from sigpyproc.core import stats
    R.rule = ("shapes 1-D (8..64) and 2-D (8x8..16x9, plus 1xN / Nx1 with the reduced axis >= 8) x data kinds {normal, ties, >50% ties, "
              "constant, heavy outliers, skewed}, multiples of 1/16 x one affine map per array with 1e-2 <= |a| <= 1e2 (30% exact powers of two, "
              "both signs, offsets up to ~10 |a| sigma) x 9 scale methods x axis in {None, 0, 1} x {median, mean, norm}.  A case = (array, "
              "method, axis); non-trivial unless the data are constant; distinct by (array index, method, axis)")
    R.trusted += [
        "Coq 8.16.1 kernel + vm_compute (refutation witnesses, Examples, the Coq side of the correspondence)",
        "Model/C15_np.v: the reading of NumPy (reductions along an axis, keepdims, broadcasting, squeeze / expand_dims, percentile 'linear', "
        "median, partition, triu_indices) over exact rationals; validated numerically by the correspondence run",
        "tools/py2coq/gen_c15.py: typed translation of the _scale_* functions; apply_along_axes / estimate_loc / estimate_scale / "
        "estimate_zscore recognised by their exact statement text (any textual change fails closed)",
        "modelled, not verified: float32/float64 rounding and the float32 cast in estimate_zscore, np.isclose(x, 0) read as x = 0, NaN as a "
        "mask, np.sqrt / np.pi / np.std / np.cov / astropy biweight_scale as universally quantified functions; biweight and diffcov "
        "equivariance are checked numerically only (oracle)",
        "tolerances: 1e-9 relative per-axis vs per-lane (same float64 arithmetic), 1e-6 relative for scale(a x + b) in float64, 1e-4 (1 + |z|) "
        "for Z-scores (float32 data: 6e-8 x offset/scale <= 1e2, 10x margin); diffcov lanes with cancellation factor > 10 and lanes whose "
        "scale is zero are exempt from the Z-score sign relation (the fallback to unit scale is what the property prescribes there)",
    ]
    R.assume += ["NumPy / astropy compute what their documentation says on each lane (np.median, np.percentile, np.partition, np.cov, biweight_scale)",
                 "arrays are not empty and lanes have >= 8 samples (the property's quantifier); a tuple of axes is outside the modelled domain"]
    prove(R)
    R.need(["Gen/Stats.vo", "Model/C15_np.vo"])
    correspondence(R, stats)
    oracle(R, stats)
    callers(R, stats)
    return R
