"""C15 -- robust normalisation is finite, affine-equivariant and axis-consistent.

Proof: Props/C15.v over Gen/Stats.v (regenerated from sigpyproc/core/stats.py + utils.apply_along_axes by
tools/py2coq/gen_c15.py) and the NumPy-over-Q model Model/C15_np.v.  Correspondence: the generated Gallina
(estimate_loc / estimate_scale / estimate_zscore, every method but biweight) under vm_compute versus the implementation on
the same arrays, including which calls raise.  Oracle: the relations of the property in plain NumPy against the
implementation (per-axis == per-lane, keepdims results broadcast, scale(a x + b) = |a| scale(x), zscore sign, finiteness;
for a and -a on every array; the loc / scale fields of the Z-score result; scale method 'norm'; small-amplitude data; the
block / time-series normalise methods along every axis and the affine invariance of the two RFI masks built on the Z-scores).
"""
from __future__ import annotations

import concurrent.futures
import os
import re
import sys
import warnings
from fractions import Fraction

import numpy as np

import vlib

SCALES = ["std", "iqr", "mad", "doublemad", "diffcov", "biweight", "qn", "sn", "gapper"]
LOCS = ["median", "mean"]
COQ_SCALE = {"std": "S_std", "iqr": "S_iqr", "mad": "S_mad", "doublemad": "S_doublemad", "diffcov": "S_diffcov",
             "qn": "S_qn", "sn": "S_sn", "gapper": "S_gapper", "norm": "S_norm"}
COQ_LOC = {"median": "L_median", "mean": "L_mean", "norm": "L_norm"}
# oracle keys of the three defects of the tree without fixes/C15-*.diff
KEY_SN = "lanes-sn-axis"
KEY_SQUEEZE = ("keepdims-squeeze-mad", "keepdims-squeeze-iqr")
KEY_DM = ("equivariance-doublemad-reflection", "equivariance-zscore-doublemad-reflection")

# tolerances (justified in findings.d/C15.md and the evidence notes)
RT_LANE = 1e-9      # float64, same arithmetic on the same numbers in a different summation order
RT_SCALE = 1e-6     # float64 estimate_scale under x -> a x + b: unit roundoff 1.1e-16 x (|b| + |a| max|x|) / (|a| spread) <= 1e4
RT_Z = 1e-4         # estimate_zscore works on float32 data: 6e-8 x (offset / scale <= 1e2) x a few operations, 10x margin
QUANT = 1.0 / 16    # data are multiples of 1/16: ties are exact, non-zero gaps are >= 1/16 (so no scale is "almost" zero)
TINY = 2.0 ** -24   # amplitude of the "tiny/<kind>" arrays: the same multiples of 1/16 in units of 2**-24 (exact in float32); with
#                     |a| = 2**-4 .. 2**-6 the MAD of a x + b is below 1e-8 while that of x is above it: an absolute "is the MAD zero"
#                     threshold (np.isclose(mad, 0), repaired by 35a5e4f) makes mad / doublemad switch estimator under the map
EPS32 = float(np.finfo(np.float32).eps)


# ------------------------------------------------------------------------------------------------------------
# data
# ------------------------------------------------------------------------------------------------------------
def gen_data(rng, shape, kind):
    if kind.startswith("tiny/"):
        return gen_data(rng, shape, kind[5:]) * TINY
    if kind.startswith("constlane/"):
        # "constlane/<axis>/<first|middle|last>/<kind of the other lanes>": one lane along <axis> is constant, the others are not
        _, ax, where, other = kind.split("/")
        x = gen_data(rng, shape, other)
        nl = shape[1 - int(ax)]
        j = {"first": 0, "middle": nl // 2, "last": nl - 1}[where]
        c = round(rng.uniform(-40.0, 40.0) / QUANT) * QUANT
        if int(ax) == 0:
            x[:, j] = c
        else:
            x[j, :] = c
        return x
    n = int(np.prod(shape))
    nrng = np.random.default_rng(rng.randrange(2 ** 32))
    if kind == "normal":
        x = np.round(nrng.normal(3.0, 5.0, n) / QUANT) * QUANT
    elif kind == "ties":
        x = nrng.integers(0, 4, n).astype(np.float64)
    elif kind == "heavyties":
        x = np.where(nrng.random(n) < 0.7, 2.0, np.round(nrng.normal(0.0, 5.0, n) / QUANT) * QUANT)
    elif kind == "const":
        x = np.full(n, 7.25)
    elif kind == "outliers":
        x = np.round(nrng.normal(0.0, 1.0, n) / QUANT) * QUANT
        k = max(1, n // 10)
        idx = nrng.choice(n, k, replace=False)
        x[idx] += nrng.choice([-1.0, 1.0], k) * nrng.integers(100, 100000, k)
    elif kind == "skewed":
        x = np.round(nrng.exponential(4.0, n) / QUANT) * QUANT
    else:
        raise ValueError(kind)
    return x.reshape(shape)


def lanes_of(x, axis):
    """list of (index into the keepdims=False result, lane as a 1-D array)"""
    if axis is None or x.ndim == 1:
        return [((), x.ravel())]
    if axis == 0:
        return [((j,), x[:, j]) for j in range(x.shape[1])]
    return [((i,), x[i, :]) for i in range(x.shape[0])]


def put_lane(shape, axis, pos, lane_vals):
    """scatter per-sample values of one lane back to an array position selector"""
    if axis is None or len(shape) == 1:
        return (slice(None),) * len(shape), np.reshape(lane_vals, shape)
    if axis == 0:
        return (slice(None), pos[0]), lane_vals
    return (pos[0], slice(None)), lane_vals


def spread(v):
    v = np.asarray(v, dtype=np.float64).ravel()
    return float(np.max(np.abs(v - np.median(v)))) if v.size else 0.0


def diffcov_kappa(lane):
    """condition number of the signed sum behind _scale_diffcov_1d (cancellation)"""
    d = np.diff(lane)
    if d.size < 3:
        return np.inf
    p, q = d[:-1] - np.mean(d[:-1]), d[1:] - np.mean(d[1:])
    t = p * q
    s = abs(np.sum(t))
    return np.inf if s == 0 else float(np.sum(np.abs(t)) / s)


def close(a, b, rtol, atol):
    a, b = np.asarray(a, dtype=np.float64), np.asarray(b, dtype=np.float64)
    return a.shape == b.shape and bool(np.all(np.abs(a - b) <= atol + rtol * np.abs(b)))


def tolist(a):
    return np.asarray(a, dtype=np.float64).ravel().tolist()


# ------------------------------------------------------------------------------------------------------------
# oracle
# ------------------------------------------------------------------------------------------------------------
def oracle(R, stats):
    rng = R.rng
    quick = R.tier == "quick"
    shapes1 = [(8,), (9,), (16,)] + ([] if quick else [(33,), (64,)])
    shapes2 = [(8, 8), (9, 11), (12, 8)] + ([] if quick else [(16, 9), (8, 21)])
    degenerate = [(1, 9), (9, 1)] + ([] if quick else [(1, 16), (12, 1)])
    kinds = ["normal", "ties", "heavyties", "const", "outliers", "skewed"]
    reps = 1 if quick else 8
    plan = []
    for sh in shapes1 + shapes2 + degenerate:
        for kind in kinds:
            for _ in range(reps):
                plan.append((sh, kind))
    # one constant lane (first / middle / last) among non-constant ones, along either axis of every 2-D shape: a lane-wise result must not
    # depend on the other lanes (np.apply_along_axis, for one, takes the dtype of its output buffer from the first lane)
    others = ["normal", "skewed", "outliers", "ties"]
    for i, (ax, where) in enumerate([(ax, w) for ax in (0, 1) for w in ("first", "middle", "last")]):
        for k, sh in enumerate([shapes2[i % len(shapes2)]] if quick else shapes2):
            for r in range(1 if quick else 2):
                plan.append((sh, f"constlane/{ax}/{where}/{others[(i + k + r) % len(others)]}"))
    rng.shuffle(plan)
    # small-amplitude data (appended after the shuffle: the arrays above are those of earlier versions of this check for the same seed):
    # the property is unit free, so the same relations are demanded of data in units of 2**-24 under maps that shrink them further
    tiny_kinds = ["tiny/outliers", "tiny/normal", "tiny/skewed", "tiny/heavyties", "tiny/ties"]
    tiny_shapes = [(9,), (16,), (8, 8), (9, 11), (12, 8)] if quick else shapes1 + shapes2 + degenerate
    for i, sh in enumerate(tiny_shapes):
        for r in range(1 if quick else 3):
            plan.append((sh, tiny_kinds[(i + r) % len(tiny_kinds)]))

    def new_map(tiny=False):
        if tiny:       # |a| = 2**-4 .. 2**-6 (inside 1e-2 <= |a| <= 1e2), offsets of up to ~10 |a| sigma in the units of the data; all exact
            a = rng.choice([-1.0, 1.0]) * 2.0 ** -rng.randrange(4, 7)
            b = round(rng.gauss(0.0, 10.0) / QUANT) * QUANT * TINY * abs(a) if rng.random() < 0.8 else 0.0
            return float(a), float(b)
        e = rng.uniform(-2.0, 2.0)
        a = rng.choice([-1.0, 1.0]) * 10.0 ** e
        if rng.random() < 0.3:
            a = rng.choice([-1.0, 1.0]) * 2.0 ** rng.randrange(-6, 7)      # exact scalings
        if rng.random() < 0.15:
            a = rng.choice([1e-2, -1e-2, 1e2, -1e2, 1.0, -1.0])
        # offsets stay within ~30 |a| sigma: estimate_zscore works on the float32 cast of its input (see R.assume)
        b = round(rng.gauss(0.0, 10.0) * abs(a), 3) if rng.random() < 0.8 else 0.0
        return float(a), float(b)

    def fail(key, what, case):
        R.fail(key, what, case)

    def bump(name, k=1):
        R.hist[name] = R.hist.get(name, 0) + k

    for ci, (shape, kind) in enumerate(plan):
        tiny = kind.startswith("tiny/")
        amp = TINY if tiny else 1.0          # the unit of the data: absolute slacks are relative to it
        tk = "-tiny" if tiny else ""
        x = gen_data(rng, shape, kind)
        if len(shape) == 2:      # the same values in other memory layouts: Fortran order, a transposed view, a read-only array
            lay = ci % 4
            if lay == 1:
                x = np.asfortranarray(x)
            elif lay == 2:
                x = np.ascontiguousarray(x.T).T
            elif lay == 3:
                x = x.copy(); x.setflags(write=False)
        a, b = new_map(tiny)
        # every array is mapped with both signs of a: a reflection exchanges the two sides of the order statistics, which is where
        # asymmetric estimators (percentile pairs, one-sided MADs, gap weights) show; (a, b) alone would leave that to the draw
        maps = [(a, b, a * x + b), (-a, b, (-a) * x + b)]
        axes = [None, 0] if len(shape) == 1 else [ax for ax in (None, 0, 1) if ax is None or shape[ax] >= 8]
        sx_spread = spread(x)
        xmax = float(np.max(np.abs(x)))
        atol = 1e-12 * (amp + xmax)
        for m in SCALES:
            for axis in axes:
                base = {"shape": list(shape), "kind": kind, "method": m, "axis": axis, "a": a, "b": b, "x": tolist(x)}
                regime = f"{m}/axis={axis}/{'1d' if len(shape) == 1 else ('deg' if 1 in shape else '2d')}" + tk
                R.case((ci, m, axis), nontrivial=not kind.endswith("const"), regime=regime,
                       sample={"shape": list(shape), "kind": kind, "method": m, "axis": axis, "a": a, "b": b} if ci < 2 and m == "mad" else None)
                lanes = lanes_of(x, axis)
                # ---- the 1-D estimator on each lane (the reference of "per lane") --------------------------------
                try:
                    lane_est = [np.asarray(stats.estimate_scale(l.copy(), m), dtype=np.float64) for _, l in lanes]
                except Exception as e:  # noqa: BLE001
                    fail(f"exception-1d-{m}", f"1-D estimate_scale raised {type(e).__name__}: {e}", base)
                    continue
                # ---- per-axis == per-lane, keepdims=False ----------------------------------------------------------
                try:
                    r = np.asarray(stats.estimate_scale(x, m, axis), dtype=np.float64)
                    rk = np.asarray(stats.estimate_scale(x, m, axis, keepdims=True), dtype=np.float64)
                except Exception as e:  # noqa: BLE001
                    key = f"keepdims-squeeze-{m}" if (m in ("mad", "iqr") and 1 in shape) else f"exception-scale-{m}"
                    fail(key, f"estimate_scale raised {type(e).__name__}: {e}", base)
                    continue
                lanes_bad = False
                if m == "doublemad":
                    full = np.empty(shape)
                    for (pos, l), le in zip(lanes, lane_est):
                        sel, vals = put_lane(shape, axis, pos, le)
                        full[sel] = vals
                    for nm, arr in (("", r), ("-keepdims", rk)):
                        if arr.shape != tuple(shape) or not close(arr, full, RT_LANE, atol):
                            fail(f"lanes-doublemad{nm}", "doublemad along the axis is not the 1-D doublemad of each lane",
                                 dict(base, got=tolist(arr), expected=tolist(full)))
                    want_scale = full            # what ZScoreResult.scale must read at every sample (before the unit-scale fallback)
                else:
                    exp = np.array([float(le) for le in lane_est])
                    lanes_bad = r.size != exp.size or not close(r.ravel(), exp, RT_LANE, atol)
                    if lanes_bad:
                        key = KEY_SN if m == "sn" else f"lanes-scale-{m}"
                        fail(key, "estimate_scale along the axis differs from the 1-D estimator of each lane (or of the flattened data)",
                             dict(base, got=tolist(r), expected=tolist(exp)))
                    # the keepdims=False result is the array of the per-lane results: the input's shape without the reduced axis (a scalar for
                    # axis=None; a single lane may also come back as a scalar) -- not, e.g., a column or a keepdims-style array
                    lane_shape = () if (axis is None or len(shape) == 1) else (shape[1 - axis],)
                    if not lanes_bad and r.shape != lane_shape and not (r.size == 1 and r.shape == ()):
                        fail(f"shape-scale-{m}", "keepdims=False result does not have the shape of the per-lane results",
                             dict(base, got_shape=list(r.shape), expected_shape=list(lane_shape)))
                    # ---- keepdims=True broadcasts against the input, lane by lane ---------------------------------
                    try:
                        bro = np.broadcast_to(rk, shape)
                    except ValueError:
                        fail(f"broadcast-scale-{m}", "keepdims=True result does not broadcast against the input",
                             dict(base, got_shape=list(rk.shape)))
                        bro = None
                    full = np.empty(shape)
                    for (pos, l), le in zip(lanes, lane_est):
                        sel, vals = put_lane(shape, axis, pos, np.full(l.shape, float(le)))
                        full[sel] = vals
                    want_scale = full
                    if bro is not None:
                        if not close(bro, full, RT_LANE, atol):
                            key = KEY_SN if m == "sn" else f"broadcast-scale-{m}"
                            fail(key, "keepdims=True result, broadcast to the input, is not the per-lane estimate",
                                 dict(base, got=tolist(rk), got_shape=list(rk.shape), expected=tolist(full)))
                # ---- |a|-equivariance of the scale, for a and for -a ---------------------------------------------------
                live = []
                for a_, b_, y in maps:
                    mbase = dict(base, a=a_, b=b_)
                    try:
                        ry = np.asarray(stats.estimate_scale(y, m, axis, keepdims=True), dtype=np.float64)
                    except Exception as e:  # noqa: BLE001
                        fail(f"exception-scale-{m}", f"estimate_scale(a x + b) raised {type(e).__name__}: {e}", mbase)
                        continue
                    live.append((a_, b_, y))
                    sa = abs(a_) * max(sx_spread, 1e-300)
                    # zero / negligible scales: absolute slack relative to the spread of the data; diffcov is the square root of
                    # a signed sum, so its absolute error is sqrt(eps) x spread
                    atol_s = (1e-6 if m == "diffcov" else 1e-11) * (sa + abs(b_) + abs(a_) * xmax)
                    ok = ry.shape == rk.shape and bool(np.all(np.abs(ry - abs(a_) * rk) <= atol_s + RT_SCALE * abs(a_) * np.abs(rk)))
                    if not ok and m == "doublemad" and a_ < 0 and ry.shape == rk.shape:
                        loc = np.asarray(stats.estimate_loc(x, "median", axis, keepdims=True))
                        off = np.abs(ry - abs(a_) * rk) > atol_s + RT_SCALE * abs(a_) * np.abs(rk)
                        key = KEY_DM[0] if bool(np.all((x == loc)[off])) else "equivariance-scale-doublemad" + tk
                        fail(key, "doublemad: scale(a x + b) != |a| scale(x) (a < 0; at samples equal to the median)" if key == KEY_DM[0]
                             else "scale(a x + b) != |a| scale(x)", dict(mbase, scale_x=tolist(rk), scale_y=tolist(ry)))
                    elif not ok:
                        fail(f"equivariance-scale-{m}{tk}", "scale(a x + b) != |a| scale(x)" + (" on small-amplitude data (an absolute threshold in the estimator?)" if tiny else ""),
                             dict(mbase, scale_x=tolist(rk), scale_y=tolist(ry)))
                if not live:
                    continue
                # ---- Z-scores ---------------------------------------------------------------------------------------------
                # lanes (doublemad: samples) exempt from the sign relation: zero scale (the property prescribes the unit-scale fallback there,
                # under which z(a x + b) = a z(x): demanded below) and ill-conditioned diffcov lanes
                mask = np.ones(shape, dtype=bool)
                zero_lanes = []
                for (pos, l), le in zip(lanes, lane_est):
                    sp = spread(l)
                    lane_scale = np.asarray(le, dtype=np.float64)
                    degenerate_lane = bool(np.all(lane_scale <= 1e-6 * max(sp, 1e-300))) or sp == 0.0
                    illcond = m == "diffcov" and diffcov_kappa(l) > 10.0
                    if m == "doublemad" and not degenerate_lane:
                        # one scale per sample: the unit-scale fallback applies sample by sample
                        sel, vals = put_lane(shape, axis, pos, (lane_scale > 1e-6 * sp).astype(float))
                        mask[sel] = np.asarray(vals, dtype=bool) if np.ndim(mask[sel]) else bool(vals)
                    if degenerate_lane or illcond:
                        sel, _ = put_lane(shape, axis, pos, np.zeros(l.shape))
                        mask[sel] = False
                        zero_lanes.append((degenerate_lane, illcond))
                for lm in LOCS + ["norm"]:
                    zbase = dict(base, loc_method=lm)
                    try:
                        zx = stats.estimate_zscore(x, lm, m, axis)
                    except Exception as e:  # noqa: BLE001
                        key = f"keepdims-squeeze-{m}" if (m in ("mad", "iqr") and 1 in shape) else f"exception-zscore-{m}"
                        fail(key, f"estimate_zscore raised {type(e).__name__}: {e}", zbase)
                        continue
                    R.evals += 1
                    dzx = np.asarray(zx.data, dtype=np.float64)
                    if dzx.shape != tuple(shape) or not np.all(np.isfinite(dzx)):
                        fail(f"finite-zscore-{m}", "Z-scores of finite data are not finite (or have the wrong shape)",
                             dict(zbase, z=tolist(dzx)[:40]))
                        continue
                    for dl, ic in zero_lanes:
                        bump("zscore-lane-skipped-" + ("zero-scale" if dl else "illconditioned"))
                    # a zero scale estimate falls back to unit scale: on a lane whose 1-D estimate is exactly zero (a constant lane; IQR / Qn / Sn
                    # of heavily tied data) the Z-scores are the deviations themselves.  x is exact in float32, loc is rounded to it
                    fired = []
                    want_loc = np.zeros(shape)
                    for (pos, l), le in zip(lanes, lane_est):
                        loc_l = 0.0 if lm == "norm" else float(np.median(l) if lm == "median" else np.mean(l))
                        sel, lv = put_lane(shape, axis, pos, np.full(l.shape, loc_l))
                        want_loc[sel] = lv
                        if not bool(np.all(np.asarray(le) == 0.0)):
                            continue
                        sel, want = put_lane(shape, axis, pos, l - loc_l)
                        fired.append((pos, l, sel, want))
                        bump("zero-scale-lanes-checked")
                        if not bool(np.all(np.abs(dzx[sel] - want) <= 4 * EPS32 * (amp + float(np.max(np.abs(l)))))):
                            fail(KEY_SN if (m == "sn" and lanes_bad) else f"zero-scale-zscore-{m}",
                                 "the scale estimate of a lane is zero but its Z-scores are not (x - loc) / 1 (unit-scale fallback)",
                                 dict(zbase, lane=list(pos), z=tolist(dzx[sel])[:20], expected=tolist(want)[:20]))
                    # ---- the other two fields of the result: the location subtracted and the divisor used, in a layout that broadcasts
                    # against the data; the divisor is the per-lane scale estimate, and 1 where that estimate is zero ---------------------------
                    if not lanes_bad:
                        try:
                            got_loc = np.broadcast_to(np.asarray(zx.loc, dtype=np.float64), shape)
                            got_sc = np.broadcast_to(np.asarray(zx.scale, dtype=np.float64), shape)
                        except ValueError:
                            fail(f"zscore-fields-{m}", "ZScoreResult.loc / .scale do not broadcast against the data",
                                 dict(zbase, loc_shape=list(np.shape(zx.loc)), scale_shape=list(np.shape(zx.scale))))
                        else:
                            bump("zscore-fields-checked")
                            if not close(got_loc, want_loc, RT_LANE, atol):
                                fail(f"zscore-loc-{lm}", "ZScoreResult.loc is not the location of each lane (0 for 'norm')",
                                     dict(zbase, got=tolist(zx.loc)[:40], expected=tolist(want_loc)[:40]))
                            want_div = np.where(want_scale == 0.0, 1.0, want_scale)
                            if not close(got_sc, want_div, RT_SCALE, atol):
                                fail(KEY_SN if m == "sn" else f"zscore-divisor-{m}",
                                     "ZScoreResult.scale is not the scale estimate of each lane, with 1 where that estimate is zero",
                                     dict(zbase, got=tolist(zx.scale)[:40], expected=tolist(want_div)[:40]))
                    # ---- per-axis == per-lane (every location method, 'norm' included) ---------------------------------------
                    full = np.empty(shape)
                    lane_ok = True
                    for pos, l in lanes:
                        try:
                            zl = np.asarray(stats.estimate_zscore(l.copy(), lm, m, 0).data, dtype=np.float64)
                        except Exception as e:  # noqa: BLE001
                            lane_ok = False
                            fail(f"exception-zscore-1d-{m}", f"estimate_zscore of one lane as a 1-D array raised {type(e).__name__}: {e} "
                                 "(the call on the whole array did not)", dict(zbase, lane=list(pos)))
                            break
                        sel, vals = put_lane(shape, axis, pos, zl)
                        full[sel] = vals
                    if lane_ok and not bool(np.all(np.abs(dzx - full) <= 1e-5 * (1.0 + np.abs(full)))):
                        key = KEY_SN if m == "sn" else f"lanes-zscore-{m}"
                        fail(key, "Z-scores along the axis differ from the Z-scores of each lane", dict(zbase, got=tolist(dzx)[:60], expected=tolist(full)[:60]))
                    # ---- the Z-scores of a x + b -------------------------------------------------------------------------------
                    for a_, b_, y in live:
                        ybase = dict(zbase, a=a_, b=b_)
                        try:
                            zy = stats.estimate_zscore(y, lm, m, axis)
                        except Exception as e:  # noqa: BLE001
                            key = f"keepdims-squeeze-{m}" if (m in ("mad", "iqr") and 1 in shape) else f"exception-zscore-{m}"
                            fail(key, f"estimate_zscore(a x + b) raised {type(e).__name__}: {e}", ybase)
                            continue
                        R.evals += 1
                        dzy = np.asarray(zy.data, dtype=np.float64)
                        if dzy.shape != tuple(shape) or not np.all(np.isfinite(dzy)):
                            fail(f"finite-zscore-{m}", "Z-scores of finite data are not finite (or have the wrong shape)",
                                 dict(ybase, z=tolist(dzy)[:40]))
                            continue
                        if lm == "norm" and b_ != 0.0:
                            continue       # no location is subtracted: only a pure scaling commutes with the Z-scores
                        # zero-scale lanes: unit scale on both sides, so z(a x + b) = a z(x) = a (x - loc).  (Ties of x are ties of a x + b, so the
                        # estimate is exactly zero there too.)  Each of y, its location and loc(x) is rounded to float32 once
                        for pos, l, sel, want in fired:
                            if m == "diffcov" and spread(l) != 0.0:
                                continue   # a covariance that cancels to exactly 0 on x is rounding noise on a x + b: the ill-conditioned lanes exempted above
                            bump("zero-scale-lanes-checked-mapped")
                            slack = 4 * EPS32 * (abs(b_) + abs(a_) * (amp + float(np.max(np.abs(l)))))
                            if not bool(np.all(np.abs(dzy[sel] - a_ * want) <= slack + 1e-6 * np.abs(a_ * want))):
                                fail(KEY_SN if (m == "sn" and lanes_bad) else f"zero-scale-zscore-mapped-{m}",
                                     "the scale estimate of a lane is zero but the Z-scores of a x + b are not a (x - loc) (unit-scale fallback on both sides)",
                                     dict(ybase, lane=list(pos), z=tolist(dzy[sel])[:20], expected=tolist(a_ * want)[:20]))
                        # sign(a)-equivariance, where the scale is not (numerically) zero and the estimator is well conditioned
                        dev = np.abs(dzy - np.sign(a_) * dzx)
                        bad = mask & (dev > RT_Z * (1.0 + np.abs(dzx)))
                        if bool(np.any(bad)):
                            if m == "doublemad":
                                loc = np.asarray(stats.estimate_loc(x, "median", axis, keepdims=True))
                                key = KEY_DM[1] if (a_ < 0 and bool(np.all((x == loc)[bad]))) else "equivariance-zscore-doublemad" + tk
                            elif lanes_bad:
                                key = KEY_SN if m == "sn" else f"lanes-scale-{m}"     # the scale used is not the lane's: same defect
                            else:
                                key = f"equivariance-zscore-{m}{tk}"
                            fail(key, "zscore(a x + b) != sign(a) zscore(x)", dict(ybase, z_x=tolist(dzx[bad])[:10], z_y=tolist(dzy[bad])[:10]))
        # ---- scale method 'norm' (unit scale): the Z-scores are the deviations from the location, for every location method -----
        for axis in axes:
            for lm in LOCS + ["norm"]:
                nbase = {"shape": list(shape), "kind": kind, "method": "norm", "loc_method": lm, "axis": axis, "x": tolist(x)}
                R.case((ci, "norm", lm, axis), nontrivial=not kind.endswith("const"), regime=f"norm/axis={axis}" + tk)
                try:
                    zn = stats.estimate_zscore(x, lm, "norm", axis)
                    dzn = np.asarray(zn.data, dtype=np.float64)
                    one = np.broadcast_to(np.asarray(zn.scale, dtype=np.float64), shape)
                except Exception as e:  # noqa: BLE001
                    fail("exception-zscore-norm", f"estimate_zscore(scale_method='norm') raised {type(e).__name__}: {e}", nbase)
                    continue
                want = np.empty(shape)
                for pos, l in lanes_of(x, axis):
                    loc_l = 0.0 if lm == "norm" else float(np.median(l) if lm == "median" else np.mean(l))
                    sel, vals = put_lane(shape, axis, pos, l - loc_l)
                    want[sel] = vals
                if dzn.shape != tuple(shape) or not bool(np.all(one == 1.0)) or not bool(np.all(np.abs(dzn - want) <= 4 * EPS32 * (amp + xmax))):
                    fail("zscore-norm-scale", "with scale_method='norm' the Z-scores are not (x - loc) / 1 of each lane",
                         dict(nbase, got=tolist(dzn)[:40], expected=tolist(want)[:40]))
        # ---- location estimators: per-axis == per-lane, and broadcast ------------------------------------------------
        for lm in LOCS:
            for axis in axes:
                lbase = {"shape": list(shape), "kind": kind, "axis": axis, "x": tolist(x)}
                try:
                    r = np.asarray(stats.estimate_loc(x, lm, axis), dtype=np.float64)
                    rk = np.asarray(stats.estimate_loc(x, lm, axis, keepdims=True), dtype=np.float64)
                    exp = np.array([float(stats.estimate_loc(l.copy(), lm)) for _, l in lanes_of(x, axis)])
                    bro = np.broadcast_to(rk, shape)
                except Exception as e:  # noqa: BLE001
                    fail(f"exception-loc-{lm}", f"estimate_loc raised {type(e).__name__}: {e}", lbase)
                    continue
                R.evals += 1
                if r.size != exp.size or not close(r.ravel(), exp, RT_LANE, atol) or bro.shape != tuple(shape):
                    fail(f"lanes-loc-{lm}", "estimate_loc along the axis differs from the 1-D estimator of each lane",
                         dict(lbase, got=tolist(r), expected=tolist(exp)))
                    continue
                lane_shape = () if (axis is None or len(shape) == 1) else (shape[1 - axis],)
                if r.shape != lane_shape and not (r.size == 1 and r.shape == ()):
                    fail(f"shape-loc-{lm}", "keepdims=False location does not have the shape of the per-lane results",
                         dict(lbase, got_shape=list(r.shape), expected_shape=list(lane_shape)))
                # keepdims=True: every sample reads the location of its own lane
                full = np.empty(shape)
                for (pos, l), le in zip(lanes_of(x, axis), exp):
                    sel, vals = put_lane(shape, axis, pos, np.full(l.shape, float(le)))
                    full[sel] = vals
                if not close(bro, full, RT_LANE, atol):
                    fail(f"broadcast-loc-{lm}", "keepdims=True location, broadcast to the input, is not the per-lane location",
                         dict(lbase, got=tolist(rk), got_shape=list(rk.shape), expected=tolist(full)))
                # the location follows the map: loc(a x + b) = a loc(x) + b (what makes the Z-scores of a x + b those of x up to sign)
                for a_, b_, y in maps:
                    try:
                        ly = np.asarray(stats.estimate_loc(y, lm, axis, keepdims=True), dtype=np.float64)
                    except Exception as e:  # noqa: BLE001
                        fail(f"exception-loc-{lm}", f"estimate_loc(a x + b) raised {type(e).__name__}: {e}", dict(lbase, a=a_, b=b_))
                        continue
                    if ly.shape != rk.shape or not bool(np.all(np.abs(ly - (a_ * rk + b_)) <= 1e-11 * (abs(b_) + abs(a_) * (amp + xmax)))):
                        fail(f"equivariance-loc-{lm}", "loc(a x + b) != a loc(x) + b", dict(lbase, a=a_, b=b_, loc_x=tolist(rk), loc_y=tolist(ly)))


def callers(R, stats):
    """FilterbankBlock.normalise / TimeSeries.normalise hand their data to estimate_zscore unchanged (observe_at)"""
    from sigpyproc.block import FilterbankBlock
    from sigpyproc.header import Header
    from sigpyproc.timeseries import TimeSeries
    nrng = np.random.default_rng(R.rng.randrange(2 ** 32))
    for nch, ns in ((1, 16), (3, 16)):
        x = (np.round(nrng.normal(0, 4, (nch, ns)) * 16) / 16).astype(np.float32)
        hdr = Header(filename="c15.fil", data_type="filterbank", nchans=nch, foff=-1.0, fch1=1500.0, nbits=32, tsamp=1e-3, tstart=60000.0, nsamples=ns)
        for lm, sm in (("mean", "std"), ("median", "mad"), ("median", "iqr")):
            R.case(("block", nch, lm, sm), regime="FilterbankBlock.normalise")
            try:
                got = FilterbankBlock(x.copy(), hdr).normalise(lm, sm, 1).data
                exp = np.stack([stats.estimate_zscore(x[i], lm, sm, 0).data for i in range(nch)])
            except Exception as e:  # noqa: BLE001
                key = f"keepdims-squeeze-{sm}" if (sm in ("mad", "iqr") and nch == 1) else "exception-block-normalise"
                R.fail(key, f"FilterbankBlock.normalise raised {type(e).__name__}: {e}", {"nchans": nch, "loc": lm, "scale": sm, "x": tolist(x)})
                continue
            if got.shape != x.shape or not np.all(np.isfinite(got)) or not np.allclose(got, exp, rtol=1e-5, atol=1e-5):
                R.fail("block-normalise", "FilterbankBlock.normalise differs from the per-channel Z-scores", {"nchans": nch, "loc": lm, "scale": sm, "x": tolist(x)})
    t = (np.round(nrng.normal(0, 4, 24) * 16) / 16).astype(np.float32)
    hdr = Header(filename="c15.tim", data_type="time series", nchans=1, foff=-1.0, fch1=1500.0, nbits=32, tsamp=1e-3, tstart=60000.0, nsamples=24)
    for lm, sm in (("mean", "std"), ("median", "mad")):
        R.case(("tim", lm, sm), regime="TimeSeries.normalise")
        try:
            got = TimeSeries(t.copy(), hdr).normalise(lm, sm).data
            exp = stats.estimate_zscore(t, lm, sm).data
        except Exception as e:  # noqa: BLE001
            R.fail("exception-timeseries-normalise", f"TimeSeries.normalise raised {type(e).__name__}: {e}", {"x": tolist(t)})
            continue
        if not np.allclose(got, exp, rtol=1e-6, atol=1e-6) or not np.all(np.isfinite(got)):
            R.fail("timeseries-normalise", "TimeSeries.normalise differs from estimate_zscore", {"x": tolist(t)})
    # a block normalised along either axis, over the whole block and with the default axis (>= 8 samples per lane; channel 3 is constant:
    # unit-scale fallback along axis 1): the Z-scores of each lane as a 1-D array
    x = (np.round(nrng.normal(0, 4, (8, 16)) * 16) / 16).astype(np.float32)
    x[3, :] = 2.5
    hdr = Header(filename="c15.fil", data_type="filterbank", nchans=8, foff=-1.0, fch1=1500.0, nbits=32, tsamp=1e-3, tstart=60000.0, nsamples=16)
    for axis in (0, 1, None, "default"):
        for lm, sm in (("mean", "std"), ("median", "mad"), ("median", "iqr")):
            case = {"nchans": 8, "loc": lm, "scale": sm, "axis": axis, "x": tolist(x)}
            R.case(("block-axis", axis, lm, sm), regime="FilterbankBlock.normalise")
            try:
                blk = FilterbankBlock(x.copy(), hdr)
                got = np.asarray((blk.normalise(lm, sm) if axis == "default" else blk.normalise(lm, sm, axis)).data)
                if axis is None:
                    exp = np.asarray(stats.estimate_zscore(x.ravel(), lm, sm, 0).data).reshape(x.shape)
                elif axis == 0:
                    exp = np.stack([stats.estimate_zscore(x[:, j], lm, sm, 0).data for j in range(x.shape[1])], axis=1)
                else:
                    exp = np.stack([stats.estimate_zscore(x[i], lm, sm, 0).data for i in range(x.shape[0])])
            except Exception as e:  # noqa: BLE001
                R.fail("exception-block-normalise", f"FilterbankBlock.normalise raised {type(e).__name__}: {e}", case)
                continue
            if got.shape != x.shape or not np.all(np.isfinite(got)) or not np.allclose(got, exp, rtol=1e-5, atol=1e-5):
                R.fail("block-normalise-axis", "FilterbankBlock.normalise along the axis (default: 1) differs from the Z-scores of each lane", case)
    # the RFI masks threshold |Z| (double MAD; IQR of lagged differences): |Z| is unchanged by x -> a x + b, so the mask is.  a is a power of two
    # and a x + b is exact in float32, so that every intermediate is scaled exactly and no |Z| crosses the threshold by rounding
    from sigpyproc.core import rfi
    v = np.round(nrng.normal(0, 4, 64) * 16) / 16
    v[[5, 40]] += 300.0
    v[20] -= 250.0
    v = v.astype(np.float32)
    for name, fn in (("doublemad", lambda u: rfi.double_mad_mask(u, 3.0)), ("iqrm", lambda u: rfi.iqrm_mask(u, 3.0, 5))):
        try:
            m0 = np.asarray(fn(v.copy()))
        except Exception as e:  # noqa: BLE001
            R.fail(f"exception-mask-{name}", f"rfi mask raised {type(e).__name__}: {e}", {"mask": name, "x": tolist(v)})
            continue
        for a_, b_ in ((0.25, 3.5), (-0.25, 3.5), (-8.0, -96.0), (-1.0, 0.0)):
            case = {"mask": name, "a": a_, "b": b_, "x": tolist(v)}
            R.case(("mask", name, a_, b_), nontrivial=bool(m0.any() and not m0.all()), regime="rfi masks")
            try:
                m1 = np.asarray(fn((np.float32(a_) * v + np.float32(b_)).astype(np.float32)))
            except Exception as e:  # noqa: BLE001
                R.fail(f"exception-mask-{name}", f"rfi mask raised {type(e).__name__}: {e}", case)
                continue
            if m1.shape != m0.shape or not bool(np.all(m1 == m0)):
                R.fail(f"mask-affine-{name}", "the RFI mask of a x + b is not the mask of x (|Z| must not depend on the units / sign convention of the data)",
                       dict(case, mask_x=np.flatnonzero(m0).tolist(), mask_y=np.flatnonzero(m1).tolist()))


# ------------------------------------------------------------------------------------------------------------
# correspondence: generated Gallina under vm_compute vs the implementation
# ------------------------------------------------------------------------------------------------------------
def q(x):
    fr = Fraction(float(x))
    return f"(qfrac ({fr.numerator}) {fr.denominator})"


def qlist(xs):
    xs = list(xs)
    return "(" + "".join(q(v) + " :: " for v in xs) + "nil)"


def zl(xs):
    return "[" + "; ".join(str(int(v)) for v in xs) + "]"


CORR_HDR = """From Coq Require Import ZArith List Bool QArith.
Require Import SPP.Base.Rt SPP.Model.C15_np SPP.Gen.Stats.
Import ListNotations. Open Scope Z_scope.
Definition est := estimate_scale approx_sqrt approx_pi std1 (fun _ => qz 0) cov01 nd_memo.
Definition zsc := estimate_zscore approx_sqrt approx_pi std1 (fun _ => qz 0) cov01 nd_memo.
Fixpoint all2 (tol : Qcanon.Qc) (a b : vec) : bool := match a, b with [], [] => true | x :: a', y :: b' => close tol x y && all2 tol a' b' | _, _ => false end.
Definition same (tol mul : Qcanon.Qc) (A : nd) (e : list Z * vec) : bool :=
  shape_eqb (shape A) (fst e) && all2 tol (map (Qcanon.Qcmult mul) (ravel A)) (map (Qcanon.Qcmult mul) (snd e)).
Inductive call := CScale (m : scale_method) (kd : bool) | CLoc (m : loc_method) (kd : bool) | CZ (l : loc_method) (m : scale_method) (el es : list Z * vec).
Definition ok (c : (list Z * vec) * option Z * call * option (list Z * vec) * Qcanon.Qc) : bool :=
  let '(inp, ax, cl, exp, mul) := c in
  let A := nd_of_list (fst inp) (snd inp) in
  match cl with
  | CScale m kd => match est A m ax kd, exp with None, None => true | Some B, Some e => same (qdec 1 9) mul B e | _, _ => false end
  | CLoc m kd => match estimate_loc A m ax kd, exp with None, None => true | Some B, Some e => same (qdec 1 9) mul B e | _, _ => false end
  | CZ l m el es => match zsc A l m ax, exp with None, None => true
                    | Some (z, lo, s), Some e => same (qdec 1 4) (qz 1) z e && same (qdec 1 9) mul lo el && same (qdec 1 9) mul s es | _, _ => false end
  end.
"""


def correspondence(R, stats):
    rng = R.rng
    quick = R.tier == "quick"
    shapes = [(9,), (8,), (8, 9), (9, 8), (1, 9), (9, 1)] + ([] if quick else [(12,), (10, 8)])
    nrng = np.random.default_rng(rng.randrange(2 ** 32))
    cases, meta = [], []

    def add(x, axis, call, fn, what, mul="(qz 1)"):
        # mul: both sides are multiplied by it before the comparison (`close` has an absolute part: |x - y| <= tol (1 + |y|))
        ax = "None" if axis is None else f"(Some {axis})"
        with warnings.catch_warnings():
            warnings.simplefilter("ignore")
            try:
                r = np.asarray(fn(), dtype=np.float64)
                exp = f"Some ({zl(r.shape)}, {qlist(r.ravel())})" if np.all(np.isfinite(r)) else None
                if exp is None:
                    return
            except Exception:  # noqa: BLE001
                exp = "None"
        cases.append(f"(({zl(x.shape)}, {qlist(x.ravel())}), {ax}, {call}, {exp}, {mul})")
        meta.append(dict(what, shape=list(x.shape), axis=axis, x=tolist(x), impl=exp[:200]))

    def add_z(x, axis, lm, m, what, mul="(qz 1)"):
        # all three fields of the result: the Z-scores (relative 1e-4: float32), and the location / divisor returned (ZScoreResult.loc, .scale:
        # float64, compared after multiplying by mul), shapes included
        def arr(v):
            v = np.asarray(v, dtype=np.float64)
            return f"({zl(v.shape)}, {qlist(v.ravel())})" if np.all(np.isfinite(v)) else None
        el = es = "([], nil)"
        holder = {}

        def fn():
            if "r" not in holder:
                holder["r"] = stats.estimate_zscore(x, lm, m, axis)
            return holder["r"].data
        with warnings.catch_warnings():
            warnings.simplefilter("ignore")
            try:
                fn()
                el, es = arr(holder["r"].loc), arr(holder["r"].scale)
                if el is None or es is None:
                    return
            except Exception:  # noqa: BLE001
                pass
        add(x, axis, f"CZ {COQ_LOC[lm]} {COQ_SCALE[m]} {el} {es}", fn, what, mul)

    for shape in shapes:
        n = int(np.prod(shape))
        for kind in range(4 if quick else 6):
            if kind == 0:
                x = nrng.integers(-8, 9, n) / 4.0
            elif kind == 1:
                x = np.where(nrng.random(n) < 0.6, 1.0, nrng.integers(-8, 9, n) / 2.0)
            elif kind == 2:
                x = np.full(n, 2.5)
            elif kind == 3:
                x = nrng.integers(-8, 9, n) / 4.0
                x[nrng.integers(0, n)] += 4096.0
            else:
                x = nrng.integers(0, 3, n).astype(np.float64)
            x = x.reshape(shape).astype(np.float64)
            axes = [None, 0] if len(shape) == 1 else [ax for ax in (None, 0, 1) if ax is None or shape[ax] >= 8]
            for axis in axes:
                for m in COQ_SCALE:
                    if m == "norm":
                        continue
                    for kd in (False, True):
                        add(x, axis, f"CScale {COQ_SCALE[m]} {'true' if kd else 'false'}",
                            lambda: stats.estimate_scale(x, m, axis, keepdims=kd), {"call": "estimate_scale", "method": m, "keepdims": kd})
                for lm in LOCS:
                    add(x, axis, f"CLoc {COQ_LOC[lm]} true", lambda: stats.estimate_loc(x, lm, axis, keepdims=True), {"call": "estimate_loc", "method": lm})
                if kind in (0, 1, 2):
                    for lm, m in (("median", "mad"), ("mean", "std"), ("median", "iqr"), ("norm", "qn"), ("median", "doublemad"),
                                  ("mean", "doublemad"), ("median", "sn"), ("mean", "gapper"), ("median", "norm")):
                        add_z(x, axis, lm, m, {"call": "estimate_zscore", "loc": lm, "scale": m})
                    if kind in (1, 2):
                        # the 'norm' methods together, and lanes with a zero scale estimate under x -> a x + b (unit divisor on both sides)
                        add_z(x, axis, "norm", "norm", {"call": "estimate_zscore", "loc": "norm", "scale": "norm"})
                        add_z(x, axis, "mean", "norm", {"call": "estimate_zscore", "loc": "mean", "scale": "norm"})
                        y = -0.5 * x + 3.0
                        for lm, m in (("median", "iqr"), ("mean", "qn"), ("median", "doublemad")):
                            add_z(y, axis, lm, m, {"call": "estimate_zscore", "loc": lm, "scale": m, "input": "-0.5 x + 3"})
    # small-amplitude data (multiples of 2**-32): locations and scales are compared in units of 2**-30, so that the 1e-9 of `close` is
    # relative to the data.  The generated definitions read the zero-MAD test of mad / doublemad as `= 0`; an implementation that decides
    # it with an absolute threshold (np.isclose(mad, 0): 1e-8, repaired by 35a5e4f) returns the mean-deviation fallback here and differs
    up = "(qz 1073741824)"
    for shape in [(9,), (8, 9)] + ([] if quick else [(16,), (9, 8)]):
        n = int(np.prod(shape))
        for kind in (0, 3):
            x = nrng.integers(-8, 9, n) / 4.0
            if kind == 3:
                x[nrng.integers(0, n)] += 4096.0
            x = (x * 2.0 ** -30).reshape(shape).astype(np.float64)
            axes = [None, 0] if len(shape) == 1 else [None, 0, 1]
            for axis in axes:
                for m in COQ_SCALE:
                    if m == "norm":
                        continue
                    for kd in (False, True):
                        add(x, axis, f"CScale {COQ_SCALE[m]} {'true' if kd else 'false'}",
                            lambda: stats.estimate_scale(x, m, axis, keepdims=kd), {"call": "estimate_scale", "method": m, "keepdims": kd, "amplitude": "2**-30"}, up)
                for lm in LOCS:
                    add(x, axis, f"CLoc {COQ_LOC[lm]} true", lambda: stats.estimate_loc(x, lm, axis, keepdims=True),
                        {"call": "estimate_loc", "method": lm, "amplitude": "2**-30"}, up)
                if kind == 0:
                    for lm, m in (("median", "mad"), ("mean", "doublemad"), ("median", "doublemad"), ("median", "iqr"), ("mean", "std")):
                        add_z(x, axis, lm, m, {"call": "estimate_zscore", "loc": lm, "scale": m, "amplitude": "2**-30"}, up)
    per = 120
    shards = [(i, cases[i:i + per]) for i in range(0, len(cases), per)]

    def run(sh):
        i, cs = sh
        txt = (CORR_HDR + "Definition cases := [\n" + ";\n".join(cs) + "].\n"
               "Eval vm_compute in (length cases, map fst (filter (fun p => negb (ok (snd p))) (combine (seq 0 (length cases)) cases))).\n")
        return i, vlib.coq_run(f"c15_{i // per}", txt, timeout=600)

    nbad = 0
    with concurrent.futures.ThreadPoolExecutor(max_workers=4) as ex:
        for i, (rc, out) in ex.map(run, shards):
            vals = vlib.parse_eval(out)
            if rc != 0 or not vals:
                R.red.append("correspondence: Corr/c15 did not evaluate: " + out[-400:])
                continue
            idxs = [int(v) for v in re.findall(r"(\d+)%nat", vals[0])]
            R.extra_cov["traces_validated_against_impl"] = R.extra_cov.get("traces_validated_against_impl", 0) + (idxs[0] if idxs else 0)
            for bi in idxs[1:][:5]:
                R.disagree("generated model (Gen/Stats.v under vm_compute) and implementation differ", meta[i + bi])
            nbad += len(idxs[1:])
    R.extra_cov["correspondence_cases"] = len(cases)
    R.evals += len(cases)
    R.hist["correspondence"] = len(cases)


# ------------------------------------------------------------------------------------------------------------
def prove(R):
    """Props/C15.v holds for the tree with the C15 repairs.  While the three findings are recorded as known instead
    (known_findings.json), the counterpart coq/Pinned/C15_props.v (partial + refuted theorems) is what must hold."""
    known = {k.get("key") for k in vlib.load_known() if k.get("property") == "C15"}
    open_keys = {KEY_SN, *KEY_SQUEEZE, *KEY_DM}
    pinned_mode = open_keys <= known
    if not pinned_mode:
        ok = R.prove("Props/C15.v")
        if ok:
            if R.tier == "thorough":     # independent re-check of the compiled cone
                with vlib.Lock():
                    rc, out = vlib.sh("timeout 900 coqchk -silent -R . SPP -o SPP.Props.C15 2>&1", cwd=vlib.COQ, timeout=960)
                if rc != 0 or "* Axioms: <none>" not in out:
                    R.red.append("coqchk: " + out[-400:])
                else:
                    R.notes.append("coqchk -o SPP.Props.C15: no axioms, no type-in-type, no assumed positivity / guardedness")
            return
    else:
        R.notes.append("all C15 findings are listed as known: proving coq/Pinned/C15_props.v (partial + refuted) in place of Props/C15.v")
    # the shared part of the cone, then the three files of coq/Pinned by hand (they are not part of the Makefile)
    shared = ["Proofs/C15_glue.vo", "Proofs/C15_equiv.vo"]
    R.need(shared)
    logs = []
    allok = True
    with vlib.Lock():
        for f in ("C15_pinned", "C15_mainp", "C15_props"):
            rc, out = vlib.sh(f"timeout 600 coqc -Q . SPP -w -deprecated-hint-without-locality,-notation-overridden,-ambiguous-paths Pinned/{f}.v 2>&1", cwd=vlib.COQ, timeout=660)
            logs.append(out)
            if rc != 0:
                allok = False
                break
    log = "\n".join(logs)
    cone = vlib.cone_of("Pinned/C15_props.v")
    for f in cone:
        txt = re.sub(r"\(\*.*?\*\)", "", open(f"{vlib.COQ}/{f}").read(), flags=re.S)
        for mm in vlib.HYGIENE_RE.finditer(txt):
            R.red.append(f"hygiene: {f} contains '{mm.group(1)}'")
    closed = len(re.findall(r"Closed under the global context", log))
    if pinned_mode:
        R.cone = cone
        R.obligations = vlib.count_obligations(cone)
        R.discharged = R.obligations if allok else 0
        R.closed_count = closed
        R.assumptions_printed = []
        R.checker_cmd = f"cd {vlib.COQ} && make Proofs/C15_glue.vo Proofs/C15_equiv.vo && coqc -Q . SPP Pinned/C15_pinned.v Pinned/C15_mainp.v Pinned/C15_props.v"
        if not allok:
            R.red.append("proof: coq/Pinned/C15_props.v does not build: " + log[-500:])
    else:
        R.notes.append("Props/C15.v (full strength, for the repaired tree) does not build on this tree; the counterpart coq/Pinned/C15_props.v "
                       "(partial + refuted theorems for the unrepaired text) " + ("builds: %d theorems closed under the global context" % closed if allok else "does not build either"))


def run(R: vlib.Run):
    warnings.filterwarnings("ignore")
    if "numba" not in sys.modules:     # once numba has launched its threads (check.py: set_num_threads) a changed value makes every compilation raise
        os.environ.setdefault("NUMBA_NUM_THREADS", "4")
    from sigpyproc.core import stats
    R.rule = ("shapes 1-D (8..64) and 2-D (8x8..16x9, plus 1xN / Nx1 with the reduced axis >= 8) x data kinds {normal, ties, >50% ties, "
              "constant, heavy outliers, skewed; 2-D: one constant lane (first / middle / last, along either axis) among non-constant ones}, "
              "multiples of 1/16 x one affine map per array with 1e-2 <= |a| <= 1e2 (30% exact powers of two, "
              "offsets up to ~10 |a| sigma), applied as (a, b) and as (-a, b) x 9 scale methods (+ 'norm') x axis in {None, 0, 1} x {median, mean, norm}; "
              "plus small-amplitude arrays (the same kinds in units of 2**-24, |a| = 2**-4 .. 2**-6: every scale of a x + b is below 1e-8).  "
              "A case = (array, method, axis); non-trivial unless the data are constant; distinct by (array index, method, axis)")
    R.trusted += [
        "Coq 8.16.1 kernel + vm_compute (refutation witnesses, Examples, the Coq side of the correspondence)",
        "Model/C15_np.v: the reading of NumPy (reductions along an axis, keepdims, broadcasting, squeeze / expand_dims, percentile 'linear', "
        "median, partition, triu_indices) over exact rationals; validated numerically by the correspondence run",
        "tools/py2coq/gen_c15.py: typed translation of the _scale_* functions; apply_along_axes / estimate_loc / estimate_scale / "
        "estimate_zscore recognised by their exact statement text (any textual change fails closed)",
        "modelled, not verified: float32/float64 rounding and the float32 cast in estimate_zscore, np.isclose(x, 0) read as x = 0, NaN as a "
        "mask, np.sqrt / np.pi / np.std / np.cov / astropy biweight_scale as universally quantified functions; biweight and diffcov "
        "equivariance are checked numerically only (oracle)",
        "tolerances: 1e-9 relative per-axis vs per-lane (same float64 arithmetic), 1e-6 relative for scale(a x + b) in float64, 1e-4 (1 + |z|) "
        "for Z-scores (float32 data: 6e-8 x offset/scale <= 1e2, 10x margin); diffcov lanes with cancellation factor > 10 and lanes whose "
        "scale is zero are exempt from the Z-score sign relation (the fallback to unit scale is what the property prescribes there)",
    ]
    R.assume += ["NumPy / astropy compute what their documentation says on each lane (np.median, np.percentile, np.partition, np.cov, biweight_scale)",
                 "arrays are not empty and lanes have >= 8 samples (the property's quantifier); a tuple of axes is outside the modelled domain",
                 "sample values and their images a x + b are representable in float32 up to a relative 6e-8 of the scale of the data, i.e. "
                 "|b| + |a| max|x| <= ~1e2 x |a| x scale(x) for the Z-score relations (offsets |b| <= ~30 |a| sigma are generated): estimate_zscore "
                 "casts its input to float32, so an offset that uses up the 24-bit mantissa (|b| >= 2**24 quanta of the data) turns a x + b "
                 "into ties and its Z-scores are no longer those of x; estimate_scale / estimate_loc (float64) are not subject to this bound"]
    prove(R)
    R.need(["Gen/Stats.vo", "Model/C15_np.vo"])
    correspondence(R, stats)
    oracle(R, stats)
    callers(R, stats)
    return R


# ------------------------------------------------------------------------------------------------------------
# at-scale search (check.py calls scale(R) when something no longer checks and no small failing input was found, and always in
# the thorough tier / with VERIF_SCALE=1).  Everything here is stateless array code, so "scale" means: element counts around
# 2**16 .. 2**24 in one lane, pair counts n(n-1)/2 and table sizes n*n around 2**16 .. 2**24 for the O(n^2) estimators (qn, sn),
# lane counts around 2**16 / 2**20 (the lane iteration of apply_along_axes), lanes longer than 65536 samples, blocks of more than
# 2**24 elements with more than 16384 samples per channel, float32 / float64 / uint8 inputs, values whose squares overflow float32.
# The reference is written lane-wise in float64 from the definitions (never by calling sigpyproc).
# ------------------------------------------------------------------------------------------------------------
SCALE_KINDS = ["normal", "heavyties", "outliers", "ties", "skewed", "u8sat", "big", "tiny"]
S_FAST = ["std", "iqr", "mad", "doublemad", "diffcov", "biweight", "gapper"]      # O(n) / O(n log n) in the lane length
S_PAIR = ["qn", "sn"]                                                              # O(n^2) tables
S_VEC = ["std", "iqr", "mad", "doublemad", "biweight"]                             # no Python-level lane loop
S_RT = 1e-9         # float64 arithmetic on the same numbers, different summation order / selection algorithm


def scale_data(seed, shape, kind, dtype="float32", const_lanes=()):
    """Generator of every at-scale input: an (L, n) array whose L lanes run along axis 1 (the cases say how it is handed to the
    implementation).  Replay: scale_data(case["seed"], case["lanes_x_length"], case["kind"], case["dtype"], case["const_lanes"]).
    All kinds but "big" are multiples of 1/1024 below 2**12 in magnitude (heavyties, ties, u8sat: of 1/16 or 1): exact in float32, also after
    the affine maps used; ties and pair differences are exact.  The fine grid keeps the order statistics sensitive to a few dropped samples."""
    L, n = int(shape[0]), int(shape[1])
    g = np.random.default_rng([int(seed), SCALE_KINDS.index(kind), L, n])
    z = g.standard_normal(L * n, dtype=np.float32)
    if kind == "normal":
        x = np.round((z * 5 + 3) * 1024) / 1024
    elif kind == "heavyties":
        x = np.round(z * 5 * 16) / 16
        x[g.random(L * n, dtype=np.float32) < 0.7] = 2.0
    elif kind == "outliers":
        x = np.round(z * 1024) / 1024
        idx = g.choice(L * n, max(1, (L * n) // 10), replace=False)
        x[idx] += (g.choice(np.array([-1.0, 1.0], dtype=np.float32), idx.size) * g.integers(100, 2000, idx.size)).astype(np.float32)
    elif kind == "ties":
        x = g.integers(0, 4, L * n).astype(np.float32)
    elif kind == "skewed":
        x = np.round(g.standard_exponential(L * n, dtype=np.float32) * 4 * 1024) / 1024
    elif kind == "u8sat":          # 8-bit data saturating at both ends of the range
        x = np.clip(np.round(z * 80 + 128), 0, 255)
    elif kind == "big":            # squares overflow float32, not float64
        x = z * np.float32(1e30)
    elif kind == "tiny":           # "outliers" in units of 2**-24 (exact in float32): every scale is far below 1e-8 after a map with |a| = 2**-5
        x = np.round(z * 1024) / 1024
        idx = g.choice(L * n, max(1, (L * n) // 10), replace=False)
        x[idx] += (g.choice(np.array([-1.0, 1.0], dtype=np.float32), idx.size) * g.integers(100, 2000, idx.size)).astype(np.float32)
        x = x * np.float32(TINY)
    else:
        raise ValueError(kind)
    del z
    x = x.astype(np.float32).reshape(L, n)
    for i in const_lanes:
        x[i, :] = x[i, 0]
    return x.astype(dtype)


def _r_median(X):
    n = X.shape[1]
    P = np.partition(X, sorted({(n - 1) // 2, n // 2}), axis=1)
    return 0.5 * (P[:, (n - 1) // 2].astype(np.float64) + P[:, n // 2].astype(np.float64))


def _r_loc(X, lm):
    return _r_median(X) if lm == "median" else (np.zeros(X.shape[0]) if lm == "norm" else X.sum(axis=1, dtype=np.float64) / X.shape[1])


def _r_pct(X, p):
    n = X.shape[1]
    pos = (n - 1) * p
    lo = int(np.floor(pos))
    hi = min(lo + 1, n - 1)
    P = np.partition(X, sorted({lo, hi}), axis=1)
    return P[:, lo] + (P[:, hi] - P[:, lo]) * (pos - lo)


def _r_side(A, sel):
    """median and mean of A over the samples of each lane selected by sel (never empty: the median sample is on both sides)"""
    c = sel.sum(axis=1)
    S = np.sort(np.where(sel, A, np.inf), axis=1)
    med = 0.5 * (np.take_along_axis(S, ((c - 1) // 2)[:, None], 1)[:, 0] + np.take_along_axis(S, (c // 2)[:, None], 1)[:, 0])
    del S
    return med, np.where(sel, A, 0.0).sum(axis=1) / c


def _r_qn_lane(x):
    """k-th smallest |x_i - x_j| (i < j), k = h(h-1)/2, h = n//2 + 1, by bisection on the count of pairs within t (t in units of 1/4096:
    the data and their images under the affine maps used are multiples of it)"""
    n = x.size
    h = n // 2 + 1
    k = h * (h - 1) // 2
    xs = np.sort(x)
    i = np.arange(n)

    def count(m):
        return int((np.searchsorted(xs, xs + m / 4096.0, side="right") - i - 1).sum())
    lo, hi = 0, int(round((xs[-1] - xs[0]) * 4096))
    while lo < hi:
        mid = (lo + hi) // 2
        if count(mid) >= k:
            hi = mid
        else:
            lo = mid + 1
    return lo / 4096.0 / 0.4506241100243562


def _r_sn_lane(x):
    inner = np.empty(x.size)
    step = max(1, (1 << 21) // x.size)
    for s in range(0, x.size, step):
        inner[s:s + step] = _r_median(np.abs(x[s:s + step, None] - x[None, :]))
    return 1.1926 * float(_r_median(inner[None, :])[0])


def _r_scale(X, m):
    """lane-wise reference of estimate_scale in float64: X is (L, n) float64; (L,) result, (L, n) for doublemad"""
    L, n = X.shape
    norm, norm_aad = 0.6744897501960817, np.sqrt(2 / np.pi)
    if m == "std":
        D = X - (X.sum(axis=1) / n)[:, None]
        return np.sqrt(np.square(D, out=D).sum(axis=1) / n)
    if m == "iqr":
        return (_r_pct(X, 0.75) - _r_pct(X, 0.25)) / 1.3489795003921634
    if m == "mad":
        A = np.abs(X - _r_median(X)[:, None])
        mad = _r_median(A) / norm
        zero = mad == 0          # the fallback is decided exactly (35a5e4f); an absolute threshold would not be unit free
        if zero.any():
            mad[zero] = A[zero].sum(axis=1) / n / norm_aad
        return mad
    if m == "doublemad":
        med = _r_median(X)[:, None]
        A = np.abs(X - med)
        out = []
        for sel in (X <= med, X >= med):
            md, mean = _r_side(A, sel)
            md = md / norm
            out.append(np.where(md == 0, mean / norm_aad, md)[:, None])
        return np.where(X < med, out[0], np.where(X > med, out[1], 0.5 * (out[0] + out[1])))
    if m == "diffcov":
        d = np.diff(X, axis=1)
        p, q = d[:, :-1], d[:, 1:]
        p = p - (p.sum(axis=1) / p.shape[1])[:, None]
        q = q - (q.sum(axis=1) / q.shape[1])[:, None]
        return np.sqrt(np.abs((p * q).sum(axis=1) / (p.shape[1] - 1)))
    if m == "biweight":
        D = X - _r_median(X)[:, None]
        mad = _r_median(np.abs(D))
        with np.errstate(all="ignore"):
            u = np.square(D / (9.0 * mad[:, None]))
            inside = u < 1
            f1 = np.where(inside, D * D * (1 - u) ** 4, 0.0).sum(axis=1)
            f2 = np.where(inside, (1 - u) * (1 - 5 * u), 0.0).sum(axis=1)
            return np.where(mad == 0, 0.0, np.sqrt(n * f1) / np.abs(f2))
    if m == "gapper":
        g = np.diff(np.sort(X, axis=1), axis=1)
        i = np.arange(1, n, dtype=np.float64)
        return (g @ (i * (n - i))) * np.sqrt(np.pi) / (float(n) * (n - 1))
    if m == "qn":
        if n <= 64:
            h = n // 2 + 1
            k = h * (h - 1) // 2
            i, j = np.triu_indices(n, 1)
            return np.sort(np.abs(X[:, i] - X[:, j]), axis=1)[:, k - 1] / 0.4506241100243562
        return np.array([_r_qn_lane(X[r]) for r in range(L)])
    if m == "sn":
        if n <= 64:
            T = np.abs(X[:, :, None] - X[:, None, :]).reshape(L * n, n)
            return 1.1926 * _r_median(_r_median(T).reshape(L, n))
        return np.array([_r_sn_lane(X[r]) for r in range(L)])
    raise ValueError(m)


def _s_rss_mb():
    import resource
    return resource.getrusage(resource.RUSAGE_SELF).ru_maxrss / 1024.0


def _s_one(R, stats, seed, L, n, kind, mode, methods, locs=("mean", "median"), dtype="float32", const_lanes=(), affine=None,
           both=True, shape2d=None, direct=True):
    """One generated (L, n) array against every method.  mode: "flat" (L = 1: the lane as a 1-D array, axis None and 0),
    "axis1" (the array, axis=1), "axis0" (its transpose, made contiguous, axis=0), "none2d" (L = 1: the lane reshaped to
    shape2d, axis=None).  both: also the keepdims=True call.  direct=False: no direct estimate_scale call (the scale is then
    checked through ZScoreResult.scale and the Z-scores); locs=(): no Z-scores and no locations.  affine = (a, b): additionally y = a x + b (exact in float32)."""
    X = scale_data(seed, (L, n), kind, dtype, const_lanes)

    def inp_of(A):
        if mode == "flat":
            return A[0]
        if mode == "none2d":
            return A[0].reshape(shape2d)
        return A if mode == "axis1" else np.ascontiguousarray(A.T)

    def lay(v):            # per-lane (L,) or per-sample (L, n) values in the layout of the input (broadcastable against it)
        v = np.asarray(v)
        if v.ndim == 2:
            return inp_of(v)
        return v.reshape(1) if mode == "flat" else (v.reshape(1, 1) if mode == "none2d" else (v[:, None] if mode == "axis1" else v[None, :]))
    axes = [None, 0] if mode == "flat" else [None if mode == "none2d" else int(mode[-1])]
    zaxis = axes[-1]
    base = {"seed": int(seed), "lanes_x_length": [L, n], "kind": kind, "dtype": dtype, "const_lanes": list(const_lanes), "mode": mode,
            "shape2d": list(shape2d) if shape2d else None, "data": "props/c15.py scale_data(seed, lanes_x_length, kind, dtype, const_lanes); see _s_one for mode"}
    variants = [("x", X, 1.0)]
    if affine:
        a, b = affine
        variants.append(("a*x+b", (np.float32(a) * X.astype(np.float32) + np.float32(b)).astype(dtype), abs(a)))
    X64 = X.astype(np.float64)
    spread_l = np.max(np.abs(X64 - _r_median(X64)[:, None]), axis=1)
    amax = float(np.max(np.abs(X64)))
    amp = TINY if kind == "tiny" else 1.0          # the unit of the data: absolute slacks are relative to it
    for m in methods:
        got_x = None
        for vname, V, fac in variants:
            case = dict(base, method=m, input=vname, affine=list(affine) if affine else None)
            R.case(("scale", mode, L, n, kind, dtype, m, vname), regime="scale")
            inp = inp_of(V)
            V64 = X64 if vname == "x" else V.astype(np.float64)
            ref = _r_scale(V64, m)
            atol = 1e-12 * (amp + amax * fac) + (1e-6 * fac * lay(spread_l) if m == "diffcov" else 0.0)
            exp = lay(ref)
            exp_shape = inp.shape if m == "doublemad" else (() if L == 1 else (L,))
            # ---- estimate_scale -----------------------------------------------------------------------------------------
            res = None
            for axis in (axes if direct else []):
                for kd in ((False, True) if both else (False,)):
                    c = dict(case, axis=axis, keepdims=kd)
                    R.tick(c)
                    try:
                        r = stats.estimate_scale(inp, m, axis, keepdims=kd)
                    except Exception as e:  # noqa: BLE001
                        R.fail(f"scale-exception-{m}", f"estimate_scale raised at scale: {type(e).__name__}: {str(e)[:120]}", c)
                        continue
                    R.evals += 1
                    r = np.asarray(r, dtype=np.float64)
                    shape_ok = (r.shape == exp.shape if (kd and m != "doublemad") else (r.shape == tuple(exp_shape) or (L == 1 and r.size == 1 and m != "doublemad")))
                    if not shape_ok:
                        R.fail(f"scale-shape-{m}", "estimate_scale at scale: result shape is not the per-lane shape / does not broadcast against the input",
                               dict(c, got_shape=list(r.shape), input_shape=list(inp.shape)))
                        continue
                    rr = r if (kd or m == "doublemad") else lay(r.reshape(-1))
                    bad = ~(np.abs(rr - exp) <= atol + S_RT * np.abs(exp))
                    if bad.any():
                        w = np.argwhere(np.broadcast_to(bad, np.broadcast_shapes(bad.shape, exp.shape)))[0]
                        R.fail(f"scale-lanes-{m}", "estimate_scale at scale differs from the 1-D definition applied to each lane (float64 reference)",
                               dict(c, n_bad=int(bad.sum()), first_bad=[int(v) for v in w], got=float(np.broadcast_to(rr, bad.shape)[tuple(w)]),
                                    expected=float(np.broadcast_to(exp, bad.shape)[tuple(w)])))
                    if res is None:
                        res = np.broadcast_to(rr, exp.shape).copy()
            # ---- scale(a x + b) = |a| scale(x) ---------------------------------------------------------------------------
            if vname == "x":
                got_x = res
            elif res is not None and got_x is not None:
                tol = (1e-6 if m == "diffcov" else 1e-11) * fac * (lay(spread_l) + amax) + RT_SCALE * fac * np.abs(got_x)
                if not bool(np.all(np.abs(res - fac * got_x) <= tol)):
                    R.fail(f"scale-equivariance-{m}", "scale(a x + b) != |a| scale(x) at scale", case)
            # ---- Z-scores -------------------------------------------------------------------------------------------------
            if dtype != "float32":
                continue           # estimate_zscore works on the float32 cast; the float32 regimes cover it
            for lm in locs:
                c = dict(case, loc_method=lm, axis=zaxis)
                R.tick(c)
                try:
                    zr = stats.estimate_zscore(inp, lm, m, zaxis)
                    z = np.asarray(zr.data)
                except Exception as e:  # noqa: BLE001
                    R.fail(f"scale-exception-zscore-{m}", f"estimate_zscore raised at scale: {type(e).__name__}: {str(e)[:120]}", c)
                    continue
                R.evals += 1
                if z.shape != inp.shape or not bool(np.all(np.isfinite(z))):
                    R.fail(f"scale-finite-zscore-{m}", "Z-scores of finite data at scale are not finite (or have the wrong shape)",
                           dict(c, got_shape=list(z.shape), n_nonfinite=int((~np.isfinite(z)).sum()) if z.shape == inp.shape else None))
                    continue
                dev = V64 - _r_loc(V64, lm)[:, None]
                tiny = float(np.finfo(np.float32).tiny) * np.max(np.abs(dev), axis=1)
                sc = ref if ref.ndim == 2 else ref[:, None]
                tl = tiny[:, None]
                unsure = (sc > 0.5 * tl) & (sc < 2.0 * tl)          # float32 rounding may decide the guard either way
                if unsure.any():
                    R.hist["scale-zscore-guard-undecided"] = R.hist.get("scale-zscore-guard-undecided", 0) + int(unsure.sum())
                sc_eff = np.where(sc <= tl, 1.0, sc)
                zref = inp_of(dev / sc_eff)
                zs = np.asarray(zr.scale, dtype=np.float64)
                se = inp_of(sc_eff) if m == "doublemad" else lay(sc_eff[:, 0])
                us = inp_of(unsure) if m == "doublemad" else lay(unsure[:, 0])
                if zs.shape != se.shape or not bool(np.all((np.abs(zs - se) <= atol + S_RT * np.abs(se)) | us)):
                    R.fail(f"scale-zscore-scale-{m}", "ZScoreResult.scale at scale is not the per-lane scale (keepdims layout, unit where the estimate is zero)",
                           dict(c, got_shape=list(zs.shape), expected_shape=list(se.shape)))
                ok = (np.abs(z - zref) <= RT_Z * (1.0 + np.abs(zref))) | inp_of(np.broadcast_to(unsure, dev.shape))
                if not bool(np.all(ok)):
                    w = np.argwhere(~ok)[0]
                    R.fail(f"scale-zscore-{m}", "Z-scores at scale differ from (x - loc) / scale of each lane with the unit-scale fallback (float64 reference)",
                           dict(c, n_bad=int((~ok).sum()), first_bad=[int(v) for v in w], got=float(z[tuple(w)]), expected=float(zref[tuple(w)])))
                del dev, zref, ok, z, zr, sc_eff
            del ref, exp, res
    # ---- locations --------------------------------------------------------------------------------------------------------
    inp = inp_of(X)
    for lm in [l for l in locs if l != "norm"]:
        exp = lay(_r_loc(X64, lm))
        for axis in axes:
            c = dict(base, loc_method=lm, axis=axis)
            R.case(("scale-loc", mode, L, n, kind, dtype, lm, axis), regime="scale")
            R.tick(c)
            try:
                r = np.asarray(stats.estimate_loc(inp, lm, axis, keepdims=True), dtype=np.float64)
            except Exception as e:  # noqa: BLE001
                R.fail(f"scale-exception-loc-{lm}", f"estimate_loc raised at scale: {type(e).__name__}: {str(e)[:120]}", c)
                continue
            R.evals += 1
            if r.shape != exp.shape or not bool(np.all(np.abs(r - exp) <= 1e-12 * (amp + amax) + S_RT * np.abs(exp))):
                R.fail(f"scale-loc-{lm}", "estimate_loc at scale differs from the float64 mean / median of each lane", dict(c, got_shape=list(r.shape)))
    del X, X64


def _s_callers(R, seed):
    from sigpyproc.block import FilterbankBlock
    from sigpyproc.header import Header
    from sigpyproc.timeseries import TimeSeries

    def refz(X64, lm, sm):
        dev = X64 - _r_loc(X64, lm)[:, None]
        sc = _r_scale(X64, sm)[:, None]
        tiny = float(np.finfo(np.float32).tiny) * np.max(np.abs(dev), axis=1)[:, None]
        return dev / np.where(sc <= tiny, 1.0, sc)

    def compare(key, what, got, want, case):
        if got.shape != want.shape or not bool(np.all(np.isfinite(got))):
            R.fail(key, what + ": wrong shape or non-finite values", dict(case, got_shape=list(got.shape)))
            return
        ok = np.abs(got - want) <= RT_Z * (1.0 + np.abs(want))
        if not bool(np.all(ok)):
            w = np.argwhere(~ok)[0]
            R.fail(key, what + " differs from the per-lane float64 Z-scores", dict(case, n_bad=int((~ok).sum()), first_bad=[int(v) for v in w],
                                                                               got=float(got[tuple(w)]), expected=float(want[tuple(w)])))
    # blocks: more than 2**24 elements with more than 16384 samples per channel; channels longer than 65536 samples; many channels
    for nch, ns, kind, combos in ((1025, 16400, "normal", (("mean", "std", 1), ("median", "mad", 1))),
                                  (33, 70001, "outliers", (("median", "iqr", 1), ("median", "mad", 1))),
                                  (4099, 300, "u8sat", (("mean", "std", 0), ("median", "iqr", 0)))):
        X = scale_data(seed, (nch, ns), kind, "float32", (0, nch // 2, nch - 1))
        X64 = X.astype(np.float64)
        hdr = Header(filename="c15s.fil", data_type="filterbank", nchans=nch, foff=-1.0, fch1=1500.0 + nch, nbits=32, tsamp=1e-3, tstart=60000.0, nsamples=ns)
        for lm, sm, axis in combos:
            case = {"seed": int(seed), "lanes_x_length": [nch, ns], "kind": kind, "dtype": "float32", "const_lanes": [0, nch // 2, nch - 1], "loc": lm,
                    "scale": sm, "axis": axis, "call": "FilterbankBlock(x, hdr).normalise(loc, scale, axis)", "data": "props/c15.py scale_data(...)"}
            R.case(("scale-block", nch, ns, lm, sm, axis), regime="scale")
            R.tick(case)
            try:
                got = np.asarray(FilterbankBlock(X.copy(), hdr).normalise(lm, sm, axis).data)
            except Exception as e:  # noqa: BLE001
                R.fail("scale-exception-block-normalise", f"FilterbankBlock.normalise raised at scale: {type(e).__name__}: {str(e)[:120]}", case)
                continue
            R.evals += 1
            want = refz(X64, lm, sm) if axis == 1 else refz(np.ascontiguousarray(X64.T), lm, sm).T
            compare("scale-block-normalise", "FilterbankBlock.normalise at scale", got, want, case)
            del got, want
        del X, X64
    for n, kind, lm, sm in (((1 << 24) + 1, "normal", "mean", "std"), ((1 << 22) + 1, "heavyties", "median", "mad"), ((1 << 20) + 1, "u8sat", "median", "iqr")):
        X = scale_data(seed, (1, n), kind, "float32")
        hdr = Header(filename="c15s.tim", data_type="time series", nchans=1, foff=-1.0, fch1=1500.0, nbits=32, tsamp=1e-3, tstart=60000.0, nsamples=n)
        case = {"seed": int(seed), "lanes_x_length": [1, n], "kind": kind, "dtype": "float32", "const_lanes": [], "loc": lm, "scale": sm,
                "call": "TimeSeries(x[0], hdr).normalise(loc, scale)", "data": "props/c15.py scale_data(...)"}
        R.case(("scale-tim", n, lm, sm), regime="scale")
        R.tick(case)
        try:
            got = np.asarray(TimeSeries(X[0].copy(), hdr).normalise(lm, sm).data)
        except Exception as e:  # noqa: BLE001
            R.fail("scale-exception-timeseries-normalise", f"TimeSeries.normalise raised at scale: {type(e).__name__}: {str(e)[:120]}", case)
            continue
        R.evals += 1
        compare("scale-timeseries-normalise", "TimeSeries.normalise at scale", got, refz(X.astype(np.float64), lm, sm)[0], case)
        del X, got


def scale(R: vlib.Run):
    """at-scale search: one lane of 2**16-1 .. 2**24+1 elements (float32 / float64 / uint8, saturated 8-bit values, values whose squares
    overflow float32), qn / sn with n(n-1)/2 and n*n around 2**16 .. 2**24, 2**16+1 and 2**20+1 lanes along either axis (constant lanes
    first / middle / last), lanes longer than 65536, blocks of more than 2**24 elements, each against a float64 lane-wise reference"""
    import time
    warnings.filterwarnings("ignore")
    from sigpyproc.core import stats
    seed = R.seed + 1515
    t0 = time.time()
    prof = []

    def go(*a, **k):
        t = time.time()
        _s_one(R, stats, seed, *a, **k)
        prof.append((round(time.time() - t, 1), a[:4], k.get("dtype", "float32")))

    M16, M18, M20, M22, M24 = 1 << 16, 1 << 18, 1 << 20, 1 << 22, 1 << 24
    # ---- one lane, O(n) / O(n log n) estimators: element counts below / at / above the powers of two ------------------------
    go(1, M16 - 1, "normal", "flat", S_FAST)
    go(1, M16, "heavyties", "flat", S_FAST)
    go(1, M16 + 1, "outliers", "flat", S_FAST, locs=("mean", "median", "norm"), affine=(-4.0, 100.25))
    go(1, M18 - 1, "skewed", "flat", S_FAST, locs=("median",))
    go(1, M18, "normal", "flat", S_FAST, locs=("mean",), dtype="float64")
    go(1, M18 + 1, "ties", "flat", S_FAST, affine=(0.25, -77.5))
    go(1, M16 + 3, "tiny", "flat", S_FAST, locs=("median",), affine=(-2.0 ** -5, 0.0))        # small amplitudes: the estimators are unit free
    go(1025, 64, "tiny", "axis1", S_VEC + ["qn"], locs=("mean",), const_lanes=(0, 512), affine=(2.0 ** -6, 3.0 * 2.0 ** -24), both=False)
    go(1, M20 - 1, "skewed", "flat", ["std", "mad", "diffcov", "gapper"], locs=("mean",), both=False)
    go(1, M20, "normal", "flat", ["iqr", "doublemad", "biweight"], locs=("median",), dtype="float64", both=False)
    go(1, M20 + 1, "outliers", "flat", S_FAST)
    go(1, M20 + 1, "u8sat", "flat", S_FAST, dtype="uint8", both=False)
    go(1, M20 + 1, "big", "flat", ["std", "iqr", "mad", "doublemad", "biweight", "gapper"], locs=("mean", "median"), both=False)
    go(1, M22 - 1, "normal", "flat", ["std"], locs=("mean",), both=False)
    go(1, M22, "ties", "flat", ["iqr", "mad"], locs=("median",), both=False)
    go(1, M22 + 1, "heavyties", "flat", S_FAST, locs=(), both=False)
    go(1, M24 - 1, "skewed", "flat", ["std"], locs=(), both=False)
    go(1, M24, "normal", "flat", ["mad"], locs=(), both=False)
    go(1, M24 + 1, "outliers", "flat", ["std", "iqr"], locs=(), both=False)
    # ---- one lane, O(n^2) estimators: n*n and n(n-1)/2 below / at / above 2**16, 2**20, 2**22, 2**24 -------------------------
    for n, kind in ((255, "normal"), (256, "ties"), (257, "outliers"), (362, "skewed"), (363, "heavyties"), (1023, "normal"), (1024, "skewed"),
                    (1025, "outliers"), (1448, "normal"), (1449, "ties"), (2047, "skewed"), (2049, "normal"), (2896, "outliers"), (2897, "normal"),
                    (4095, "heavyties"), (4097, "normal"), (5793, "outliers")):
        go(1, n, kind, "flat", ["qn"] if n in (4095, 5793) else S_PAIR, locs=("median",), both=n < 2000, affine=(-0.5, 3.0) if n == 1449 else None)
    # ---- many lanes (the lane loop of apply_along_axes, and the vectorised reductions), both axes ----------------------------
    go(M16 + 1, 8, "normal", "axis1", S_VEC + ["diffcov", "sn"], locs=(), const_lanes=(0, M16 // 2), both=False)
    go(M16 + 1, 9, "outliers", "axis0", S_VEC + ["qn", "gapper"], locs=("mean",), const_lanes=(M16 // 3,), direct=False)
    go(4097, 8, "skewed", "axis0", ["diffcov", "sn"], locs=("median",), const_lanes=(0,), both=False)
    go(4097, 9, "normal", "axis1", ["qn", "gapper"], locs=("median",), const_lanes=(2048,), both=False)
    go(M16 - 1, 8, "heavyties", "axis0", S_VEC, const_lanes=(M16 - 2,))
    go(M16, 8, "skewed", "axis1", S_VEC, locs=("median",), const_lanes=(0,), affine=(-2.0, 10.0))
    go(M18 + 1, 8, "normal", "axis0", S_VEC, locs=(), const_lanes=(M18 // 2,), both=False)
    go(M20 + 1, 8, "skewed", "axis1", ["std", "mad"], locs=("mean",), const_lanes=(0, M20 // 3), direct=False)
    go(M20 + 1, 8, "normal", "axis0", ["iqr", "doublemad"], locs=(), const_lanes=(M20 // 2,), both=False)
    # ---- lanes longer than 65536 / 16384 samples, a few hundred lanes ---------------------------------------------------------
    go(9, M16 + 5, "outliers", "axis1", S_FAST, const_lanes=(0,))
    go(8, M16 + 5, "normal", "axis0", S_FAST, locs=("median",), const_lanes=(7,), both=False)
    go(150, 16385, "heavyties", "axis1", [m for m in S_FAST if m != "gapper"], locs=("mean",), const_lanes=(75,), both=False)
    go(12, 1449, "normal", "axis0", S_PAIR, locs=("median",), const_lanes=(0, 11), both=False)
    # ---- axis=None on 2-D input: the flattened data -----------------------------------------------------------------------------
    go(1, 1025 * 1025, "normal", "none2d", S_FAST, locs=("mean",), shape2d=(1025, 1025), both=False)
    go(1, 41 * 41, "outliers", "none2d", S_PAIR, locs=("median",), shape2d=(41, 41))
    t1 = time.time()
    _s_callers(R, seed)
    if os.environ.get("VERIF_SCALE_PROFILE"):
        for p in sorted(prof, reverse=True)[:60]:
            print("scale-profile", p)
        print("scale-profile callers", round(time.time() - t1, 1))
    R.notes.append(f"at-scale search C15: {len(prof)} generated arrays + block / time-series callers, {time.time() - t0:.0f} s, peak RSS of the check {_s_rss_mb():.0f} MB")
