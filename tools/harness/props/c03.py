"""C03 -- bit packing/unpacking.  Proof: Props/C03.v over Gen/Kernels.v (regenerated).  Correspondence: the
generated Gallina kernels under vm_compute versus the compiled numba kernels through bits.unpack / bits.pack.
Oracle (search for a failing input): the bit-field definition written with Python integers."""
import numpy as np

import vlib

ORDERS = [("big", True), ("little", False)]


def fields(b, nbits, big):
    bf = 8 // nbits
    out = []
    for k in range(bf):
        shift = 8 - nbits * (k + 1) if big else nbits * k
        out.append((b >> shift) & ((1 << nbits) - 1))
    return out


def byte_of(fs, nbits, big):
    b = 0
    for k, f in enumerate(fs):
        shift = 8 - nbits * (k + 1) if big else nbits * k
        b += f << shift
    return b


def run(R: vlib.Run):
    from sigpyproc.io import bits
    R.rule = ("unpack: every byte value 0..255 x {1,2,4} bits x {big,little} (exhaustive) and byte arrays of length 0..N with "
              "every byte position exercised; pack: every in-range field tuple of one byte (256 per kernel, exhaustive) and "
              "random in-range arrays; with and without caller buffer; malformed arguments.  A case is non-trivial if its "
              "input is non-empty; distinct = distinct (kernel, input) pairs")
    R.exhaustive = True
    R.trusted += ["Coq 8.16.1 kernel + vm_compute (finite sweeps over 256 bytes / 256 field tuples inside the theorems)",
                  "tools/py2coq translator (Python ast -> Gallina) and its assumed numba semantics (u1 store truncates mod 256, Z arithmetic)",
                  "dispatch by name in io/bits.py is mirrored by hand in Proofs/C03_bits.v (unpack_run/pack_run) and tied by the correspondence run",
                  "correspondence harness tools/harness/props/c03.py"]
    R.assume += ["numba compiles the kernels according to their Python text", "argument validation in bits.py is checked by differential testing only"]
    R.assume += ["output buffers handed to unpack / pack are writable C-contiguous 1-D uint8 arrays (another dtype or layout is refused by numba with TypeError, not ValueError)",
                 "pack is given a whole number of bytes' worth of samples (len % (8/nbits) == 0; a ragged tail is silently dropped)",
                 "nbits and bitorder are an int and a str (2.0 or a list pass the validation by Python's equality rules)"]
    R.prove("Props/C03.v")

    rng = R.rng
    nmax = 64 if R.tier == "quick" else 256
    ucases, pcases = [], []   # (nbits, big, input list, impl output list)
    held = []                 # results kept while further calls of the same output size are made: they must not change afterwards
    for nbits in (1, 2, 4):
        bf = 8 // nbits
        for oname, big in ORDERS:
            # all 256 bytes in one array, and each alone
            inputs = [list(range(256))] + [[b] for b in range(256)]
            # arrays of every length 0..nmax, random content incl. values >= 128
            for n in range(0, nmax + 1):      # every length 0..nmax
                inputs.append([rng.choice([0, 255, 128, 127, rng.randrange(256), rng.randrange(256)]) for _ in range(n)])
            for inp in inputs:
                a = np.array(inp, dtype=np.uint8)
                try:
                    out = bits.unpack(a, nbits, bitorder=oname)
                    buf = np.full(a.size * bf, 0xAB, dtype=np.uint8)
                    out2 = bits.unpack(a, nbits, buf, bitorder=oname)
                except Exception as e:  # noqa: BLE001
                    R.case(("u", nbits, oname, tuple(inp)), regime=f"unpack{nbits}_{oname}")
                    R.fail(f"unpack{nbits}_{oname}_raises", f"unpack of a valid uint8 array raised {type(e).__name__}: {str(e)[:120]}",
                           {"nbits": nbits, "order": oname, "in": inp})
                    continue
                exp = [f for b in inp for f in fields(b, nbits, big)]
                key = ("u", nbits, oname, tuple(inp))
                R.case(key, nontrivial=len(inp) > 0, regime=f"unpack{nbits}_{oname}",
                       sample={"op": "unpack", "nbits": nbits, "order": oname, "in": inp[:8], "out": [int(x) for x in out[:16]]} if len(inp) == 3 else None)
                if out.dtype != np.uint8 or list(map(int, out)) != exp:
                    R.fail(f"unpack{nbits}_{oname}", "unpack differs from the bit-field definition",
                           {"nbits": nbits, "order": oname, "in": inp, "got": list(map(int, out)), "expected": exp})
                if list(map(int, out2)) != exp or out2 is not buf:
                    R.fail(f"unpack{nbits}_{oname}_buffer", "unpack into a caller buffer differs",
                           {"nbits": nbits, "order": oname, "in": inp, "got": list(map(int, out2)), "expected": exp})
                # round trip through pack
                back = bits.pack(out, nbits, bitorder=oname)
                if list(map(int, back)) != inp:
                    R.fail(f"pack{nbits}_{oname}_roundtrip", "pack(unpack(bytes)) != bytes",
                           {"nbits": nbits, "order": oname, "in": inp, "got": list(map(int, back))})
                if len(inp) <= 64:
                    ucases.append((nbits, big, inp, list(map(int, out))))
                if len(inp) <= 40:
                    held.append(("unpack", nbits, oname, inp, out, exp))
            # pack: all in-range tuples of one byte + random arrays
            tuples = []
            lim = 1 << nbits
            def rec(pref):
                if len(pref) == bf:
                    tuples.append(list(pref)); return
                for v in range(lim):
                    rec(pref + [v])
            rec([])
            pinputs = tuples + [sum(tuples, [])]
            for n in range(0, nmax // 2 + 2):      # every output length 0..nmax/2+1
                pinputs.append([rng.randrange(lim) for _ in range(n * bf)])
            for inp in pinputs:
                v = np.array(inp, dtype=np.uint8)
                try:
                    out = bits.pack(v, nbits, bitorder=oname)
                    pbuf = np.full(v.size // bf, 0xCD, dtype=np.uint8)
                    out2 = bits.pack(v, nbits, pbuf, bitorder=oname)
                    un = bits.unpack(out, nbits, bitorder=oname)
                except Exception as e:  # noqa: BLE001
                    R.case(("p", nbits, oname, tuple(inp)), regime=f"pack{nbits}_{oname}")
                    R.fail(f"pack{nbits}_{oname}_raises", f"pack / unpack of valid samples raised {type(e).__name__}: {str(e)[:120]}",
                           {"nbits": nbits, "order": oname, "in": inp})
                    continue
                exp = [byte_of(inp[i * bf:(i + 1) * bf], nbits, big) for i in range(len(inp) // bf)]
                if len(inp) <= 40 * bf:
                    held.append(("pack", nbits, oname, inp, out, [byte_of(inp[i * bf:(i + 1) * bf], nbits, big) for i in range(len(inp) // bf)]))
                key = ("p", nbits, oname, tuple(inp))
                R.case(key, nontrivial=len(inp) > 0, regime=f"pack{nbits}_{oname}",
                       sample={"op": "pack", "nbits": nbits, "order": oname, "in": inp[:16], "out": [int(x) for x in out[:4]]} if len(inp) == 2 * bf else None)
                if out.dtype != np.uint8 or out2 is not pbuf:
                    R.fail(f"pack{nbits}_{oname}_buffer", "pack does not return uint8 / does not fill and return the caller's buffer",
                           {"nbits": nbits, "order": oname, "in": inp, "dtype": str(out.dtype), "returned_is_buffer": out2 is pbuf})
                if list(map(int, out)) != exp or list(map(int, out2)) != exp:
                    R.fail(f"pack{nbits}_{oname}", "pack differs from the bit-field definition",
                           {"nbits": nbits, "order": oname, "in": inp, "got": list(map(int, out)), "expected": exp})
                un = bits.unpack(out, nbits, bitorder=oname)
                if list(map(int, un)) != inp:
                    R.fail(f"unpack{nbits}_{oname}_roundtrip", "unpack(pack(samples)) != samples",
                           {"nbits": nbits, "order": oname, "in": inp, "got": list(map(int, un))})
                if len(inp) <= 64 * bf:
                    pcases.append((nbits, big, inp, list(map(int, out))))
    # a result returned earlier is the caller's: later calls (same size, other data, no buffer supplied) must not overwrite it
    for op, nbits, oname, inp, arr, exp in held:
        R.case(("held", op, nbits, oname, tuple(inp)), regime="held-results")
        if list(map(int, arr)) != exp:
            R.fail(f"{op}{nbits}_{oname}_result-overwritten", f"the array returned by an earlier {op} call was changed by later calls",
                   {"nbits": nbits, "order": oname, "in": inp, "now": list(map(int, arr)), "returned_value_was": exp})
            break
    # malformed stream: each must raise ValueError
    bad = [
        ("unpack-dtype", lambda: bits.unpack(np.zeros(4, dtype=np.float32), 2)),
        ("unpack-dtype16", lambda: bits.unpack(np.zeros(4, dtype=np.uint16), 2)),
        ("unpack-nbits3", lambda: bits.unpack(np.zeros(4, dtype=np.uint8), 3)),
        ("unpack-nbits8", lambda: bits.unpack(np.zeros(4, dtype=np.uint8), 8)),
        ("unpack-order", lambda: bits.unpack(np.zeros(4, dtype=np.uint8), 2, bitorder="invalid")),
        ("unpack-order-empty", lambda: bits.unpack(np.zeros(4, dtype=np.uint8), 2, bitorder="")),
        ("unpack-bufsize", lambda: bits.unpack(np.zeros(4, dtype=np.uint8), 2, np.zeros(15, dtype=np.uint8))),
        ("unpack-bufsize2", lambda: bits.unpack(np.zeros(4, dtype=np.uint8), 1, np.zeros(16, dtype=np.uint8))),
        ("pack-dtype", lambda: bits.pack(np.zeros(8, dtype=np.int64), 2)),
        ("pack-nbits", lambda: bits.pack(np.zeros(8, dtype=np.uint8), 16)),
        ("pack-order", lambda: bits.pack(np.zeros(8, dtype=np.uint8), 4, bitorder="xyz")),
        ("pack-bufsize", lambda: bits.pack(np.zeros(8, dtype=np.uint8), 4, np.zeros(5, dtype=np.uint8))),
    ]
    # every wrong buffer size around the right one (under- and over-sized by less than, exactly, and more than one byte's worth)
    for nb in (1, 2, 4):
        bf = 8 // nb
        for nbytes in (0, 1, 4):
            for sz in range(0, 2 * nbytes * bf + 3):
                if sz != nbytes * bf:
                    bad.append((f"unpack{nb}-bufsize-{nbytes}x{bf}-got{sz}", lambda nb=nb, nbytes=nbytes, sz=sz: bits.unpack(np.zeros(nbytes, dtype=np.uint8), nb, np.zeros(sz, dtype=np.uint8))))
            for sz in range(0, 2 * nbytes + 3):
                if sz != nbytes:
                    bad.append((f"pack{nb}-bufsize-{nbytes}-got{sz}", lambda nb=nb, nbytes=nbytes, sz=sz, bf=bf: bits.pack(np.zeros(nbytes * bf, dtype=np.uint8), nb, np.zeros(sz, dtype=np.uint8))))
    for nbad in (0, -1, 5, 6, 7, 32, 64):
        bad.append((f"unpack-nbits{nbad}", lambda nbad=nbad: bits.unpack(np.zeros(4, dtype=np.uint8), nbad)))
        bad.append((f"pack-nbits{nbad}", lambda nbad=nbad: bits.pack(np.zeros(8, dtype=np.uint8), nbad)))
    for dtb in (np.int8, np.uint16, np.float32, np.bool_):
        bad.append((f"unpack-dtype-{np.dtype(dtb).name}", lambda dtb=dtb: bits.unpack(np.zeros(4, dtype=dtb), 2)))
        bad.append((f"pack-dtype-{np.dtype(dtb).name}", lambda dtb=dtb: bits.pack(np.zeros(8, dtype=dtb), 2)))
    # bit-order spellings: io/bits.py accepts exactly the strings whose first character is a lower-case 'b' or 'l';
    # every other spelling (capitalised, padded, unrelated) is a wrong bit order and must be refused for unpack and pack
    for i, sp in enumerate(["Big", "BIG", "B", "Little", "LITTLE", "L", " big", "msb", "x", "1", "Big-endian"]):
        bad.append((f"unpack-order-spelling-{i}", lambda sp=sp: bits.unpack(np.arange(4, dtype=np.uint8), 2, bitorder=sp)))
        bad.append((f"pack-order-spelling-{i}", lambda sp=sp: bits.pack(np.ones(8, dtype=np.uint8), 4, bitorder=sp)))
    # accepted spellings select the order of their first letter
    probe = np.array([0b00011011, 0b11100100], dtype=np.uint8)
    for sp, big in (("b", True), ("big", True), ("bigendian", True), ("l", False), ("little", False), ("lsb", False)):
        for nbits in (1, 2, 4):
            R.case(("spelling", sp, nbits), regime="order_spelling")
            try:
                got = list(map(int, bits.unpack(probe, nbits, bitorder=sp)))
                exp = [f for b_ in probe.tolist() for f in fields(b_, nbits, big)]
                back = list(map(int, bits.pack(np.array(exp, dtype=np.uint8), nbits, bitorder=sp)))
                if got != exp or back != probe.tolist():
                    R.fail("order-spelling-dispatch", "an accepted bit-order spelling selects the wrong field order", {"bitorder": sp, "nbits": nbits, "got": got, "expected": exp})
            except Exception as e:  # noqa: BLE001
                R.fail("order-spelling-dispatch", f"an accepted bit-order spelling raised {type(e).__name__}", {"bitorder": sp, "nbits": nbits})
    for nb in (1, 2, 4):
        R.case(("default-order", nb), regime="order_spelling")
        exp = [f for b_ in probe.tolist() for f in fields(b_, nb, True)]
        try:
            if list(map(int, bits.unpack(probe, nb))) != exp or list(map(int, bits.pack(np.array(exp, dtype=np.uint8), nb))) != probe.tolist():
                R.fail("default-bitorder-functions", "unpack / pack called without bitorder do not use 'big'", {"nbits": nb})
        except Exception as e:  # noqa: BLE001
            R.fail("default-bitorder-functions", f"unpack / pack without bitorder raised {type(e).__name__}", {"nbits": nb})
    for name, f in bad:
        R.case(("bad", name), regime="malformed")
        try:
            f()
            R.fail("validation-" + name, "malformed argument accepted without ValueError", {"case": name})
        except ValueError:
            pass
        except Exception as e:  # noqa: BLE001
            R.fail("validation-" + name, f"malformed argument raised {type(e).__name__} instead of ValueError", {"case": name})
    # default bit order table (1-bit little, 2/4-bit big)
    for nb, exp in ((1, "little"), (2, "big"), (4, "big")):
        if bits.BitsInfo(nb).bitorder != exp:
            R.fail("default-bitorder", "default bit order changed", {"nbits": nb, "got": bits.BitsInfo(nb).bitorder})

    # ---- correspondence: generated Gallina kernels vs compiled kernels ----------------------
    R.need(["Model/Bits.vo"])

    def b(x):
        return "true" if x else "false"
    shards = []
    allc = [("u",) + c for c in ucases] + [("p",) + c for c in pcases]
    per = 400
    for i in range(0, len(allc), per):
        shards.append(allc[i:i + per])
    nbad_total = 0
    for si, sh in enumerate(shards):
        lines = ["From Coq Require Import ZArith List Bool.", "Require Import SPP.Base.Rt SPP.Gen.Kernels SPP.Model.Bits.",
                 "Import ListNotations.", "Open Scope Z_scope.",
                 "Definition cases : list (bool * Z * bool * list Z * list Z) := ["]
        lines.append(";\n".join(f"({b(k == 'u')}, {nb}, {b(big)}, {vlib.zlist(inp)}, {vlib.zlist(out)})" for k, nb, big, inp, out in sh))
        lines.append("].")
        lines.append("""Definition ok (c : bool * Z * bool * list Z * list Z) : bool :=
  let '(isu, nb, big, inp, out) := c in
  if isu then list_eqb (to_list (Z.of_nat (length out)) (unpack_run nb big (Z.of_nat (length inp)) (of_list inp) zeros)) out
  else list_eqb (to_list (Z.of_nat (length out)) (pack_run nb big (Z.of_nat (length out)) (of_list inp) zeros)) out.
Definition idx := map fst (filter (fun p => negb (ok (snd p))) (combine (seq 0 (length cases)) cases)).
Eval vm_compute in (length cases, idx).""")
        rc, out = vlib.coq_run(f"c03_{si}", "\n".join(lines), timeout=300)
        vals = vlib.parse_eval(out)
        if rc != 0 or not vals:
            R.red.append("correspondence: Corr/c03 did not evaluate: " + out[-400:])
            continue
        import re
        m = re.match(r"\((\d+)%nat, (\[.*\]|nil)\)", vals[0].replace("%nat", "%nat"))
        idxs = re.findall(r"(\d+)%nat", vals[0])
        n = int(idxs[0]) if idxs else 0
        badidx = [int(x) for x in idxs[1:]]
        R.extra_cov["traces_validated_against_impl"] = R.extra_cov.get("traces_validated_against_impl", 0) + n
        for bi in badidx[:5]:
            k, nb, big, inp, outv = sh[bi]
            R.disagree("generated kernel model and compiled kernel differ", {"kind": k, "nbits": nb, "big": big, "in": inp, "impl": outv})
        nbad_total += len(badidx)
    R.extra_cov["correspondence_cases"] = len(allc)
    _api_correspondence(R, bits)
    return R


def _api_correspondence(R, bits):
    """the regenerated wrappers (Gen/BitsApi.v: unpack_api / pack_api) against io/bits.py on valid and malformed calls: same refusals
    (None = ValueError), same values, same effect on a caller's buffer"""
    import re
    R.need(["Gen/BitsApi.vo"])
    rng = R.rng
    cases = []
    orders = ["big", "little", "b", "l", "bigendian", "lsb", "B", "Little", "x", "", "msb", " big"]
    for _ in range(260 if R.tier == "quick" else 1500):
        op = rng.choice(["unpack", "pack"])
        nb = rng.choice([1, 2, 4, 1, 2, 4, 3, 8, 0])
        order = rng.choice(orders)
        u8 = rng.random() < 0.9
        bf = 8 // nb if nb in (1, 2, 4) else 2
        if op == "unpack":
            n = rng.randrange(0, 5)
            inp = [rng.randrange(256) for _ in range(n)]
            right = n * bf
        else:
            n = rng.randrange(0, 5) * bf
            inp = [rng.randrange(1 << nb if nb in (1, 2, 4) else 2) for _ in range(n)]
            right = n // bf
        bsel = rng.choice(["none", "none", "right", "right", "minus", "plus"])
        bufl = None if bsel == "none" else [rng.randrange(256) for _ in range(max(0, right + {"right": 0, "minus": -1, "plus": 1}[bsel]))]
        arr = np.array(inp, dtype=np.uint8 if u8 else np.int64)
        buf = None if bufl is None else np.array(bufl, dtype=np.uint8)
        case = {"op": op, "nbits": nb, "bitorder": order, "uint8": u8, "in": inp, "buffer": bufl}
        R.tick(case)
        try:
            fn = bits.unpack if op == "unpack" else bits.pack
            res = fn(arr, nb, bitorder=order) if buf is None else fn(arr, nb, buf, bitorder=order)
            got = list(map(int, res))
        except ValueError:
            got = None
        except Exception as e:  # noqa: BLE001
            R.fail("api-raises", f"{op} raised {type(e).__name__} (only ValueError is a refusal)", case)
            continue
        cases.append((op, u8, nb, order, inp, bufl, got, case))

    def b(x):
        return "true" if x else "false"
    rows = []
    for op, u8, nb, order, inp, bufl, got, _ in cases:
        first = "None" if order == "" else f"(Some {ord(order[0])})"
        bufc = "None" if bufl is None else f"(Some ({vlib.zlist(bufl)}))"
        gotc = "None" if got is None else f"(Some ({vlib.zlist(got)}))"
        rows.append(f"({b(op == 'unpack')}, {b(u8)}, {nb}, {first}, {vlib.zlist(inp)}, {bufc}, {gotc})")
    v = ["From Coq Require Import ZArith List Bool.", "Require Import SPP.Base.Rt SPP.Gen.Kernels SPP.Gen.BitsApi.", "Import ListNotations.", "Open Scope Z_scope.",
         "Definition cases : list (bool * bool * Z * option Z * list Z * option (list Z) * option (list Z)) := [", ";\n".join(rows), "].",
         "Definition lenz (l : list Z) : Z := Z.of_nat (length l).",
         "Definition ok (c : bool * bool * Z * option Z * list Z * option (list Z) * option (list Z)) : bool :=",
         "  let '(isu, u8, nb, first, inp, buf, got) := c in",
         "  let b := match buf with None => None | Some l => Some (of_list l, lenz l) end in",
         "  let r := if isu then unpack_api u8 nb first (of_list inp) (lenz inp) b else pack_api u8 nb first (of_list inp) (lenz inp) b in",
         "  match r, got with",
         "  | None, None => true",
         "  | Some (a, sz), Some g => (sz =? lenz g) && list_eqb (to_list sz a) g",
         "  | _, _ => false end.",
         "Definition idx := map fst (filter (fun p => negb (ok (snd p))) (combine (seq 0 (length cases)) cases)).",
         "Eval vm_compute in (length cases, idx)."]
    rc, outp = vlib.coq_run("c03_api", "\n".join(v), timeout=300)
    vals = vlib.parse_eval(outp)
    if rc != 0 or not vals:
        R.red.append("correspondence: Corr/c03_api did not evaluate (Gen/BitsApi.v incomplete?): " + outp[-300:])
        return
    nums = [int(z) for z in re.findall(r"(\d+)%nat", vals[0])]
    R.extra_cov["api_calls_validated_against_model"] = nums[0] if nums else 0
    for bi in nums[1:4]:
        R.disagree("regenerated wrapper (Gen/BitsApi.v) and io/bits.py differ", cases[bi][-1])


def scale(R: vlib.Run):
    """at-scale search: millions of samples per call (thresholds that switch code paths), every depth and order, with and without buffers"""
    from sigpyproc.io import bits
    nprng = np.random.default_rng(R.seed + 303)
    for nbits in (1, 2, 4):
        bf = 8 // nbits
        for big in (True, False):
            oname = "big" if big else "little"
            for nbytes in (8192, 65536 // bf, 65536, (1 << 18) // bf, 1 << 18, (1 << 20) // bf + 8, (1 << 22) // bf, (1 << 22) + 16, (1 << 24) // bf + 64):
                R.tick({"nbits": nbits, "order": oname, "nbytes": nbytes})
                R.case(("scale", nbits, oname, nbytes), regime="scale")
                packed = nprng.integers(0, 256, nbytes, dtype=np.uint8)
                # reference through numpy's own bit unpacking: fields of a byte, most significant first when big
                b8 = np.unpackbits(packed).reshape(-1, bf, nbits)
                vals = np.zeros((nbytes, bf), dtype=np.uint8)
                for k in range(nbits):
                    vals = (vals << 1) | b8[:, :, k]
                want = (vals if big else vals[:, ::-1]).ravel()
                case = {"nbits": nbits, "order": oname, "nbytes": int(nbytes), "data": f"numpy.random.default_rng({R.seed + 303}) stream, see props/c03.py scale()"}
                try:
                    un = bits.unpack(packed.copy(), nbits, bitorder=oname)
                    if un.shape != want.shape or not np.array_equal(un, want):
                        R.fail("scale-unpack", "unpack at scale differs from the bit-field definition", dict(case, first_diff=int(np.argmax(un != want)) if un.shape == want.shape else None)); continue
                    buf = np.full(want.size, 7, dtype=np.uint8)
                    un2 = bits.unpack(packed.copy(), nbits, buf, bitorder=oname)
                    if not np.array_equal(un2, want):
                        R.fail("scale-unpack-buffer", "unpack into a caller buffer at scale differs", case); continue
                    pk = bits.pack(want.copy(), nbits, bitorder=oname)
                    if pk.shape != packed.shape or not np.array_equal(pk, packed):
                        R.fail("scale-pack", "pack at scale differs from the bit-field definition", dict(case, first_diff=int(np.argmax(pk != packed)) if pk.shape == packed.shape else None)); continue
                    pbuf = np.full(nbytes, 9, dtype=np.uint8)
                    pk2 = bits.pack(want.copy(), nbits, pbuf, bitorder=oname)
                    if not np.array_equal(pk2, packed):
                        R.fail("scale-pack-buffer", "pack into a caller buffer at scale differs", case)
                except Exception as e:  # noqa: BLE001
                    R.fail("scale-exception", f"pack/unpack at scale raised {type(e).__name__}: {str(e)[:100]}", case)
