"""C16 -- RFI cleaning masks exactly the flagged channels and nothing else.

Proof:   Props/C16.v over Gen/Kernels.v (mask_channels) and Gen/C16Rfi.v (apply_mask / apply_method / apply_funcn /
         clean_rfi / double_mad_mask / iqrm_mask / the per-block body of apply_channel_mask), all regenerated.
Correspondence (Coq model under vm_compute vs the implementation on the same inputs):
         the generated kernel vs the compiled numba kernel; the block-loop model vs the file written by
         apply_channel_mask (every gulp, every depth; for sub-byte depths also the packed bytes); the whole of clean_rfi
         and random histories of operations, with the z-score estimators executed in exact rational arithmetic; extended
         histories (threshold assigned between operations, infinite / integer range end points, integer-valued custom function,
         preset starting mask) against run_opsx_exec: chan_mask and stats_mask after every operation.
Oracle (the property restated in plain Python/NumPy, evaluated against the implementation): see the functions o_*.
"""
from __future__ import annotations

import os
import re
import warnings
from fractions import Fraction

import numpy as np

import vlib
from filutil import write_fil

DEPTHS = (1, 2, 4, 8, 32)
NORM_IQR = 1.3489795003921634
NORM_MAD = 0.6744897501960817
NORM_AAD = float(np.sqrt(2 / np.pi))
REL = 1e-3            # relative distance to the threshold below which a decision is not demanded either way


# ------------------------------------------------------------------------------------------------
# oracle: the two outlier rules, written from their definitions (float64)
# ------------------------------------------------------------------------------------------------
# The rules are scale-free (a z-score does not depend on the unit of the statistic): no absolute constant appears below.  A scale counts
# as zero only when it IS zero (all deviations on that side vanish); a non-zero scale below NEGL times the largest deviation (far below
# anything float32 data can produce short of underflow) is the only regime in which a decision is not demanded either way.
NEGL = 1e-30


def _ulp32(x):
    """one float32 unit in the last place of the largest entry: the implementation holds the location in float32, so a deviation (and with
    it a z-score, after division by the scale) is only known to that accuracy -- negligible unless the spread is ~1e-6 of the values"""
    return float(np.spacing(np.float32(np.abs(x).max())))


def o_z_iqr(x):
    x = np.asarray(x, dtype=np.float32).astype(np.float64)
    loc = np.median(x)
    q1, q3 = np.percentile(x, [25, 75])
    scale = (q3 - q1) / NORM_IQR
    fragile = 0 < abs(scale) <= NEGL * float(np.abs(x - loc).max())
    if scale == 0:
        scale = 1.0
    return (x - loc) / scale, fragile, _ulp32(x) / abs(scale)


def _side(devs):
    m = np.median(devs) / NORM_MAD
    fragile = 0 < abs(m) <= NEGL * float(np.max(devs))
    if m == 0:                                      # zero MAD means exactly zero: fall back to the mean absolute deviation
        m = np.mean(devs) / NORM_AAD
    return m, fragile


def o_z_doublemad(x):
    x = np.asarray(x, dtype=np.float32).astype(np.float64)
    loc = np.median(x)
    dev = np.abs(x - loc)
    ml, f1 = _side(dev[x <= loc])
    mr, f2 = _side(dev[x >= loc])
    scale = np.where(x < loc, ml, mr)
    fragile = f1 or f2 or bool(np.any((np.abs(scale) > 0) & (np.abs(scale) <= NEGL * float(dev.max()))))
    scale = np.where(scale == 0, 1.0, scale)
    return (x - loc) / scale, fragile, _ulp32(x) / np.abs(scale)


def model_fragile(method, vectors, radius=5):
    """Model/C16_MaskAlg.v executes the estimators in exact rationals with the library's own zero tests (a MAD is replaced when it is
    exactly zero, a scale counts as zero at or below float32's smallest normal number times the largest deviation).  The only vectors not
    SENT TO THE MODEL are those with a non-zero estimator scale at or below NEGL times the largest deviation, where float rounding of the
    scale decides the branch; the oracle window is the same."""
    for v in vectors:
        x = np.asarray(v, dtype=np.float32).astype(np.float64)
        if method == "mad":
            loc = np.median(x)
            dev = np.abs(x - loc)
            top = float(dev.max()) if dev.size else 0.0
            for side in (dev[x <= loc], dev[x >= loc]):
                for s_ in (np.median(side) / NORM_MAD, np.mean(side) / NORM_AAD):
                    if 0 < abs(s_) <= NEGL * top:
                        return True
        else:
            n = len(x)
            for lag in list(range(-radius, 0)) + list(range(1, radius + 1)):
                d = np.asarray(x - x[np.clip(np.arange(n) + lag, 0, n - 1)], dtype=np.float32).astype(np.float64)
                q1, q3 = np.percentile(d, [25, 75])
                s_ = (q3 - q1) / NORM_IQR
                if 0 < abs(s_) <= NEGL * float(np.abs(d - np.median(d)).max()):
                    return True
    return False


def iqrm_unit_dependent(x, radius=5):
    """is the IQR of some lagged difference exactly zero while the difference is not constant?  The implementation (and the definition
    above) then scores the RAW deviation (scale 1), which depends on the unit of the statistic."""
    xf = np.asarray(x, dtype=np.float32).astype(np.float64)
    n = len(xf)
    for lag in list(range(-radius, 0)) + list(range(1, radius + 1)):
        d = np.asarray(xf - xf[np.clip(np.arange(n) + lag, 0, n - 1)], dtype=np.float32).astype(np.float64)
        q1, q3 = np.percentile(d, [25, 75])
        if q3 == q1 and np.any(d != np.median(d)):
            return True
    return False


def _decide(z, thr, dz=0.0):
    """(surely flagged, possibly flagged); dz: accuracy of z"""
    a = np.abs(z)
    return a > thr * (1 + REL) + dz, a > thr * (1 - REL) - dz


def o_mad(x, thr):
    z, fr, dz = o_z_doublemad(x)
    lo, hi = _decide(z, thr, dz)
    return lo, hi, fr


def o_iqrm(x, thr, radius=5):
    x = np.asarray(x)
    xf = x.astype(np.float64)
    n = len(xf)
    lo = np.zeros(n, bool)
    hi = np.zeros(n, bool)
    fr = False
    for lag in list(range(-radius, 0)) + list(range(1, radius + 1)):
        nb = np.clip(np.arange(n) + lag, 0, n - 1)
        z, f, dz = o_z_iqr(xf - xf[nb])
        a, b = _decide(z, thr, dz)
        lo |= a
        hi |= b
        fr = fr or f
    return lo, hi, fr


def o_stats(method, thr, var, skew, kurt):
    f = o_mad if method == "mad" else o_iqrm
    lo = np.zeros(len(var), bool)
    hi = np.zeros(len(var), bool)
    fr = False
    for v in (var, skew, kurt):
        a, b, c = f(v, thr)
        lo |= a
        hi |= b
        fr = fr or c
    return lo, hi, fr


def o_user(fch1, foff, nchans, ranges):
    """closed ranges on the exact centre frequencies fch1 + c*foff; also says whether an edge is fragile"""
    m = np.zeros(nchans, bool)
    fragile = False
    f = [Fraction(fch1) + c * Fraction(foff) for c in range(nchans)]
    tol = Fraction(abs(foff)) / 1000 + Fraction(1, 4096)
    exact32 = all(float(np.float32(float(v))) == float(v) for v in f)
    for lo, hi in ranges:
        lo_, hi_ = (Fraction(float(e)) if np.isfinite(float(e)) else float(e) for e in (lo, hi))     # +-inf: a half line
        for c in range(nchans):
            if lo_ <= f[c] <= hi_:
                m[c] = True
            if not exact32 and (abs(f[c] - lo_) < tol or abs(f[c] - hi_) < tol):
                fragile = True
    return m, fragile


# custom functions; ids 0..5 are mirrored by Model/C16_MaskAlg.v custom_of
def custom_fn(cid, n):
    if cid == 0:
        return lambda m: m
    if cid == 1:
        return lambda m: np.roll(m, 1)
    if cid == 2:
        def nb(m):
            o = np.zeros(n, bool)
            o[1:] |= m[:-1]
            o[:-1] |= m[1:]
            return o
        return nb
    if cid == 3:
        return lambda m: np.arange(n) % 3 == 0
    if cid == 4:
        return lambda m: ~m
    if cid == 5:
        return lambda m: np.zeros(n, bool)
    if cid == 6:                                    # returns integers, not booleans
        return lambda m: (np.arange(n) % 4 == 1).astype(np.int64)
    raise ValueError(cid)


def o_custom(cid, n, seen):
    return np.asarray(custom_fn(cid, n)(seen.copy())).astype(bool)


# ------------------------------------------------------------------------------------------------
# helpers
# ------------------------------------------------------------------------------------------------
def qlit(x):
    fr = x if isinstance(x, Fraction) else Fraction(float(x))
    return f"({fr.numerator} # {fr.denominator})"


def qlist(xs):
    return "[" + "; ".join(qlit(x) for x in xs) + "]"


def blist(xs):
    return "[" + "; ".join("true" if bool(x) else "false" for x in xs) + "]"


def parse_bools(s):
    return [t == "true" for t in re.findall(r"true|false", s)]


def synth(rng, nbits, nchans, nsamps, plant=True):
    """integer-valued data (nsamps, nchans) at depth nbits with a few planted bad channels"""
    nprng = np.random.default_rng(rng.randrange(1 << 30))
    hi = (1 << nbits) if nbits < 32 else 64
    data = nprng.integers(0, hi, (nsamps, nchans))
    planted = {}
    if plant and nchans >= 8:
        chans = rng.sample(range(nchans), 3)
        data[:, chans[0]] = hi - 1                                  # dead (constant) channel
        data[0::2, chans[1]] = 0
        data[1::2, chans[1]] = hi - 1                               # maximal variance
        data[:, chans[2]] = (hi - 1) // 2
        data[rng.randrange(nsamps), chans[2]] = hi - 1              # one spike: kurtosis
        planted = {"dead": chans[0], "loud": chans[1], "spiky": chans[2]}
    return data, planted


def gulps_for(ns):
    return sorted({1, 3, max(1, ns - 1), ns, ns + 7})


def cast_ok(written, mv, nbits):
    """does `written` equal the mask value `mv` converted to the sample type of the file?"""
    if nbits == 32:
        return bool(np.float32(written) == np.float32(mv)) or (np.isnan(written) and np.isnan(mv))
    if float(mv) == int(mv):
        return float(written) == float(mv)
    return float(written) == int(written) and abs(float(written) - float(mv)) < 1      # either neighbouring integer


class Tmp:
    def __init__(self):
        self.dir = os.path.join(vlib.SCRATCH, f"c16_{os.getpid()}")
        os.makedirs(self.dir, exist_ok=True)
        self.n = 0

    def path(self, suffix):
        self.n += 1
        return os.path.join(self.dir, f"f{self.n}{suffix}")

    def cleanup(self):
        import shutil
        shutil.rmtree(self.dir, ignore_errors=True)


def read_all(path):
    from sigpyproc.readers import FilReader
    g = FilReader(path)
    return g.header, g.read_block(0, g.header.nsamples).data        # (nchans, nsamps)


def check_axes(R, key_prefix, out_hdr, in_hdr, case):
    """the cleaned file labels its channels and samples as the input does (otherwise the masked channels are other frequencies)"""
    for name in ("fch1", "foff", "tsamp", "tstart"):
        a, b = float(getattr(in_hdr, name)), float(getattr(out_hdr, name))
        if abs(a - b) > 1e-9 * max(1.0, abs(a)):
            R.fail(key_prefix + "-header", f"header field '{name}' of the cleaned file differs from the input (start = 0)",
                   dict({k: v for k, v in case.items() if k != "data"}, field=name, input=a, output=b))


def check_cleaned(R, key_prefix, out_hdr, out, data, mask, mv, nbits, case, in_hdr=None):
    """the cleaned file: masked channels hold the (cast) mask value at every sample, the rest is bit-identical"""
    nsamps, nchans = data.shape
    if out_hdr.nsamples != nsamps or out_hdr.nchans != nchans or out_hdr.nbits != nbits or out.shape != (nchans, nsamps):
        R.fail(key_prefix + "-length", "cleaned file has a different shape/depth than the input",
               dict(case, got_shape=list(out.shape), nsamples=int(out_hdr.nsamples), nbits=int(out_hdr.nbits)))
        return
    if in_hdr is not None:
        check_axes(R, key_prefix, out_hdr, in_hdr, case)
    ref = data.T
    um = ~mask
    if um.any() and not np.array_equal(out[um].astype(np.float64), ref[um].astype(np.float64)):
        bad = np.argwhere(out[um].astype(np.float64) != ref[um].astype(np.float64))[0]
        c = int(np.where(um)[0][bad[0]])
        R.fail(key_prefix + "-unmasked-changed", "a sample of an unmasked channel differs from the input",
               dict(case, channel=c, sample=int(bad[1]), got=float(out[c, bad[1]]), expected=float(ref[c, bad[1]])))
    if mask.any():
        w = out[mask]
        same = bool(np.all(w == w.flat[0])) or bool(np.all(np.isnan(w)))
        if not same or not cast_ok(w.flat[0], mv, nbits):
            vals = sorted({float(v) for v in np.unique(w)})[:6]
            R.fail(key_prefix + "-masked-value", "a sample of a masked channel is not the mask value",
                   dict(case, mask_value=float(mv), written_values=vals))


# ------------------------------------------------------------------------------------------------
def run(R: vlib.Run):
    warnings.simplefilter("ignore")
    from sigpyproc.core import kernels, rfi
    from sigpyproc.header import Header
    from sigpyproc.readers import FilReader
    from astropy.coordinates import Angle, SkyCoord

    R.rule = ("clean_rfi on synthetic files: depths {1,2,4,8,32} x gulps {1,3,n-1,n,>n} x methods {mad,iqrm} x thresholds x range lists "
              "(none, empty, overlapping, outside the band, edges on channel centres, reversed) x custom functions (7 kinds) x mask "
              "values (default, explicit); apply_channel_mask with random/all/none masks; the kernel on random blocks incl. 0 samples and "
              "1 channel; the outlier rules on random vectors with planted outliers, all-equal, two-valued, length 1..40, several dtypes and "
              "memory layouts, every vector again in units of 2**30, 2**14, 2**-30 (the rules are scale-free), half-flat vectors (zero one-sided MAD), "
              "thresholds 1e-3 .. inf of several numeric types; random histories of 1..6 operations, further ones that change the threshold, start from a "
              "loaded mask with preset channels and use an integer-valued custom function; range end points +-inf / integers; 32-bit files in a unit of "
              "2**-20 and with negative, fractional, -0.0, NaN, inf, subnormal samples compared bit for bit; the frequency/time axes of the cleaned "
              "file; HDF5 round trips with every scalar header field non-default, second generation, default file name. "
              "distinct = distinct (kind, parameters) tuples; non-trivial = at least one masked and one unmasked channel (or a non-empty vector)")
    R.trusted += ["Coq 8.16.1 kernel + vm_compute",
                  "tools/py2coq translator (kernels) and plug-in gen_c16.py (rfi.py/base.py statement forms -> Gallina); numba semantics of the kernel loop",
                  "C01 (reader delivers consecutive blocks for skipback = 0) and C03 (pack/unpack inverse, imported as proved lemmas) are used, not re-proved",
                  "z-score estimators (np.median/np.percentile/nanmedian based), the custom function, np.median of the default mask value, h5py: external; "
                  "validated numerically by the correspondence / oracle only",
                  "header.chan_freqs is taken as delivered (float32 evaluation in header.py is not verified here)",
                  "correspondence harness tools/harness/props/c16.py"]
    R.assume += ["the custom function is pure (does not mutate the mask it is given) and returns one value per channel",
                 "mask values are representable at the depth of the file (0 <= trunc(v) < 2^nbits for 1..8 bit)",
                 "decisions within 0.1% of the threshold are not demanded either way (nor those with a non-zero estimator scale below 1e-30 of the largest deviation)",
                 "channel statistics are finite: one NaN/inf sample in a 32-bit file makes that channel's variance NaN, the medians of the outlier rules "
                 "are then NaN and NO channel is flagged by either method (not generated; non-finite samples only pass through apply_channel_mask)",
                 "vectors handed to double_mad_mask / iqrm_mask are floating point or signed integers: unsigned integer input wraps modulo 2**n in the "
                 "lagged differences of iqrm_mask (clean_rfi always passes float32)",
                 "the default mask value at 1..8 bit is the median of the unmasked channel means converted like an explicit value (float32, then truncation)",
                 "when the inter-quartile range of a lagged difference is exactly zero (two-valued or mostly tied statistics) iqrm_mask scores the raw "
                 "deviation (scale 1), which depends on the unit of the statistic: such vectors are demanded in their own unit only, not rescaled",
                 "z-scores are demanded to the accuracy of one float32 ulp of the largest value divided by the scale (the location is held in float32)",
                 "correspondence only: inputs with a non-zero estimator scale at or below 1e-30 of the largest deviation are not sent to the Coq estimators (the model is exact, float rounding of the scale decides the branch there)",
                 "RFIMask round trip: the header is compared field by field except stream_info (file layout of the source reader)",
                 "file-level cases use start=0, nsamps=None (sub-ranges are C01/C06 territory)"]
    R.prove("Props/C16.v")
    R.need(["Model/C16_MaskAlg.vo", "Model/C16_File.vo", "Gen/C16Rfi.vo"])

    rng = R.rng
    quick = R.tier == "quick"
    T = Tmp()
    corr_kernel, corr_file, corr_packed, corr_clean, corr_hist, corr_histx = [], [], [], [], [], []
    try:
        _kernel_cases(R, rng, kernels, quick, corr_kernel)
        _rule_cases(R, rng, rfi, quick)
        _file_cases(R, rng, T, FilReader, quick, corr_file, corr_packed)
        _clean_cases(R, rng, T, FilReader, rfi, quick, corr_clean)
        _history_cases(R, rng, rfi, Header, quick, corr_hist, T, corr_histx)
        _h5_cases(R, rng, T, rfi, Header, FilReader, SkyCoord, Angle, quick)
        _correspond(R, corr_kernel, corr_file, corr_packed, corr_clean, corr_hist, corr_histx)
    finally:
        T.cleanup()
    return R


# ------------------------------------------------------------------------------------------------
def _kernel_cases(R, rng, kernels, quick, corr):
    nprng = np.random.default_rng(rng.randrange(1 << 30))
    shapes = [(1, 1), (1, 5), (3, 0), (4, 1), (5, 7), (8, 3), (16, 9)] + [(rng.randrange(1, 24), rng.randrange(0, 20)) for _ in range(6 if quick else 30)]
    for nchans, nsamps in shapes:
        for dt, mv in ((np.uint8, rng.randrange(256)), (np.float32, rng.choice([0.0, -3.5, 7.25, 1e6]))):
            for mk in ("rand", "none", "all"):
                mask = {"rand": nprng.integers(0, 2, nchans).astype(bool), "none": np.zeros(nchans, bool), "all": np.ones(nchans, bool)}[mk]
                extra = 3
                arr = nprng.integers(0, 200, nchans * nsamps + extra).astype(dt)
                ref = arr.copy()
                kernels.mask_channels(arr, mask, dt(mv), nchans, nsamps)
                exp = ref.copy()
                blk = exp[:nchans * nsamps].reshape(nsamps, nchans)
                blk[:, mask] = dt(mv)
                R.case(("kernel", nchans, nsamps, dt.__name__, mk), nontrivial=nsamps > 0 and mask.any() and not mask.all(), regime="kernel")
                if not np.array_equal(arr, exp):
                    R.fail("kernel-mask-channels", "mask_channels differs from its definition",
                           {"nchans": nchans, "nsamps": nsamps, "dtype": dt.__name__, "mask": mask.astype(int).tolist(), "maskvalue": float(mv),
                            "in": ref.tolist(), "got": arr.tolist(), "expected": exp.tolist()})
                if nchans * nsamps <= 80 and float(mv) == int(mv) and len(corr) < 120:
                    corr.append((ref.astype(np.int64).tolist(), mask.astype(int).tolist(), int(mv), nchans, nsamps, arr.astype(np.int64).tolist()))


# ------------------------------------------------------------------------------------------------
def _rule_cases(R, rng, rfi, quick):
    """double_mad_mask / iqrm_mask on vectors, against their definitions; value-equal inputs of different dtype / memory layout"""
    nprng = np.random.default_rng(rng.randrange(1 << 30))
    vecs = []
    for n in [1, 2, 3, 5, 8, 13, 16, 32, 40] + [rng.randrange(6, 64) for _ in range(4 if quick else 60)]:
        base = nprng.normal(10, 1, n)
        vecs.append(("normal", base.copy()))
        if n >= 6:
            v = base.copy()
            v[rng.randrange(n)] += rng.choice([-1, 1]) * rng.uniform(30, 300)
            vecs.append(("planted1", v))
            v = base.copy()
            for i in rng.sample(range(n), 2):
                v[i] += rng.uniform(50, 500)
            vecs.append(("planted2", v))
        if n >= 8:
            # one extreme outlier (a channel with a single huge spike has kurtosis ~ nsamples) must not hide a moderate one:
            # the spread of the rest is 0.05, so the moderate channel lies 20 spreads out while its plain deviation is below every threshold
            v = nprng.normal(10, 0.05, n)
            i, j = rng.sample(range(n), 2)
            v[i] += rng.choice([-1, 1]) * 0.05 * 10 ** rng.uniform(8, 10)
            v[j] += 1.0
            vecs.append(("masked", v))
            # a small spread on a large pedestal (channel variances of a bright, stable band): the outlier is 8 spreads out although every
            # value agrees with the first to a few parts in 1e6
            v = 1000.0 + nprng.normal(0, 1e-3, n)
            v[rng.randrange(n)] += rng.choice([-1, 1]) * rng.uniform(8e-3, 9e-3)
            vecs.append(("pedestal", v))
            # more than half of the values tied at the median, the rest on one side, 1 or 2 outliers on the flat side: the one-sided MAD
            # of the flat side is exactly zero, so the mean absolute deviation OF THAT SIDE is the scale (zero-MAD fallback of the double MAD).
            # A small outlier (0.8 spreads of the other side) is flagged with the right scale and not with the other side's.
            for sign in (1.0, -1.0):
                nout = rng.choice([1, 2])
                sig = rng.choice([1.0, 0.02])
                c = rng.choice([0.0, 10.0, -3.0])
                nlow = n - (n // 2 + 1) - nout
                v = np.full(n, c)
                v[:nlow] = c - np.abs(nprng.normal(0, sig, nlow)) - 0.01 * sig
                v[nlow:nlow + nout] = [c + sig * rng.choice([0.8, 50.0]) * (1 + 0.37 * t) for t in range(nout)]
                nprng.shuffle(v)
                vecs.append(("halfflat-high" if sign > 0 else "halfflat-low", c + sign * (v - c)))
        vecs.append(("allequal", np.full(n, rng.choice([0.0, 1.0, -7.5, 1e4]))))
        vecs.append(("twovalued", np.where(np.arange(n) % 2 == 0, 1.0, 3.0)))
        vecs.append(("ints", nprng.integers(-20, 20, n).astype(np.float64)))
    thrs = [3.0, 1.5, 6.0]
    for kind, v in vecs:
        n = len(v)
        v32 = v.astype(np.float32)
        for thr in thrs[: 2 if quick else 3]:
            layouts = [("f32", v32), ("f64", v32.astype(np.float64))]
            wide = np.zeros((n, 7), np.float32)
            wide[:, 2] = v32
            layouts.append(("f32-strided", wide[:, 2]))
            rev = v32[::-1].copy()
            layouts.append(("f32-negstride", rev[::-1]))
            if np.all(v32 == np.round(v32)):
                layouts.append(("i64", v32.astype(np.int64)))
            for lname, arr in layouts:
                for meth, fn, orc in (("mad", rfi.double_mad_mask, o_mad), ("iqrm", rfi.iqrm_mask, o_iqrm)):
                    radii = (5,) if meth == "mad" else ((5, 1, 2) if lname == "f32" else (5,))
                    for radius in radii:
                        args = (arr, thr) if meth == "mad" else (arr, thr, radius)
                        try:
                            got = np.asarray(fn(*args)).astype(bool)
                        except Exception as e:  # noqa: BLE001
                            R.fail(f"{meth}-raises", f"{meth} rule raised {type(e).__name__} on a valid vector",
                                   {"method": meth, "layout": lname, "threshold": thr, "radius": radius, "vector": v32.tolist(), "error": str(e)[:200]})
                            continue
                        lo, hi, fr = orc(v32, thr) if meth == "mad" else orc(v32, thr, radius)
                        R.case((meth, kind, n, lname, thr, radius, tuple(v32.tolist())), nontrivial=n > 1, regime=f"rule-{meth}-{lname}",
                               sample={"rule": meth, "vector": [round(float(t), 3) for t in v32[:8]], "threshold": thr, "flagged": np.where(got)[0].tolist()} if kind == "planted1" and n == 8 else None)
                        if fr:
                            continue
                        ok = got.shape == (n,) and not np.any(lo & ~got) and not np.any(got & ~hi)
                        if not ok:
                            contiguous = lname in ("f32", "f64", "i64")
                            key = f"{meth}-decision" if contiguous else f"{meth}-noncontiguous"
                            R.fail(key, f"{meth} rule differs from its definition" + ("" if contiguous else " for a non-contiguous view of the same values"),
                                   {"method": meth, "layout": lname, "threshold": thr, "radius": radius, "vector": v32.tolist(),
                                    "got": np.where(got)[0].tolist(), "must_flag": np.where(lo)[0].tolist(), "may_flag": np.where(hi)[0].tolist()})
    def one(meth, fn, orc, arr, v32, thr, key, regime, kind, extra):
        """rule `fn` on `arr` against the band the definition gives for `v32` (the same vector up to an exact change of unit)"""
        n = len(v32)
        info = dict({"method": meth, "threshold": float(thr), "radius": 5, "vector": v32.tolist()}, **extra)
        try:
            got = np.asarray(fn(arr, thr)).astype(bool)
        except Exception as e:  # noqa: BLE001
            R.fail(f"{meth}-raises", f"{meth} rule raised {type(e).__name__} on a valid vector", dict(info, error=str(e)[:200]))
            return
        lo, hi, fr = orc(v32, float(thr))
        R.case((meth, kind, n, regime, float(thr), str(sorted(extra.items())), tuple(v32.tolist())), nontrivial=n > 1, regime=regime)
        if fr:
            return
        if not (got.shape == (n,) and not np.any(lo & ~got) and not np.any(got & ~hi)):
            R.fail(key, f"{meth} rule differs from its definition ({regime})",
                   dict(info, got=np.where(got)[0].tolist(), must_flag=np.where(lo)[0].tolist(), may_flag=np.where(hi)[0].tolist()))

    rules = (("mad", rfi.double_mad_mask, o_mad), ("iqrm", rfi.iqrm_mask, o_iqrm))
    # a z-score does not depend on the unit of the statistic: every vector again in units of 2**30, 2**14 and 2**-30 (exact in float32),
    # against the band of the original (variances of a float32 file with samples of order 1e-4 are of order 1e-8)
    for idx, (kind, v) in enumerate(vecs):
        v32 = v.astype(np.float32)
        thr = thrs[idx % (2 if quick else 3)]
        for k in (-30, -14, 30):
            w = v32 * np.float32(2.0) ** k
            if not (np.all(np.isfinite(w)) and np.array_equal(w.astype(np.float64), v32.astype(np.float64) * 2.0 ** k)):
                continue                                    # under/overflow: not an exact change of unit
            for meth, fn, orc in rules:
                if meth == "iqrm" and iqrm_unit_dependent(v32):
                    continue                                # zero IQR: the raw deviation is scored, see R.assume
                one(meth, fn, orc, w, v32, thr, f"{meth}-rescaled", "rule-rescaled", kind, {"unit": f"2**{k}", "layout": "f32"})
    # thresholds far from the usual ones, and of other numeric types
    for kind, v in vecs:
        if kind not in ("normal", "planted1", "halfflat-high", "allequal") or len(v) not in (8, 13, 32):
            continue
        v32 = v.astype(np.float32)
        for thr in (1e-3, 1e6, float("inf"), np.float32(2.5), 3, np.float64(4.5)):
            for meth, fn, orc in rules:
                one(meth, fn, orc, v32, v32, thr, f"{meth}-decision", "rule-threshold-range", kind, {"threshold_type": type(thr).__name__, "layout": "f32"})
    # the property quantifies over thresholds > 0; a non-positive one must be refused, not silently used
    for meth, fn in (("mad", rfi.double_mad_mask), ("iqrm", rfi.iqrm_mask)):
        for thr in (0, -1.0):
            R.case(("thr", meth, thr), regime="rule-threshold")
            try:
                fn(np.arange(8.0), thr)
                R.fail("threshold-nonpositive", "a non-positive threshold is accepted", {"method": meth, "threshold": thr})
            except ValueError:
                pass


# ------------------------------------------------------------------------------------------------
def _file_cases(R, rng, T, FilReader, quick, corr_file, corr_packed):
    """apply_channel_mask: every depth x gulp, random / empty / full masks, explicit mask values"""
    nprng = np.random.default_rng(rng.randrange(1 << 30))
    for nbits in DEPTHS:
        nchans = rng.choice([8, 16]) if nbits == 1 else rng.choice([4, 8, 12, 16])
        ns = rng.randrange(9, 30)
        data, _ = synth(rng, nbits, nchans, ns, plant=False)
        p = T.path(".fil")
        fch1, foff = rng.choice([(1500.0, -1.0), (1400.0, 0.5), (1510.0, -0.390625)])
        write_fil(p, data, nbits, fch1=fch1, foff=foff, tsamp=rng.choice([0.001, 0.000064]), tstart=rng.choice([60000.0, 58543.25]))
        top = (1 << nbits) - 1
        if nbits == 32:
            mvs = [0, 2.5, -7.0, 1e5]
        else:
            mvs = sorted({0, top, rng.randrange(top + 1)}) + ([top - 0.5] if top >= 1 else [0.5])
        masks = [("rand", nprng.integers(0, 2, nchans).astype(bool)), ("none", np.zeros(nchans, bool)), ("all", np.ones(nchans, bool)),
                 ("int01", nprng.integers(0, 2, nchans)), ("list", [bool(b) for b in nprng.integers(0, 2, nchans)])]
        for gulp in gulps_for(ns):
            for mname, m in (masks if gulp in (3, ns) or not quick else masks[:1]):
                for mv in (mvs if (mname == "rand" and gulp in (3, ns + 7)) or not quick else mvs[:1] + mvs[-1:]):
                    mb = np.asarray(m).astype(bool)
                    case = {"op": "apply_channel_mask", "nbits": nbits, "nchans": nchans, "nsamps": ns, "gulp": gulp, "mask": mb.astype(int).tolist(),
                            "mask_kind": mname, "mask_value": mv, "data": data.tolist()}
                    out = T.path(".fil")
                    try:
                        f = FilReader(p)
                        f.apply_channel_mask(m, mv, outfile_name=out, gulp=gulp, quiet=True)
                        hdr, got = read_all(out)
                    except Exception as e:  # noqa: BLE001
                        R.fail("file-raises", f"apply_channel_mask raised {type(e).__name__}", dict(case, error=str(e)[:200]))
                        continue
                    R.case(("acm", nbits, gulp, mname, mv), nontrivial=mb.any() and not mb.all(), regime=f"file-{nbits}bit",
                           sample={"op": "apply_channel_mask", "nbits": nbits, "gulp": gulp, "nsamps": ns, "masked": np.where(mb)[0].tolist(), "mask_value": mv}
                           if mname == "rand" and gulp == 3 and nbits == 2 else None)
                    check_cleaned(R, "file", hdr, got, data, mb, mv, nbits, case, in_hdr=f.header)
                    if float(mv) == int(mv) and mname in ("rand", "all") and len(corr_file) < 60:
                        corr_file.append((data.ravel().astype(np.int64).tolist(), mb.astype(int).tolist(), int(mv), nchans, ns, gulp,
                                          got.T.ravel().astype(np.int64).tolist()))
                    if nbits < 8 and gulp >= ns and float(mv) == int(mv) and mname == "rand":
                        hl_in = FilReader(p).header.stream_info.entries[0].hdrlen
                        hl_out = FilReader(out).header.stream_info.entries[0].hdrlen
                        bi = np.fromfile(p, dtype=np.uint8)[hl_in:]
                        bo = np.fromfile(out, dtype=np.uint8)[hl_out:]
                        order = FilReader(p).bitsinfo.bitorder
                        corr_packed.append((nbits, order.startswith("b"), bi.tolist(), mb.astype(int).tolist(), int(mv), nchans, ns, bo.tolist()))
                    os.remove(out)
        os.remove(p)
    _file_bits_cases(R, rng, nprng, T, FilReader, quick)


SPECIAL_BITS = (0x80000000, 0x7FC00000, 0x7FC12345, 0xFFC00001, 0x7F800000, 0xFF800000, 0x00000001, 0x807FFFFF, 0x7F7FFFFF, 0xFF7FFFFF, 0x3F000000)


def _file_bits_cases(R, rng, nprng, T, FilReader, quick):
    """32-bit files whose samples are negative, fractional, -0.0, NaN (with payloads), +-inf, subnormal, +-max: 'bit-identical' is
    compared on the bit patterns"""
    for rep in range(1 if quick else 6):
        nchans = rng.choice([4, 8, 12])
        ns = rng.randrange(9, 30)
        x = (nprng.normal(0, 100, (ns, nchans))).astype(np.float32)
        k = max(len(SPECIAL_BITS), x.size // 5)
        x.reshape(-1).view(np.uint32)[nprng.choice(x.size, k, replace=False)] = np.resize(np.asarray(SPECIAL_BITS, np.uint32), k)
        p = T.path(".fil")
        write_fil(p, x, 32)
        back = np.ascontiguousarray(read_all(p)[1].T)
        if not np.array_equal(back.view(np.uint32), x.view(np.uint32)):      # the synthesised input itself must carry the patterns
            R.red.append("c16 harness: write_fil/read_block do not preserve the float32 bit patterns of the synthesised input")
            os.remove(p)
            continue
        for gulp in gulps_for(ns):
            mb = nprng.integers(0, 2, nchans).astype(bool)
            mb[rng.randrange(nchans)] = False
            mv = rng.choice([-2.5, 0.0, 1e-40, 3.0e38])
            case = {"op": "apply_channel_mask", "nbits": 32, "nchans": nchans, "nsamps": ns, "gulp": gulp, "mask": mb.astype(int).tolist(), "mask_value": mv,
                    "data_bits": x.view(np.uint32).tolist()}
            out = T.path(".fil")
            try:
                FilReader(p).apply_channel_mask(mb, mv, outfile_name=out, gulp=gulp, quiet=True)
                hdr, got = read_all(out)
            except Exception as e:  # noqa: BLE001
                R.fail("file-raises", f"apply_channel_mask raised {type(e).__name__}", dict(case, error=str(e)[:200]))
                continue
            R.case(("acm-bits", rep, gulp, mv, tuple(mb.tolist())), nontrivial=mb.any(), regime="file-32bit-patterns")
            if got.shape != (nchans, ns) or got.dtype != np.float32:
                R.fail("file-length", "cleaned file has a different shape/type than the input", dict(case, got_shape=list(got.shape), got_dtype=str(got.dtype)))
            else:
                gb = np.ascontiguousarray(got).view(np.uint32)
                eb = np.ascontiguousarray(x.T).view(np.uint32).copy()
                bad = (gb != eb) & ~mb[:, None]
                if bad.any():
                    c, s_ = (int(t) for t in np.argwhere(bad)[0])
                    R.fail("file-unmasked-bits", "a sample of an unmasked channel is not bit-identical to the input",
                           dict(case, channel=c, sample=s_, got_bits=int(gb[c, s_]), expected_bits=int(eb[c, s_])))
                if mb.any() and not np.all(got[mb] == np.float32(mv)):
                    R.fail("file-masked-value", "a sample of a masked channel is not the mask value (as float32)",
                           dict(case, written_values=[float(t) for t in np.unique(got[mb])[:6]]))
            os.remove(out)
        os.remove(p)


# ------------------------------------------------------------------------------------------------
RANGE_KINDS = ("none", "empty", "inside", "overlap", "outside", "edges", "reversed", "whole")
RANGE_KINDS_X = ("halfline", "intlists")        # clean_rfi: oracle only; histories: also the extended model (apply_mask_x over xq end points)


def make_ranges(rng, kind, fch1, foff, nchans):
    f = lambda c: fch1 + c * foff
    lo_f, hi_f = min(f(0), f(nchans - 1)), max(f(0), f(nchans - 1))
    if kind == "none":
        return None
    if kind == "empty":
        return []
    if kind == "inside":
        a = rng.randrange(nchans - 2)
        b = rng.randrange(a, nchans)
        x, y = sorted((f(a) - 0.25 * foff, f(b) + 0.25 * foff))
        return [(x, y)]
    if kind == "overlap":
        a = rng.randrange(1, nchans - 3)
        x1, y1 = sorted((f(a) - 0.3 * foff, f(a + 2) + 0.3 * foff))
        x2, y2 = sorted((f(a + 1) - 0.3 * foff, f(min(nchans - 1, a + 4)) + 0.3 * foff))
        return [(x1, y1), (x2, y2), (x1, y1)]
    if kind == "outside":
        return [(hi_f + 10.0, hi_f + 20.0), (lo_f - 50.0, lo_f - 0.5 * abs(foff))]
    if kind == "edges":                         # closed: both end points are channel centres
        a = rng.randrange(nchans - 1)
        b = rng.randrange(a, nchans)
        x, y = sorted((f(a), f(b)))
        c = rng.randrange(nchans)
        return [(x, y), (f(c), f(c))]
    if kind == "reversed":
        return [(hi_f, lo_f)] if hi_f > lo_f else [(hi_f + 1, lo_f)]
    if kind == "whole":
        return [(lo_f - 1.0, hi_f + 1.0)]
    if kind == "halfline":                      # "everything below / above f": an infinite end point
        a = rng.randrange(nchans)
        q = 0.25 * abs(foff)
        return rng.choice([[(float("-inf"), f(a) + q)], [(f(a) - q, float("inf"))], [(float("-inf"), f(a) - q), (f(min(nchans - 1, a + 2)) + q, np.inf)],
                           [(float("-inf"), float("inf"))]])
    if kind == "intlists":                      # end points given as Python / NumPy integers, ranges as lists / arrays instead of tuples
        a = rng.randrange(nchans - 1)
        b = rng.randrange(a, nchans)
        x, y = int(np.floor(min(f(a), f(b)))), int(np.ceil(max(f(a), f(b))))
        return [[x, y], np.array([int(np.floor(lo_f)) - 3, int(np.floor(lo_f)) - 2]), [np.int64(y), np.int32(y + 1)]]
    raise ValueError(kind)


def ranges_json(r):
    return None if r is None else [[float(a), float(b)] for a, b in r]


def _clean_cases(R, rng, T, FilReader, rfi, quick, corr):
    grids = [(1500.0, -1.0), (1400.0, 0.5), (1510.0, -0.390625), (800.0, 0.1)]      # the last one is not float32-exact
    combos = []
    for nbits in DEPTHS:
        for i, kind in enumerate(RANGE_KINDS):
            combos.append((nbits, kind, ("mad", "iqrm")[(i + nbits) % 2], rng.choice([2.0, 3.0, 3.0, 5.5]), 1.0))
    if not quick:
        combos += [(nb, k, m, rng.choice([1.5, 2.0, 3.0, 4.0, 6.0]), 1.0) for _rep in range(4) for nb in DEPTHS for k in RANGE_KINDS for m in ("mad", "iqrm")]
    # further regimes (appended, so that the cases above are the same as before): infinite / integer range end points; 32-bit files in a
    # small unit (samples * 2**-20, exact in float32: variances of order 1e-10, the masks must not depend on the unit); thresholds far from
    # the usual ones and of integer type
    small = 2.0 ** -20
    for rep_ in range(1 if quick else 4):
        combos += [(nb, "halfline", ("mad", "iqrm")[(nb + rep_) % 2], 3.0, 1.0) for nb in ((1, 8, 32) if quick else DEPTHS)]
        combos += [(8, "intlists", "mad", 3, 1.0), (2, "intlists", "iqrm", 3.0, 1.0)]
        combos += [(32, k, m, t, small) for k, m, t in (("inside", "mad", 3.0), ("none", "iqrm", 3.0), ("edges", "mad", 2.0), ("halfline", "iqrm", 4.0))]
        combos += [(8, "inside", "mad", 1e-3, 1.0), (4, "none", "iqrm", 1e6, 1.0), (32, "overlap", "mad", 1e-3, small)]
    for idx, (nbits, rkind, method, thr, amp) in enumerate(combos):
        fch1, foff = grids[idx % len(grids)] if rkind != "edges" else grids[idx % 3]
        nchans = 16 if nbits == 1 else rng.choice([12, 16, 24])
        ns = rng.randrange(24, 48)
        data, planted = synth(rng, nbits, nchans, ns)
        if amp != 1.0:
            data = data.astype(np.float32) * np.float32(amp)
        p = T.path(".fil")
        write_fil(p, data, nbits, fch1=fch1, foff=foff)
        ranges = make_ranges(rng, rkind, fch1, foff, nchans)
        cid = rng.choice([None, 0, 1, 2, 3, 4, 5, 6])
        top = (1 << nbits) - 1
        mv = rng.choice([None, None, (rng.randrange(top + 1) if nbits < 32 else rng.choice([0.0, -2.5, 11.0]))])
        gulp = rng.choice(gulps_for(ns))
        case = {"op": "clean_rfi", "nbits": nbits, "nchans": nchans, "nsamps": ns, "fch1": fch1, "foff": foff, "method": method, "threshold": thr,
                "freq_mask": ranges_json(ranges), "custom": cid, "mask_value": mv, "gulp": gulp, "amplitude": amp, "data": data.tolist()}
        out = T.path(".fil")
        try:
            f = FilReader(p)
            _o, m = f.clean_rfi(method=method, threshold=thr, freq_mask=ranges, custom_funcn=None if cid is None else custom_fn(cid, nchans),
                                mask_value=mv, outfile_name=out, gulp=gulp, quiet=True)
            hdr, got = read_all(out)
        except Exception as e:  # noqa: BLE001
            R.fail("clean-raises", f"clean_rfi raised {type(e).__name__}", dict(case, error=str(e)[:200]))
            continue
        chan = np.asarray(m.chan_mask).astype(bool)
        user = np.asarray(m.user_mask).astype(bool)
        st = np.asarray(m.stats_mask).astype(bool)
        cust = np.asarray(m.custom_mask).astype(bool)
        R.case(("clean", nbits, rkind, method, thr, cid, mv, gulp, idx), nontrivial=chan.any() and not chan.all(), regime=f"clean-{method}-{rkind}",
               sample={"op": "clean_rfi", "nbits": nbits, "method": method, "threshold": thr, "freq_mask": ranges, "custom": cid,
                       "user": np.where(user)[0].tolist(), "stats": np.where(st)[0].tolist(), "custom_mask": np.where(cust)[0].tolist(),
                       "chan": np.where(chan)[0].tolist()} if idx in (3, 12) else None)
        # (1) union
        if not np.array_equal(chan, user | st | cust):
            R.fail("union", "chan_mask is not the union of user, statistics and custom mask",
                   dict(case, chan=np.where(chan)[0].tolist(), user=np.where(user)[0].tolist(), stats=np.where(st)[0].tolist(), custom=np.where(cust)[0].tolist()))
        # (2) user mask = closed ranges on the centre frequencies
        eu, fragile = o_user(fch1, foff, nchans, ranges or [])
        if not fragile and not np.array_equal(user, eu):
            R.fail("user-mask-range", "user_mask is not {channels whose centre frequency lies in one of the closed ranges}",
                   dict(case, got=np.where(user)[0].tolist(), expected=np.where(eu)[0].tolist()))
        # (3) the statistic vectors are those of the file, and the statistics mask is the rule applied to them
        ref = data.T.astype(np.float64)
        mu = ref.mean(axis=1)
        var = ref.var(axis=1)
        if not (np.allclose(m.chan_mean, mu, rtol=1e-3, atol=1e-3 * amp) and np.allclose(m.chan_var, var, rtol=1e-3, atol=1e-3 * amp * amp)):
            R.fail("stats-vector", "chan_mean / chan_var of the returned mask are not the per-channel mean / variance of the file",
                   dict(case, chan_var=[float(v) for v in m.chan_var], expected_var=var.tolist()))
        with np.errstate(all="ignore"):
            cen = ref - mu[:, None]
            skew = np.where(var > 0, (cen ** 3).mean(axis=1) / np.where(var > 0, var, 1) ** 1.5, 0.0)
            kurt = np.where(var > 0, (cen ** 4).mean(axis=1) / np.where(var > 0, var, 1) ** 2 - 3.0, -3.0)
        if not (np.allclose(m.chan_skew, skew, rtol=1e-2, atol=1e-2) and np.allclose(m.chan_kurt, kurt, rtol=1e-2, atol=1e-2)):
            R.fail("stats-vector", "chan_skew / chan_kurt of the returned mask are not the per-channel skewness / excess kurtosis of the file",
                   dict(case, chan_skew=[float(v) for v in m.chan_skew], expected_skew=skew.tolist(), chan_kurt=[float(v) for v in m.chan_kurt], expected_kurt=kurt.tolist()))
        lo, hi, fr = o_stats(method, thr, np.asarray(m.chan_var), np.asarray(m.chan_skew), np.asarray(m.chan_kurt))
        if not fr and (np.any(lo & ~st) or np.any(st & ~hi)):
            R.fail(f"stats-mask-{method}", "stats_mask is not {channels whose variance, skewness or kurtosis is beyond the threshold under the method}",
                   dict(case, got=np.where(st)[0].tolist(), must_flag=np.where(lo)[0].tolist(), may_flag=np.where(hi)[0].tolist()))
        if float(m.threshold) != float(thr):
            R.fail("threshold-recorded", "the mask does not record the threshold it was made with", dict(case, got=float(m.threshold)))
        # (4) custom mask = function applied to what was masked so far
        ec = o_custom(cid, nchans, user | st) if cid is not None else np.zeros(nchans, bool)
        if not np.array_equal(cust, ec):
            R.fail("custom-mask", "custom_mask is not the custom function applied to (user | stats)",
                   dict(case, got=np.where(cust)[0].tolist(), expected=np.where(ec)[0].tolist()))
        # (5) the cleaned file
        if mv is None:
            # whatever is masked (also everything: the default value is then undefined), the file keeps its shape, depth and axes
            if hdr.nsamples != ns or hdr.nchans != nchans or hdr.nbits != nbits or got.shape != (nchans, ns):
                R.fail("clean-length", "cleaned file has a different shape/depth than the input",
                       dict(case, got_shape=list(got.shape), nsamples=int(hdr.nsamples), nbits=int(hdr.nbits)))
            check_axes(R, "clean", hdr, f.header, case)
            if (~chan).any():
                emv = float(np.median(mu[~chan]))
                w = got[chan]
                if chan.any():
                    v0 = float(w.flat[0])
                    ok = bool(np.all(w == w.flat[0])) and (abs(v0 - emv) <= 1e-3 * max(1.0, abs(emv)) if nbits == 32 else (v0 == int(v0) and abs(v0 - emv) < 1 + 1e-3))
                    if ok and nbits == 32:          # the same relative to the unit of the data
                        ok = abs(v0 - emv) <= 1e-3 * max(amp, abs(emv))
                    if ok and nbits < 32:
                        # the value is converted to the sample type as an explicit one is (apply_channel_mask: float32, then the C cast of
                        # astype, i.e. truncation); both neighbours are accepted only when the median is within 1e-3 of an integer
                        ok = v0 in {float(int(emv - 1e-3 * max(1.0, emv))), float(int(emv + 1e-3 * max(1.0, emv)))}
                    if not ok:
                        R.fail("clean-default-value", "masked samples are not the default mask value (median of the unmasked channel means)",
                               dict(case, expected=emv, written=sorted({float(t) for t in np.unique(w)})[:6]))
                um = ~chan
                if not np.array_equal(got[um].astype(np.float64), data.T[um].astype(np.float64)) or got.shape != (nchans, ns):
                    R.fail("clean-unmasked-changed", "a sample of an unmasked channel differs from the input (or the file length changed)", case)
        else:
            check_cleaned(R, "clean", hdr, got, data, chan, mv, nbits, case, in_hdr=f.header)
        # correspondence input: the vectors the implementation itself used
        if (not fr and nchans <= 24 and len(corr) < (40 if quick else 200) and cid != 6 and rkind not in RANGE_KINDS_X and amp == 1.0 and np.isfinite(thr)
                and not model_fragile(method, (m.chan_var, m.chan_skew, m.chan_kurt))):
            fr32 = [float(x) for x in np.asarray(FilReader(p).header.chan_freqs)]
            _eu, fragile32 = o_user(fch1, foff, nchans, ranges or [])
            if not fragile32:
                corr.append(dict(n=nchans, freqs=fr32, var=[float(x) for x in m.chan_var], skew=[float(x) for x in m.chan_skew], kurt=[float(x) for x in m.chan_kurt],
                                 method=method, thr=thr, ranges=ranges, cid=cid, chan=chan.tolist(), user=user.tolist(), stats=st.tolist(), custom=cust.tolist(),
                                 margin=bool(np.array_equal(lo, hi))))
        os.remove(p)
        os.remove(out)


# ------------------------------------------------------------------------------------------------
def _history_cases(R, rng, rfi, Header, quick, corr, T=None, corrx=None):
    """any sequence of public operations on one RFIMask only adds channels, and chan_mask contains the components"""
    nprng = np.random.default_rng(rng.randrange(1 << 30))
    n_std = 40 if quick else 600
    # further histories (after the others; sent to the extended history model run_opsx of Model/C16_MaskAlg.v through `corrx`): the
    # threshold attribute is changed between operations, the custom function returns integers, range end points are infinite / integers,
    # and the history starts from a mask that was loaded from a file with channels already masked that belong to none of the component masks
    n_ext = (16 if quick else 150) if T is not None else 0
    for it in range(n_std + n_ext):
        ext = it >= n_std
        n = rng.choice([8, 12, 16])
        fch1, foff = rng.choice([(1500.0, -1.0), (1400.0, 0.5)])
        hdr = Header(filename="x.fil", data_type="filterbank", nchans=n, foff=foff, fch1=fch1, nbits=8, tsamp=0.001, tstart=60000.0, nsamples=64)
        vecs = []
        for _ in range(3):
            v = nprng.integers(-8, 9, n).astype(np.float32) / 4
            if rng.random() < 0.7:
                v[rng.randrange(n)] += rng.choice([-1, 1]) * rng.choice([64.0, 128.0])
            vecs.append(v)
        thr = rng.choice([2.0, 3.0, 4.5])
        m = rfi.RFIMask(thr, hdr, np.zeros(n, np.float32), vecs[0], vecs[1], vecs[2], np.zeros(n, np.float32), np.zeros(n, np.float32))
        ops, trail, strail = [], [], []
        thr0 = thr
        if ext and it % 2 == 1:
            m.chan_mask = nprng.integers(0, 3, n) == 0
            preset = m.chan_mask.copy()
            try:
                m = rfi.RFIMask.from_file(m.to_file(T.path(".h5")))
            except Exception as e:  # noqa: BLE001
                R.fail("h5-raises", f"mask file round trip raised {type(e).__name__}", {"op": "history-from-file", "nchans": n, "error": str(e)[:300]})
                continue
            if not np.array_equal(np.asarray(m.chan_mask), preset):
                R.fail("h5-arrays", "array 'chan_mask' is not reproduced by RFIMask.from_file(to_file())", {"op": "history-from-file", "saved": preset.tolist(), "loaded": np.asarray(m.chan_mask).tolist()})
        prev = np.asarray(m.chan_mask).astype(bool).copy()
        start = prev.tolist()
        fragile = False
        nops = rng.randrange(1, 7) if not ext else rng.randrange(3, 9)
        # half of the histories start with a non-empty range followed by the statistics / a custom function, so that an
        # operation which replaced (instead of extended) chan_mask would be seen
        forced = [("mask", rng.choice(["inside", "edges", "whole"])), (rng.choice(["method", "funcn"]), None)] if it % 2 == 0 else []
        for j in range(max(nops, len(forced))):
            k, rk = forced[j] if j < len(forced) else (rng.choice(["mask", "mask", "method", "funcn", "badmethod"] + (["thr", "thr", "method"] if ext else [])), None)
            if k == "thr":
                thr = thr * rng.choice([0.5, 2.0, 4.0]) if thr < 50 else 3.0
                m.threshold = thr
                ops.append(("thr", thr))
            elif k == "mask":
                r = make_ranges(rng, rk or rng.choice(RANGE_KINDS[1:] + (RANGE_KINDS_X if ext else ())), fch1, foff, n)
                m.apply_mask(r)
                ops.append(("mask", r))
            elif k == "method":
                meth = rng.choice(["mad", "iqrm"])
                m.apply_method(meth)
                ops.append(("method", meth))
                for v in vecs:
                    lo, hi, fr = (o_mad if meth == "mad" else o_iqrm)(v, thr)
                    fragile = fragile or fr or not np.array_equal(lo, hi)
                fragile = fragile or model_fragile(meth, vecs)
                if ext:                             # the statistics mask is the rule at the threshold the mask holds NOW
                    lo, hi, fr = o_stats(meth, thr, *vecs)
                    st_now = np.asarray(m.stats_mask).astype(bool)
                    if not fr and (np.any(lo & ~st_now) or np.any(st_now & ~hi)):
                        R.fail(f"stats-mask-{meth}", "stats_mask is not the rule applied at the current threshold of the mask",
                               {"op": "history", "nchans": n, "threshold": thr, "var": vecs[0].tolist(), "skew": vecs[1].tolist(), "kurt": vecs[2].tolist(), "ops": ops,
                                "got": np.where(st_now)[0].tolist(), "must_flag": np.where(lo)[0].tolist(), "may_flag": np.where(hi)[0].tolist()})
            elif k == "funcn":
                cid = rng.randrange(7 if ext else 6)
                m.apply_funcn(custom_fn(cid, n))
                ops.append(("funcn", cid))
            else:
                try:
                    m.apply_method("median")
                    R.fail("method-invalid", "an unsupported method name is accepted", {"ops": ops})
                except ValueError:
                    pass
                ops.append(("method", "other"))
            cur = np.asarray(m.chan_mask).astype(bool).copy()
            trail.append(cur.tolist())
            strail.append(np.asarray(m.stats_mask).astype(bool).tolist())
            case = {"op": "history", "nchans": n, "fch1": fch1, "foff": foff, "threshold": thr, "var": vecs[0].tolist(), "skew": vecs[1].tolist(),
                    "kurt": vecs[2].tolist(), "ops": ops, "before": np.where(prev)[0].tolist(), "after": np.where(cur)[0].tolist()}
            if np.any(prev & ~cur):
                R.fail("monotone", "an operation removed a channel from chan_mask", case)
            comp = np.asarray(m.user_mask).astype(bool) | np.asarray(m.stats_mask).astype(bool) | np.asarray(m.custom_mask).astype(bool)
            if np.any(comp & ~cur):
                R.fail("covers", "chan_mask does not contain user_mask | stats_mask | custom_mask", case)
            prev = cur
        R.case(("hist", it, tuple(str(o) for o in ops)), nontrivial=prev.any(), regime="history")
        if not ext and not fragile and len(corr) < (40 if quick else 120):
            corr.append(dict(n=n, freqs=[float(x) for x in hdr.chan_freqs], var=vecs[0].tolist(), skew=vecs[1].tolist(), kurt=vecs[2].tolist(), thr=thr, ops=ops,
                             trail=trail, user=np.asarray(m.user_mask).astype(bool).tolist(), stats=np.asarray(m.stats_mask).astype(bool).tolist(),
                             custom=np.asarray(m.custom_mask).astype(bool).tolist()))
        if ext and not fragile and corrx is not None and len(corrx) < (16 if quick else 150):
            corrx.append(dict(n=n, freqs=[float(x) for x in hdr.chan_freqs], var=vecs[0].tolist(), skew=vecs[1].tolist(), kurt=vecs[2].tolist(), thr0=thr0, start=start,
                              ops=[(k, ranges_json(a) if k == "mask" else a) for k, a in ops], trail=trail, strail=strail,
                              user=np.asarray(m.user_mask).astype(bool).tolist(), custom=np.asarray(m.custom_mask).astype(bool).tolist()))


# ------------------------------------------------------------------------------------------------
def _h5_cases(R, rng, T, rfi, Header, FilReader, SkyCoord, Angle, quick):
    import attrs
    nprng = np.random.default_rng(rng.randrange(1 << 30))

    def compare(m1, m2, case, gen):
        for a in attrs.fields(rfi.RFIMask):
            v1, v2 = getattr(m1, a.name), getattr(m2, a.name)
            if a.name == "header":
                for h in attrs.fields(Header):
                    if h.name == "stream_info":
                        continue
                    x1, x2 = getattr(v1, h.name), getattr(v2, h.name)
                    if h.name == "coord":
                        ok = abs(x1.icrs.ra.deg - x2.icrs.ra.deg) < 1e-9 and abs(x1.icrs.dec.deg - x2.icrs.dec.deg) < 1e-9
                        key = "h5-header-coord"
                    elif h.name in ("azimuth", "zenith"):
                        ok = abs(x1.deg - x2.deg) < 1e-9
                        key = "h5-header-coord"
                    else:
                        ok = bool(x1 == x2)
                        key = "h5-header-field"
                    if not ok:
                        R.fail(key, f"header field '{h.name}' is not reproduced by RFIMask.from_file(to_file())", dict(case, generation=gen, field=h.name, saved=str(x1), loaded=str(x2)))
            elif isinstance(v1, np.ndarray):
                if not (isinstance(v2, np.ndarray) and v1.shape == v2.shape and np.array_equal(v1, v2, equal_nan=v1.dtype.kind == "f") and v1.dtype == v2.dtype):
                    R.fail("h5-arrays", f"array '{a.name}' is not reproduced by RFIMask.from_file(to_file())", dict(case, generation=gen, array=a.name, saved=np.asarray(v1).tolist(), loaded=np.asarray(v2).tolist()))
            elif a.name == "threshold":
                if float(v1) != float(v2):
                    R.fail("h5-threshold", "threshold is not reproduced by RFIMask.from_file(to_file())", dict(case, generation=gen, saved=float(v1), loaded=float(v2)))

    n_std = 6 if quick else 60
    # further round trips (after the others): EVERY scalar field of the header differs from its default (also nifs, backend, period, accel,
    # the depth, an ascending band), the custom mask may be an integer array, and once the file name is the default one
    for it in range(n_std + (6 if quick else 40)):
        ext = it >= n_std
        n = rng.choice([8, 16, 32])
        kw = {}
        if it % 2 == 1 or ext:
            kw = dict(coord=SkyCoord(rng.uniform(0, 360), rng.uniform(-89, 89), unit="deg"), azimuth=Angle(f"{rng.uniform(0, 359):.4f}d"),
                      zenith=Angle(f"{rng.uniform(0, 89):.4f}d"), telescope="Parkes", source="J0534+2200", signed=bool(it % 4 == 1), ibeam=3, nbeams=13,
                      dm=56.75, rawdatafile="raw.dada", frame="barycentric")
        if not ext:
            hdr = Header(filename="obs.fil", data_type="filterbank", nchans=n, foff=-0.5, fch1=1500.0, nbits=8, tsamp=0.000064, tstart=58543.25, nsamples=4096, **kw)
        else:
            foff, fch1 = rng.choice([(-0.5, 1500.0), (0.5, 1494.0), (0.25, 1495.0)])
            kw.update(nifs=rng.choice([2, 4]), backend=rng.choice(["PDFB4", "BPSR"]), period=rng.uniform(0.001, 5.0), accel=rng.uniform(-50.0, 50.0),
                      signed=bool(it % 2), ibeam=rng.randrange(1, 13), dm=rng.uniform(1.0, 900.0), source=rng.choice(["J0534+2200", "B1937+21 (cal)", "G"]))
            hdr = Header(filename=rng.choice(["obs.fil", "2026-10-01_beam03.fil"]), data_type="filterbank", nchans=n, foff=foff, fch1=fch1, nbits=rng.choice(DEPTHS),
                         tsamp=rng.choice([0.000064, 0.001, 1.0 / 3.0]), tstart=rng.choice([58543.25, 60000.0 + rng.random()]), nsamples=rng.choice([1, 4096, (1 << 31) + 5]), **kw)
        thr = rng.choice([3, 2.5, 4.0]) if not ext else rng.choice([3, 2.5, np.float32(4.5), 1e-3, 1e6, 0.1 + 0.2])
        arrs = [nprng.normal(0, 1, n).astype(np.float32) for _ in range(6)]
        m = rfi.RFIMask(thr, hdr, *arrs)
        m.apply_mask([(1495.0, 1497.25)])
        m.apply_method(rng.choice(["mad", "iqrm"]))
        m.apply_funcn(custom_fn(rng.randrange(7 if ext else 6), n))
        case = {"op": "h5", "nchans": n, "threshold": float(thr), "header": {k: str(v) for k, v in kw.items()}}
        if ext and it == n_std:                         # to_file() without a name: <basename>_mask.h5 in the working directory
            cwd = os.getcwd()
            try:
                os.chdir(T.dir)
                fn0 = m.to_file()
                want = f"{hdr.basename}_mask.h5"
                if fn0 != want or not os.path.exists(os.path.join(T.dir, want)):
                    R.fail("h5-default-name", "to_file() without a name does not write <basename>_mask.h5", dict(case, returned=str(fn0), expected=want))
                else:
                    compare(m, rfi.RFIMask.from_file(os.path.join(T.dir, want)), case, 1)
            except Exception as e:  # noqa: BLE001
                R.fail("h5-raises", f"mask file round trip raised {type(e).__name__}", dict(case, error=str(e)[:300]))
            finally:
                os.chdir(cwd)
        R.case(("h5", it), regime="h5", sample={"op": "to_file/from_file", "header_overrides": sorted(kw)} if it == 1 else None)
        p = T.path(".h5")
        try:
            fn = m.to_file(p)
            m2 = rfi.RFIMask.from_file(fn)
            compare(m, m2, case, 1)
            p2 = T.path(".h5")
            m3 = rfi.RFIMask.from_file(m2.to_file(p2))       # a loaded mask saved again
            compare(m, m3, case, 2)
        except Exception as e:  # noqa: BLE001
            R.fail("h5-raises", f"mask file round trip raised {type(e).__name__}", dict(case, error=str(e)[:300]))
    # a mask coming out of clean_rfi on a file whose header carries a sky position
    data, _ = synth(rng, 8, 16, 40)
    p = T.path(".fil")
    write_fil(p, data, 8, coord=SkyCoord(83.63291667, 22.01444444, unit="deg"), azimuth=Angle("12.5d"), zenith=Angle("33.25d"), source="J0534+2200")
    out = T.path(".fil")
    f = FilReader(p)
    _o, m = f.clean_rfi(outfile_name=out, quiet=True)
    R.case(("h5", "clean"), regime="h5")
    try:
        m2 = rfi.RFIMask.from_file(m.to_file(T.path(".h5")))
        compare(m, m2, {"op": "h5-after-clean_rfi", "coord": "83.63291667 22.01444444", "azimuth": 12.5, "zenith": 33.25}, 1)
    except Exception as e:  # noqa: BLE001
        R.fail("h5-raises", f"mask file round trip raised {type(e).__name__}", {"op": "h5-after-clean_rfi", "error": str(e)[:300]})


# ------------------------------------------------------------------------------------------------
PRE = """From Coq Require Import ZArith QArith List Bool.
Require Import SPP.Base.Rt SPP.Gen.Kernels SPP.Gen.C16Rfi SPP.Model.Bits SPP.Model.C16_Vec SPP.Model.C16_File SPP.Model.C16_MaskAlg.
Import ListNotations.
Open Scope Z_scope.
Definition bl_eqb (a b : list bool) : bool := if list_eq_dec bool_dec a b then true else false.
"""
IDX = """Definition idx := map fst (filter (fun p => negb (ok (snd p))) (combine (seq 0 (length cases)) cases)).
Eval vm_compute in (length cases, idx).
"""


def _eval_idx(R, name, text, cases, what, describe):
    rc, out = vlib.coq_run(name, text, timeout=300)
    vals = vlib.parse_eval(out)
    if rc != 0 or not vals:
        R.red.append(f"correspondence: Corr/{name} did not evaluate: " + out[-500:])
        return
    nums = [int(x) for x in re.findall(r"(\d+)%nat", vals[0])]
    n, bad = (nums[0], nums[1:]) if nums else (0, [])
    if n != len(cases):
        R.red.append(f"correspondence: Corr/{name} evaluated {n} of {len(cases)} cases")
    R.extra_cov["traces_validated_against_impl"] = R.extra_cov.get("traces_validated_against_impl", 0) + n
    for b in bad[:3]:
        R.disagree(what, describe(cases[b]))


def _correspond(R, ck, cf, cp, cc, ch, chx=()):
    # (a) generated kernel vs compiled kernel
    if ck:
        t = PRE + "Definition cases : list (list Z * list Z * Z * Z * Z * list Z) := [\n" + ";\n".join(
            f"({vlib.zlist(a)}, {vlib.zlist(m)}, {mv}, {nc}, {ns}, {vlib.zlist(o)})" for a, m, mv, nc, ns, o in ck) + "].\n"
        t += ("Definition ok (c : list Z * list Z * Z * Z * Z * list Z) : bool := let '(a, m, mv, nc, ns, o) := c in\n"
              "  list_eqb (to_list (Z.of_nat (length o)) (mask_channels_run (of_list a) (of_list m) mv nc ns)) o.\n") + IDX
        _eval_idx(R, "c16_kernel", t, ck, "generated mask_channels_run and the compiled kernel differ",
                  lambda c: {"in": c[0], "mask": c[1], "maskvalue": c[2], "nchans": c[3], "nsamps": c[4], "impl": c[5]})
    # (b) block loop model vs the written file
    if cf:
        t = PRE + "Definition cases : list (list Z * list Z * Z * Z * Z * Z * list Z) := [\n" + ";\n".join(
            f"({vlib.zlist(a)}, {vlib.zlist(m)}, {mv}, {nc}, {ns}, {g}, {vlib.zlist(o)})" for a, m, mv, nc, ns, g, o in cf) + "].\n"
        t += ("Definition ok (c : list Z * list Z * Z * Z * Z * Z * list Z) : bool := let '(a, m, mv, nc, ns, g, o) := c in\n"
              "  list_eqb (to_list (nc * ns + 2) (clean_file (of_list a) (fun _ => 255) (of_list m) mv nc (gulp_lens ns g))) (o ++ [0; 0]).\n") + IDX
        _eval_idx(R, "c16_file", t, cf, "block-loop model (Model/C16_File.v over the generated kernel) and the file written by apply_channel_mask differ",
                  lambda c: {"data": c[0], "mask": c[1], "mask_value": c[2], "nchans": c[3], "nsamps": c[4], "gulp": c[5], "impl_file": c[6]})
    if cp:
        t = PRE + "Definition cases : list (Z * bool * list Z * list Z * Z * Z * Z * list Z) := [\n" + ";\n".join(
            f"({nb}, {'true' if big else 'false'}, {vlib.zlist(bi)}, {vlib.zlist(m)}, {mv}, {nc}, {ns}, {vlib.zlist(bo)})" for nb, big, bi, m, mv, nc, ns, bo in cp) + "].\n"
        t += ("Definition ok (c : Z * bool * list Z * list Z * Z * Z * Z * list Z) : bool := let '(nb, big, bi, m, mv, nc, ns, bo) := c in\n"
              "  list_eqb (to_list (Z.of_nat (length bo)) (clean_block_packed nb big (Z.of_nat (length bi)) (of_list bi) (of_list m) mv nc ns zeros zeros)) bo.\n") + IDX
        _eval_idx(R, "c16_packed", t, cp, "unpack/mask/pack model and the bytes written by apply_channel_mask differ",
                  lambda c: {"nbits": c[0], "big": c[1], "bytes_in": c[2], "mask": c[3], "mask_value": c[4], "nchans": c[5], "nsamps": c[6], "impl_bytes": c[7]})
    # (c) clean_rfi in exact arithmetic vs the masks the implementation returned
    meth = {"mad": "M_mad", "iqrm": "M_iqrm", "other": "M_other"}

    def ranges_lit(r):
        return "[" + "; ".join(f"({qlit(a)}, {qlit(b)})" for a, b in r) + "]"
    cc2 = [c for c in cc if c["margin"]]
    R.extra_cov["clean_rfi_cases_skipped_near_threshold"] = len(cc) - len(cc2)
    for s0 in range(0, len(cc2), 20):
        sh = cc2[s0:s0 + 20]
        rows = []
        for c in sh:
            fm = "None" if c["ranges"] is None else f"Some {ranges_lit(c['ranges'])}"
            cu = "None" if c["cid"] is None else f"Some {c['cid']}"
            rows.append(f"({c['n']}, {qlist(c['freqs'])}, {qlist(c['var'])}, {qlist(c['skew'])}, {qlist(c['kurt'])}, {meth[c['method']]}, {qlit(c['thr'])}, {fm}, {cu},\n"
                        f"  ({blist(c['chan'])}, {blist(c['user'])}, {blist(c['stats'])}, {blist(c['custom'])}))")
        t = PRE + ("Definition cases : list (Z * list Q * list Q * list Q * list Q * method_t * Q * option (list (Q * Q)) * option Z * "
                   "(list bool * list bool * list bool * list bool)) := [\n") + ";\n".join(rows) + "].\n"
        t += ("Definition ok (c : Z * list Q * list Q * list Q * list Q * method_t * Q * option (list (Q * Q)) * option Z * (list bool * list bool * list bool * list bool)) : bool :=\n"
              "  let '(n, fr, va, sk, ku, m, thr, fm, cu, exp) := c in\n"
              "  match clean_rfi_exec n fr va sk ku m thr fm cu with None => false | Some (a, b, c0, d) =>\n"
              "    let '(ea, eb, ec, ed) := exp in bl_eqb a ea && bl_eqb b eb && bl_eqb c0 ec && bl_eqb d ed end.\n") + IDX
        _eval_idx(R, f"c16_clean_{s0 // 20}", t, sh, "clean_rfi model (generated operations, exact estimators) and the masks returned by the implementation differ",
                  lambda c: {k: c[k] for k in ("n", "method", "thr", "ranges", "cid", "var", "skew", "kurt", "chan", "user", "stats", "custom")})
    # (d) histories
    if ch:
        rows = []
        for c in ch:
            ops = []
            for k, a in c["ops"]:
                if k == "mask":
                    ops.append(f"CMask {ranges_lit(a)}")
                elif k == "method":
                    ops.append(f"CMethod {meth[a]}")
                else:
                    ops.append(f"CFuncn {a}")
            exp = c["trail"] + [c["user"], c["stats"], c["custom"]]
            rows.append(f"({c['n']}, {qlist(c['freqs'])}, {qlist(c['var'])}, {qlist(c['skew'])}, {qlist(c['kurt'])}, {qlit(c['thr'])}, [{'; '.join(ops)}],\n  [" + "; ".join(blist(b) for b in exp) + "])")
        t = PRE + "Definition cases : list (Z * list Q * list Q * list Q * list Q * Q * list opcode * list (list bool)) := [\n" + ";\n".join(rows) + "].\n"
        t += ("Definition ok (c : Z * list Q * list Q * list Q * list Q * Q * list opcode * list (list bool)) : bool :=\n"
              "  let '(n, fr, va, sk, ku, thr, ops, exp) := c in\n"
              "  if list_eq_dec (list_eq_dec bool_dec) (run_ops_exec n fr va sk ku thr ops) exp then true else false.\n") + IDX
        _eval_idx(R, "c16_hist", t, ch, "history model (generated operations) and the RFIMask object differ",
                  lambda c: {k: c[k] for k in ("n", "thr", "ops", "var", "skew", "kurt", "trail", "user", "stats", "custom")})
    # (d') extended histories: threshold assignments, infinite / integer end points, custom function 6, a preset starting mask;
    #      compared: chan_mask AND stats_mask after every operation, user and custom mask at the end
    if chx:
        def xq_lit(e):
            e = float(e)
            return "XPosInf" if e == float("inf") else "XNegInf" if e == float("-inf") else f"XFin {qlit(e)}"
        rows = []
        for c in chx:
            ops = []
            for k, a in c["ops"]:
                if k == "mask":
                    ops.append("CXMask [" + "; ".join(f"({xq_lit(lo)}, {xq_lit(hi)})" for lo, hi in a) + "]")
                elif k == "method":
                    ops.append(f"CXMethod {meth[a]}")
                elif k == "thr":
                    ops.append(f"CXThr {qlit(a)}")
                else:
                    ops.append(f"CXFuncn {a}")
            exp = [b for pair in zip(c["trail"], c["strail"]) for b in pair] + [c["user"], c["custom"]]
            rows.append(f"({c['n']}, {qlist(c['freqs'])}, {qlist(c['var'])}, {qlist(c['skew'])}, {qlist(c['kurt'])}, {qlit(c['thr0'])}, {blist(c['start'])}, [{'; '.join(ops)}],\n  ["
                        + "; ".join(blist(b) for b in exp) + "])")
        t = PRE + "Definition cases : list (Z * list Q * list Q * list Q * list Q * Q * list bool * list opcodex * list (list bool)) := [\n" + ";\n".join(rows) + "].\n"
        t += ("Definition ok (c : Z * list Q * list Q * list Q * list Q * Q * list bool * list opcodex * list (list bool)) : bool :=\n"
              "  let '(n, fr, va, sk, ku, thr, st, ops, exp) := c in\n"
              "  if list_eq_dec (list_eq_dec bool_dec) (run_opsx_exec n fr va sk ku thr st ops) exp then true else false.\n") + IDX
        _eval_idx(R, "c16_histx", t, list(chx), "extended history model (run_opsx over the generated operations) and the RFIMask object differ",
                  lambda c: {k: c[k] for k in ("n", "thr0", "start", "ops", "var", "skew", "kurt", "trail", "strail", "user", "custom")})
    # (e) what the generated iqrm_mask says about memory layout
    t = PRE + ("Eval vm_compute in iqrm_window_uses_input_strides.\n"
               "Eval vm_compute in (match iqrm_mask (zscore_iqr_exec 8) 8 2 (fun _ => 1000%Q) (qof [1#1;2#1;1#1;2#1;1#1;2#1;1#1;2#1]) 3 2,\n"
               "  iqrm_mask (zscore_iqr_exec 8) 8 1 (fun _ => 1000%Q) (qof [1#1;2#1;1#1;2#1;1#1;2#1;1#1;2#1]) 3 2 with\n"
               "  | Some a, Some b => bl_eqb (blist 8 a) (blist 8 b) | _, _ => false end).\n")
    rc, out = vlib.coq_run("c16_layout", t, timeout=120)
    vals = vlib.parse_eval(out)
    if rc != 0 or len(vals) != 2:
        R.red.append("correspondence: Corr/c16_layout did not evaluate: " + out[-300:])
    else:
        R.extra_cov["model_iqrm_window_uses_input_strides"] = vals[0]
        R.extra_cov["model_iqrm_mask_same_for_stride_ratio_2"] = vals[1]
        if vals[0] == "true":
            R.notes.append("generated iqrm_mask builds its window with the INPUT array's strides: the model's mask depends on the memory layout "
                           f"(same mask for stride ratio 2 on the witness vector: {vals[1]})")
    R.extra_cov["correspondence_cases"] = len(ck) + len(cf) + len(cp) + len(cc2) + len(ch) + len(chx)


# ------------------------------------------------------------------------------------------------
# at-scale search (check.py calls it when something no longer checks and no small failing input was found, always in the
# thorough tier, and with VERIF_SCALE=1).  Silent on the unchanged tree.  Every case carries the numpy seed sequence of its
# generator: data = the function named in case["generator"], called with numpy.random.default_rng(case["np_seed"]).
# ------------------------------------------------------------------------------------------------
SC_EXTREMES = (3.0e38, -3.0e38, 1.0e-30, -1.0e-30, 16777216.0, 16777218.0, -16777216.0, 2147483648.0, 65504.0, 0.5)


def _sc_rng(R, *ids):
    seed = [int(R.seed), 1616] + [int(i) for i in ids]
    return np.random.default_rng(seed), seed


def _sc_data(nprng, nbits, nchans, nsamps, plant=True, extremes=False):
    """(nsamps, nchans) samples at depth nbits (uint8; float32 for 32 bit, integer valued unless `extremes`), with three planted
    channels (dead / maximal variance / a spike every 64 samples) when `plant`; at 32 bit `extremes` sprinkles values near the float32 limits"""
    hi = (1 << nbits) if nbits < 32 else 64
    if nbits == 1 and plant:        # one-bit channels of different duty cycle (equal ones have variances within 1e-6 of each other)
        x = (nprng.random((nsamps, nchans), dtype=np.float32) < nprng.uniform(0.3, 0.7, nchans).astype(np.float32)[None, :]).astype(np.uint8)
    else:
        x = nprng.integers(0, hi, (nsamps, nchans), dtype=np.uint8)
    planted = {}
    if plant and nchans >= 8:
        ch = [int(c) for c in nprng.choice(nchans, 3, replace=False)]
        x[:, ch[0]] = hi - 1
        x[0::2, ch[1]] = 0
        x[1::2, ch[1]] = hi - 1
        x[:, ch[2]] = (hi - 1) // 2
        x[int(nprng.integers(64))::64, ch[2]] = hi - 1                # a spike every 64 samples: kurtosis about 60 whatever the length
        planted = {"dead": ch[0], "loud": ch[1], "spiky": ch[2]}
    if nbits == 32:
        x = x.astype(np.float32)
        if extremes:
            k = min(4096, x.size // 4)
            x.reshape(-1)[nprng.integers(0, x.size, k)] = np.asarray(SC_EXTREMES, np.float32)[nprng.integers(0, len(SC_EXTREMES), k)]
    return x, planted


def _sc_mask(nprng, nchans):
    """random channel mask with at least one masked and (for more than one channel) one unmasked channel"""
    m = nprng.integers(0, 2, nchans).astype(bool)
    m[int(nprng.integers(nchans))] = True
    if nchans > 1:
        free = int(nprng.integers(nchans))
        m[free] = False
        if not m.any():
            m[(free + 1) % nchans] = True
    return m


def _sc_user(fch1, foff, nchans, ranges):
    """o_user on a dyadic grid: centre frequencies exact in float64 and float32, closed ranges; None when the grid is not exact"""
    f = fch1 + np.arange(nchans, dtype=np.float64) * foff
    k = 1 << 20
    exact = (float(fch1 * k) == int(fch1 * k) and float(foff * k) == int(foff * k)
             and np.array_equal(f * k, int(fch1 * k) + np.arange(nchans, dtype=np.int64) * int(foff * k))
             and np.array_equal(f.astype(np.float32).astype(np.float64), f)
             and all(float(np.float32(e)) == float(e) for r in ranges for e in r))
    if not exact:
        return None
    m = np.zeros(nchans, bool)
    for lo, hi in ranges:
        m |= (f >= lo) & (f <= hi)
    return m


def _sc_ranges(nprng, kind, fch1, foff, nchans):
    """range lists on the grid fch1 + c*foff: end points are channel centres or a quarter of a channel away from one"""
    f = lambda c: fch1 + c * foff
    lo_f, hi_f = min(f(0), f(nchans - 1)), max(f(0), f(nchans - 1))
    q = 0.25 * foff
    if kind == "none":
        return None
    if kind == "empty":
        return []
    if kind == "inside":
        a = int(nprng.integers(nchans - 2))
        b = int(nprng.integers(a, min(nchans, a + max(2, nchans // 8))))
        return [tuple(sorted((f(a) - q, f(b) + q)))]
    if kind == "overlap":
        a = int(nprng.integers(1, nchans - 5))
        w = max(2, nchans // 16)
        r1 = tuple(sorted((f(a) - q, f(min(nchans - 1, a + w)) + q)))
        r2 = tuple(sorted((f(min(nchans - 1, a + w // 2)) - q, f(min(nchans - 1, a + 2 * w)) + q)))
        return [r1, r2, r1]
    if kind == "outside":
        return [(hi_f + 10.0, hi_f + 20.0), (lo_f - 50.0, lo_f - 2 * abs(q))]
    if kind == "edges":
        a = int(nprng.integers(nchans - 1))
        b = int(nprng.integers(a, min(nchans, a + max(2, nchans // 8))))
        c = int(nprng.integers(nchans))
        return [tuple(sorted((f(a), f(b)))), (f(c), f(c)), (f(nchans - 1), f(nchans - 1))]
    if kind == "reversed":
        return [(hi_f, lo_f)]
    if kind == "tail":                              # the last channels only: indices above 65535 when there are that many
        return [tuple(sorted((f(nchans - 3) - q, f(nchans - 1) + q)))]
    raise ValueError(kind)


SC_NEGL = 64 * float(np.finfo(np.float32).eps)


def _sc_o_mad(x, thr):
    """o_mad; additionally not demanded either way when a one-sided scale is negligible relative to the largest deviation (a scale
    of that size is within float32 rounding of the deviations; the implementation may or may not count it as zero)"""
    lo, hi, fr = o_mad(x, thr)
    x = np.asarray(x, dtype=np.float32).astype(np.float64)
    loc = np.median(x)
    dev = np.abs(x - loc)
    big = SC_NEGL * float(dev.max())
    for side in (dev[x <= loc], dev[x >= loc]):
        s = _side(side)[0]
        fr = fr or 0 < abs(s) <= big
    return lo, hi, fr


def _sc_o_iqrm(x, thr, radius=5):
    lo, hi, fr = o_iqrm(x, thr, radius)
    xf = np.asarray(x).astype(np.float64)
    n = len(xf)
    for lag in list(range(-radius, 0)) + list(range(1, radius + 1)):
        d = np.asarray(xf - xf[np.clip(np.arange(n) + lag, 0, n - 1)], dtype=np.float32).astype(np.float64)
        q1, q3 = np.percentile(d, [25, 75])
        s = (q3 - q1) / NORM_IQR
        fr = fr or 0 < abs(s) <= SC_NEGL * float(np.abs(d - np.median(d)).max())
    return lo, hi, fr


def _sc_o_stats(method, thr, var, skew, kurt):
    f = _sc_o_mad if method == "mad" else _sc_o_iqrm
    lo = np.zeros(len(var), bool)
    hi = np.zeros(len(var), bool)
    fr = False
    for v in (var, skew, kurt):
        a, b, c = f(v, thr)
        lo |= a
        hi |= b
        fr = fr or c
    return lo, hi, fr


def _sc_moments(x):
    """per-channel mean, variance, skewness, excess kurtosis of x (nsamps, nchans) in float64, a few channels at a time"""
    nsamps, nchans = x.shape
    mu, var, skew, kurt = (np.zeros(nchans) for _ in range(4))
    step = max(1, (1 << 21) // max(1, nsamps))
    with np.errstate(all="ignore"):
        for c0 in range(0, nchans, step):
            b = x[:, c0:c0 + step].astype(np.float64)
            m = b.mean(axis=0)
            cen = b - m
            c2 = cen * cen
            v = c2.mean(axis=0)
            pos = v > 0
            vv = np.where(pos, v, 1.0)
            mu[c0:c0 + step] = m
            var[c0:c0 + step] = v
            skew[c0:c0 + step] = np.where(pos, (c2 * cen).mean(axis=0) / vv ** 1.5, 0.0)
            kurt[c0:c0 + step] = np.where(pos, (c2 * c2).mean(axis=0) / vv ** 2 - 3.0, -3.0)
    return mu, var, skew, kurt


def _sc_outfile(R, key, path, x, mask, nbits, case, mv=None, default=None):
    """the cleaned file re-read with FilReader: length, unmasked channels bit-identical, masked channels constant = mask value
    (mv: explicit value; default: the expected default value, demanded as in the small-scope oracle)"""
    from sigpyproc.readers import FilReader
    nsamps, nchans = x.shape
    g = FilReader(path)
    h = g.header
    nbytes = os.path.getsize(path) - int(h.stream_info.entries[0].hdrlen)
    if h.nsamples != nsamps or h.nchans != nchans or h.nbits != nbits or nbytes * 8 != nsamps * nchans * nbits:
        R.fail(key + "-length", "cleaned file at scale has a different length/shape/depth than the input",
               dict(case, out_nsamples=int(h.nsamples), out_nchans=int(h.nchans), out_nbits=int(h.nbits), data_bytes=int(nbytes),
                    expected_bytes=nsamps * nchans * nbits // 8))
        return
    got = np.asarray(g.read_block(0, nsamps).data)
    if got.shape != (nchans, nsamps):
        R.fail(key + "-length", "cleaned file at scale re-reads with a different shape", dict(case, got_shape=list(got.shape)))
        return
    exp = np.ascontiguousarray(x.T)
    if nbits == 32 and got.dtype == np.float32 and exp.dtype == np.float32:
        neq = np.ascontiguousarray(got).view(np.uint32) != exp.view(np.uint32)
    else:
        neq = got != exp
    rows = neq.any(axis=1) & ~mask
    if rows.any():
        c = int(np.argmax(rows))
        s = int(np.argmax(neq[c]))
        R.fail(key + "-unmasked-changed", "at scale a sample of an unmasked channel differs from the input",
               dict(case, channel=c, sample=s, got=float(got[c, s]), expected=float(exp[c, s]), n_channels_changed=int(rows.sum())))
    del neq, exp
    if mask.any():
        w = got[mask]
        v0 = w.flat[0]
        const = bool(np.all(w == v0))
        if mv is not None:
            ok = const and cast_ok(v0, mv, nbits)
            want = float(mv)
        else:
            v0f = float(v0)
            ok = const and (abs(v0f - default) <= 1e-3 * max(1.0, abs(default)) if nbits == 32 else (v0f == int(v0f) and abs(v0f - default) < 1 + 1e-3))
            want = float(default)
        if not ok:
            badrow = int(np.argmax((w != v0).any(axis=1))) if not const else 0
            c = int(np.where(mask)[0][badrow])
            s = int(np.argmax(w[badrow] != v0)) if not const else 0
            R.fail(key + ("-masked-value" if mv is not None else "-default-value"),
                   "at scale a sample of a masked channel is not the mask value" + ("" if mv is not None else " (default: median of the unmasked channel means)"),
                   dict(case, expected=want, first_written=float(v0), channel=c, sample=s, got=float(w[badrow, s]),
                        written_values=[float(t) for t in np.unique(w)[:6]]))


# ---- (a) the kernel on blocks of 2**16 .. 2**24 elements --------------------------------------------------------------------
def _scale_kernel(R, kernels):
    shapes = [(1, 65535), (1, 65536), (1, 65537), (65535, 1), (65536, 1), (65537, 1), (65537, 3), (256, 256), (257, 255),
              (512, 512), (511, 513), (1024, 1024), (1023, 1025), ((1 << 20) + 1, 1), ((1 << 20) + 1, 5), (2048, 2048), (2047, 2049),
              (1 << 22, 1), (3, (1 << 22) // 3 + 1), (4096, 4096), (4097, 4096), (16, (1 << 20) - 1), (1, (1 << 24) + 1), ((1 << 24) + 1, 1),
              (70001, 240)]
    for i, (nchans, nsamps) in enumerate(shapes):
        for dt in (np.uint8, np.float32):
            nprng, seed = _sc_rng(R, 1, i, dt().itemsize)
            n = nchans * nsamps
            arr = nprng.integers(0, 256, n + 3, dtype=np.uint8)
            if dt is np.float32:
                arr = (arr.astype(np.float32) - np.float32(128)) * np.float32((1.0, 2.3e36, 0.125)[i % 3])     # up to 2.9e38
                mv = dt((3.0e38, -3.5, 0.0, -1.0e-30, 16777216.0)[i % 5])
            else:
                mv = dt((255, 0, 1, 254, 128)[i % 5])
            mask = _sc_mask(nprng, nchans)
            case = {"op": "kernels.mask_channels", "nchans": nchans, "nsamps": nsamps, "dtype": dt.__name__, "maskvalue": float(mv),
                    "masked_channels": int(mask.sum()), "np_seed": seed, "generator": "props/c16.py _scale_kernel"}
            exp = arr.copy()
            exp[:n].reshape(nsamps, nchans)[:, mask] = mv
            R.tick(case)
            R.case(("scale", "kernel", nchans, nsamps, dt.__name__), regime="scale")
            try:
                kernels.mask_channels(arr, mask, mv, nchans, nsamps)
            except Exception as e:  # noqa: BLE001
                R.fail("scale-kernel-raises", f"mask_channels raised {type(e).__name__} on a large block", dict(case, error=str(e)[:200]))
                continue
            if not np.array_equal(arr, exp):
                j = int(np.argmax(arr != exp))
                R.fail("scale-kernel-mask-channels", "mask_channels on a large block differs from its definition",
                       dict(case, first_bad_index=j, channel=j % nchans if j < n else None, sample=j // nchans if j < n else None,
                            got=float(arr[j]), expected=float(exp[j]), n_bad=int((arr != exp).sum())))
            del arr, exp


# ---- (b) the outlier rules on vectors of 2**16 .. 2**24 channels ------------------------------------------------------------
def _sc_vector(nprng, kind, n):
    if kind == "allequal":
        return np.full(n, -7.5, np.float32), []
    if kind == "ints":
        v = nprng.integers(-20, 21, n).astype(np.float32)
    else:
        v = nprng.normal(10.0, 1.0, n).astype(np.float32)
    pos = sorted({p for p in (0, n - 1, 65535, 65536, n // 2, (1 << 20) - 1, 1 << 20) if 0 <= p < n})
    for j, p in enumerate(pos):
        v[p] += np.float32((-1) ** j * (60.0 + 40.0 * j))
    return v, pos


def _scale_rules(R, rfi):
    table = [("mad", "normal", 65535, 3.0), ("mad", "normal", 65536, 3.0), ("mad", "normal", 65537, 6.0), ("mad", "ints", 65537, 3.0),
             ("mad", "allequal", 65537, 3.0), ("mad", "normal", (1 << 18) + 1, 3.0), ("mad", "normal", (1 << 20) + 1, 3.0),
             ("mad", "normal", (1 << 22) + 1, 4.5), ("mad", "normal", (1 << 24) + 1, 3.0),
             ("iqrm", "normal", 65535, 3.0), ("iqrm", "normal", 65536, 3.0), ("iqrm", "normal", 65537, 6.0), ("iqrm", "ints", 65537, 3.0),
             ("iqrm", "allequal", 65537, 3.0), ("iqrm", "normal", (1 << 18) + 1, 3.0), ("iqrm", "normal", (1 << 20) + 1, 4.5)]
    for i, (meth, kind, n, thr) in enumerate(table):
        nprng, seed = _sc_rng(R, 2, i)
        v, planted = _sc_vector(nprng, kind, n)
        radius = 5 if n != 65536 else 3
        case = {"op": f"rfi.{'double_mad_mask' if meth == 'mad' else 'iqrm_mask'}", "n": n, "vector": kind, "threshold": thr, "planted_at": planted,
                "np_seed": seed, "generator": "props/c16.py _sc_vector"}
        if meth == "iqrm":
            case["radius"] = radius
        R.tick(case)
        R.case(("scale", "rule", meth, kind, n, thr), regime="scale")
        try:
            got = np.asarray(rfi.double_mad_mask(v, thr) if meth == "mad" else rfi.iqrm_mask(v, thr, radius))
        except Exception as e:  # noqa: BLE001
            R.fail(f"scale-{meth}-raises", f"{meth} rule raised {type(e).__name__} on a long vector", dict(case, error=str(e)[:200]))
            continue
        lo, hi, fr = _sc_o_mad(v, thr) if meth == "mad" else _sc_o_iqrm(v, thr, radius)
        if fr:
            R.extra_cov["scale_decisions_not_demanded"] = R.extra_cov.get("scale_decisions_not_demanded", 0) + 1
            continue
        if got.shape != (n,) or got.dtype != np.bool_:
            R.fail(f"scale-{meth}-decision", f"{meth} rule on a long vector does not return one boolean per channel", dict(case, got_shape=list(got.shape), got_dtype=str(got.dtype)))
            continue
        miss, extra = lo & ~got, got & ~hi
        if miss.any() or extra.any():
            R.fail(f"scale-{meth}-decision", f"{meth} rule on a long vector differs from its definition",
                   dict(case, n_flagged=int(got.sum()), n_must_flag=int(lo.sum()), n_may_flag=int(hi.sum()), missed=np.where(miss)[0][:8].tolist(),
                        spurious=np.where(extra)[0][:8].tolist()))
        del v, got, lo, hi


# ---- (c) apply_channel_mask on long / wide files ----------------------------------------------------------------------------
def _scale_files(R, d):
    import filutil
    from sigpyproc.readers import FilReader
    table = [   # nbits, nchans, nsamps, gulps, input split into files at these samples
        (8, 1024, 40000, (16384, 16385, 4097, 70000), []),        # blocks of 2**24 elements, just above, 2**22 + ..., one block of 4.1e7
        (8, 4, 300000, (7, 16384, 65536, 70001, 262144), [123457]),   # 42858 blocks; blocks of 2**16, 2**18, 2**20 elements; two input files
        (32, 256, 70000, (16384, 5000, 65536, 65537), []),        # blocks of 2**22, 2**24, 2**24 + 256 elements, values near the float32 limits
        (1, 128, 200000, (16384, 4097, 70000, 131072), [70001]),  # packed depth: blocks of 2**21, 2**24 unpacked elements
        (2, 64, 140000, (16384, 9999, 65537), []),
        (4, 32, 140000, (1000, 16384, 65544), []),
        (8, 70001, 64, (1, 15, 16384), []),                       # more than 65536 channels
        (32, 65537, 40, (16, 16384), []),
        (1, 65544, 32, (3, 16384), []),
    ]
    for i, (nbits, nchans, nsamps, gulps, splits) in enumerate(table):
        nprng, seed = _sc_rng(R, 3, i)
        x, _ = _sc_data(nprng, nbits, nchans, nsamps, plant=False, extremes=True)
        paths = filutil.write_fil_set(os.path.join(d, f"in{i}"), x, nbits, splits)
        top = (1 << nbits) - 1
        for j, gulp in enumerate(gulps):
            mask = _sc_mask(nprng, nchans)
            if nbits == 32:
                mv = (3.0e38, -2.5, 0.0, 16777216.0)[j % 4]
            else:
                mv = (top, 0, int(nprng.integers(top + 1)), max(0, top - 1))[j % 4]
            out = os.path.join(d, "out.fil")
            case = {"op": "apply_channel_mask", "nbits": nbits, "nchans": nchans, "nsamps": nsamps, "splits": splits, "gulp": gulp, "mask_value": mv,
                    "masked_channels": int(mask.sum()), "first_masked": np.where(mask)[0][:6].tolist(), "np_seed": seed, "mask_draw": j,
                    "generator": "props/c16.py _scale_files: _sc_data(rng, nbits, nchans, nsamps, plant=False, extremes=True) written with filutil.write_fil_set, then one _sc_mask(rng, nchans) per gulp"}
            R.tick(case)
            R.case(("scale", "acm", nbits, nchans, nsamps, gulp), regime="scale")
            try:
                FilReader(paths if len(paths) > 1 else paths[0]).apply_channel_mask(mask, mv, outfile_name=out, gulp=gulp, quiet=True)
            except Exception as e:  # noqa: BLE001
                R.fail("scale-file-raises", f"apply_channel_mask raised {type(e).__name__} at scale", dict(case, error=str(e)[:200]))
                continue
            try:
                _sc_outfile(R, "scale-file", out, x, mask, nbits, case, mv=mv)
            except Exception as e:  # noqa: BLE001
                R.fail("scale-file-unreadable", f"the file written by apply_channel_mask at scale cannot be re-read ({type(e).__name__})", dict(case, error=str(e)[:200]))
            if os.path.exists(out):
                os.remove(out)
        for p in paths:
            os.remove(p)
        del x


# ---- (d) clean_rfi on long / wide files -------------------------------------------------------------------------------------
def _scale_clean(R, d, rfi):
    from sigpyproc.readers import FilReader
    table = [   # nbits, nchans, nsamps, (fch1, foff), [(gulp, method, threshold, range kind, custom id, explicit mask value?)]
        (8, 256, 70000, (1500.0, -0.390625), [(16384, "mad", 3.0, "inside", None, False), (5000, "iqrm", 3.0, "overlap", 2, False), (70001, "mad", 4.0, "edges", 1, True)]),
        (32, 128, 50000, (1400.0, 0.5), [(16384, "iqrm", 3.0, "edges", 3, False), (65537, "mad", 2.0, "none", None, True)]),
        (2, 64, 100000, (1500.0, -1.0), [(16384, "mad", 3.0, "overlap", 4, True), (30001, "iqrm", 3.0, "inside", None, False)]),
        (1, 64, 120000, (1500.0, -1.0), [(16384, "iqrm", 3.0, "inside", 5, False)]),
        (4, 32, 80000, (1400.0, 0.5), [(65539, "mad", 3.0, "outside", 2, False)]),
        (8, 4096, 3000, (1500.0, -0.0625), [(1000, "iqrm", 3.0, "overlap", 2, False), (257, "mad", 3.0, "tail", None, True)]),   # blocks of 2**22 elements
        (8, 65537, 48, (1500.0, -0.015625), [(16384, "mad", 3.0, "tail", 1, False), (5, "iqrm", 4.0, "edges", None, True)]),     # channel indices above 65535
        (32, 70001, 24, (1500.0, -0.015625), [(7, "mad", 3.0, "inside", 2, False)]),
        (8, 16, 40000, (1500.0, -1.0), [(3, "mad", 3.0, "edges", None, False), (1, "iqrm", 3.0, "inside", 1, True)]),          # 13334 / 40000 blocks, twice
    ]
    for i, (nbits, nchans, nsamps, (fch1, foff), runs) in enumerate(table):
        nprng, seed = _sc_rng(R, 4, i)
        x, planted = _sc_data(nprng, nbits, nchans, nsamps)
        p = os.path.join(d, f"cin{i}.fil")
        write_fil(p, x, nbits, fch1=fch1, foff=foff)
        mu, var, skew, kurt = _sc_moments(x)
        top = (1 << nbits) - 1
        for j, (gulp, method, thr, rkind, cid, explicit) in enumerate(runs):
            ranges = _sc_ranges(nprng, rkind, fch1, foff, nchans)
            mv = None if not explicit else (int(nprng.integers(top + 1)) if nbits < 32 else (-2.5, 11.0)[j % 2])
            out = os.path.join(d, "cout.fil")
            case = {"op": "clean_rfi", "nbits": nbits, "nchans": nchans, "nsamps": nsamps, "fch1": fch1, "foff": foff, "method": method, "threshold": thr,
                    "freq_mask": ranges, "custom": cid, "mask_value": mv, "gulp": gulp, "planted": planted, "np_seed": seed, "run": j,
                    "generator": "props/c16.py _scale_clean: _sc_data(rng, nbits, nchans, nsamps), then per run _sc_ranges(rng, kind, fch1, foff, nchans) and the mask value"}
            R.tick(case)
            R.case(("scale", "clean", nbits, nchans, nsamps, gulp, method, rkind, cid), regime="scale")
            try:
                _o, m = FilReader(p).clean_rfi(method=method, threshold=thr, freq_mask=ranges, custom_funcn=None if cid is None else custom_fn(cid, nchans),
                                               mask_value=mv, outfile_name=out, gulp=gulp, quiet=True)
            except Exception as e:  # noqa: BLE001
                R.fail("scale-clean-raises", f"clean_rfi raised {type(e).__name__} at scale", dict(case, error=str(e)[:200]))
                continue
            chan, user, st, cust = (np.asarray(a).astype(bool) for a in (m.chan_mask, m.user_mask, m.stats_mask, m.custom_mask))
            if any(a.shape != (nchans,) for a in (chan, user, st, cust)):
                R.fail("scale-union", "a mask returned by clean_rfi at scale does not have one entry per channel",
                       dict(case, shapes=[list(a.shape) for a in (chan, user, st, cust)]))
                continue
            idx = lambda b: np.where(b)[0][:8].tolist()
            if not np.array_equal(chan, user | st | cust):
                R.fail("scale-union", "at scale chan_mask is not the union of user, statistics and custom mask",
                       dict(case, n_chan=int(chan.sum()), n_union=int((user | st | cust).sum()), differ_at=idx(chan ^ (user | st | cust))))
            eu = _sc_user(fch1, foff, nchans, ranges or [])
            if eu is not None and not np.array_equal(user, eu):
                R.fail("scale-user-mask-range", "at scale user_mask is not {channels whose centre frequency lies in one of the closed ranges}",
                       dict(case, n_got=int(user.sum()), n_expected=int(eu.sum()), differ_at=idx(user ^ eu)))
            cm, cv, cs, ck = (np.asarray(a) for a in (m.chan_mean, m.chan_var, m.chan_skew, m.chan_kurt))
            if not (cm.shape == cv.shape == (nchans,) and np.allclose(cm, mu, rtol=1e-3, atol=1e-3) and np.allclose(cv, var, rtol=1e-3, atol=1e-3)):
                bad = ~(np.isclose(cm, mu, rtol=1e-3, atol=1e-3) & np.isclose(cv, var, rtol=1e-3, atol=1e-3)) if cm.shape == cv.shape == (nchans,) else np.ones(nchans, bool)
                c = int(np.argmax(bad))
                R.fail("scale-stats-vector", "at scale chan_mean / chan_var of the returned mask are not the per-channel mean / variance of the file",
                       dict(case, channel=c, n_bad=int(bad.sum()), got_mean=float(cm[c]) if cm.shape == (nchans,) else None, expected_mean=float(mu[c]),
                            got_var=float(cv[c]) if cv.shape == (nchans,) else None, expected_var=float(var[c])))
            elif not (np.allclose(cs, skew, rtol=1e-2, atol=1e-2) and np.allclose(ck, kurt, rtol=1e-2, atol=1e-2)):
                bad = ~(np.isclose(cs, skew, rtol=1e-2, atol=1e-2) & np.isclose(ck, kurt, rtol=1e-2, atol=1e-2))
                c = int(np.argmax(bad))
                R.fail("scale-stats-vector", "at scale chan_skew / chan_kurt of the returned mask are not the per-channel skewness / excess kurtosis of the file",
                       dict(case, channel=c, n_bad=int(bad.sum()), got_skew=float(cs[c]), expected_skew=float(skew[c]), got_kurt=float(ck[c]), expected_kurt=float(kurt[c])))
            lo, hi, fr = _sc_o_stats(method, thr, cv, cs, ck)
            if fr:
                R.extra_cov["scale_decisions_not_demanded"] = R.extra_cov.get("scale_decisions_not_demanded", 0) + 1
            if not fr and (np.any(lo & ~st) or np.any(st & ~hi)):
                R.fail(f"scale-stats-mask-{method}", "at scale stats_mask is not {channels whose variance, skewness or kurtosis is beyond the threshold under the method}",
                       dict(case, n_got=int(st.sum()), n_must=int(lo.sum()), n_may=int(hi.sum()), missed=idx(lo & ~st), spurious=idx(st & ~hi)))
            if float(m.threshold) != float(thr):
                R.fail("scale-threshold-recorded", "the mask does not record the threshold it was made with", dict(case, got=float(m.threshold)))
            ec = o_custom(cid, nchans, user | st) if cid is not None else np.zeros(nchans, bool)
            if not np.array_equal(cust, ec):
                R.fail("scale-custom-mask", "at scale custom_mask is not the custom function applied to (user | stats)",
                       dict(case, n_got=int(cust.sum()), n_expected=int(ec.sum()), differ_at=idx(cust ^ ec)))
            try:
                if mv is not None:
                    _sc_outfile(R, "scale-clean", out, x, chan, nbits, case, mv=mv)
                elif (~chan).any():
                    _sc_outfile(R, "scale-clean", out, x, chan, nbits, case, default=float(np.median(mu[~chan])))
            except Exception as e:  # noqa: BLE001
                R.fail("scale-clean-unreadable", f"the file written by clean_rfi at scale cannot be re-read ({type(e).__name__})", dict(case, error=str(e)[:200]))
            if os.path.exists(out):
                os.remove(out)
        os.remove(p)
        del x


# ---- (e) long histories / many channels on one RFIMask ----------------------------------------------------------------------
def _scale_history(R, rfi, Header):
    kinds = ("empty", "inside", "overlap", "outside", "edges", "reversed", "tail")
    table = [   # nchans, (fch1, foff), number of operations, number of statistics operations among them
        (16, (1500.0, -1.0), 1500, 150),
        (65537, (1500.0, -0.015625), 120, 6),
        ((1 << 20) + 1, (1500.0, -0.0009765625), 14, 1),
    ]
    for i, (n, (fch1, foff), nops, nmeth) in enumerate(table):
        nprng, seed = _sc_rng(R, 5, i)
        hdr = Header(filename="x.fil", data_type="filterbank", nchans=n, foff=foff, fch1=fch1, nbits=8, tsamp=0.001, tstart=60000.0, nsamples=64)
        vecs = []
        for _ in range(3):
            v = (nprng.integers(-8, 9, n) / 4 + nprng.normal(0, 1, n)).astype(np.float32)
            for pos in {0, n - 1, min(n - 1, 65536), int(nprng.integers(n))}:
                v[pos] += np.float32(nprng.choice([-1, 1]) * 96.0)
            vecs.append(v)
        thr = 3.0
        m = rfi.RFIMask(thr, hdr, np.zeros(n, np.float32), vecs[0], vecs[1], vecs[2], np.zeros(n, np.float32), np.zeros(n, np.float32))
        meth_at = set(int(t) for t in nprng.choice(np.arange(1, nops), nmeth, replace=False))
        base = {"op": "history", "nchans": n, "fch1": fch1, "foff": foff, "threshold": thr, "operations": nops, "np_seed": seed,
                "generator": "props/c16.py _scale_history (vectors, then one operation per step drawn from the same generator)"}
        R.case(("scale", "history", n, nops), regime="scale")
        prev = np.asarray(m.chan_mask).astype(bool).copy()
        ops = []
        bands = {}
        for k in range(nops):
            if k in meth_at:
                op = ("method", ("mad", "iqrm")[int(nprng.integers(2))] if n <= 65537 else "mad")
            elif k % 3 == 2:
                op = ("funcn", int(nprng.integers(6)))
            else:
                op = ("mask", _sc_ranges(nprng, kinds[int(nprng.integers(len(kinds)))], fch1, foff, n))
            ops.append(op)
            case = dict(base, step=k, last_ops=ops[-6:], masked_before=int(prev.sum()))
            R.tick(case)
            try:
                if op[0] == "mask":
                    m.apply_mask(op[1])
                elif op[0] == "method":
                    m.apply_method(op[1])
                else:
                    m.apply_funcn(custom_fn(op[1], n))
            except Exception as e:  # noqa: BLE001
                R.fail("scale-history-raises", f"an RFIMask operation raised {type(e).__name__} in a long history / on many channels", dict(case, error=str(e)[:200]))
                break
            cur = np.asarray(m.chan_mask).astype(bool).copy()
            user, st, cust = (np.asarray(a).astype(bool) for a in (m.user_mask, m.stats_mask, m.custom_mask))
            if cur.shape != (n,) or np.any(prev & ~cur):
                R.fail("scale-monotone", "an operation of a long history removed a channel from chan_mask", dict(case, removed=np.where(prev & ~cur)[0][:8].tolist() if cur.shape == (n,) else None))
                break
            if np.any((user | st | cust) & ~cur):
                R.fail("scale-covers", "in a long history chan_mask does not contain user_mask | stats_mask | custom_mask", dict(case, missing=np.where((user | st | cust) & ~cur)[0][:8].tolist()))
                break
            if op[0] == "mask":
                comp, exp = user, _sc_user(fch1, foff, n, op[1])
            elif op[0] == "funcn":
                comp, exp = cust, o_custom(op[1], n, prev)
            else:
                comp, exp = st, None
                if op[1] not in bands:
                    lo = np.zeros(n, bool)
                    hi = np.zeros(n, bool)
                    fr = False
                    for v in vecs:
                        a, b, c = (_sc_o_mad if op[1] == "mad" else _sc_o_iqrm)(v, thr)
                        lo |= a
                        hi |= b
                        fr = fr or c
                    bands[op[1]] = (lo, hi, fr)
                lo, hi, fr = bands[op[1]]
                if fr:
                    R.extra_cov["scale_decisions_not_demanded"] = R.extra_cov.get("scale_decisions_not_demanded", 0) + 1
                if not fr and (np.any(lo & ~st) or np.any(st & ~hi)):
                    R.fail(f"scale-stats-mask-{op[1]}", "in a long history / on many channels stats_mask is not the rule applied to the three statistic vectors",
                           dict(case, n_got=int(st.sum()), n_must=int(lo.sum()), n_may=int(hi.sum()), missed=np.where(lo & ~st)[0][:8].tolist(), spurious=np.where(st & ~hi)[0][:8].tolist()))
                    break
            if exp is not None and not np.array_equal(comp, exp):
                R.fail("scale-user-mask-range" if op[0] == "mask" else "scale-custom-mask",
                       "in a long history / on many channels the mask set by the operation is not the one the operation defines",
                       dict(case, n_got=int(comp.sum()), n_expected=int(exp.sum()), differ_at=np.where(comp ^ exp)[0][:8].tolist()))
                break
            if not np.array_equal(cur, prev | comp):
                R.fail("scale-union", "in a long history chan_mask after an operation is not (chan_mask before) | (mask of the operation)",
                       dict(case, differ_at=np.where(cur ^ (prev | comp))[0][:8].tolist()))
                break
            prev = cur


# ---- (f) HDF5 round trip of masks with more than 2**16 / 2**20 channels -----------------------------------------------------
def _scale_h5(R, d, rfi, Header):
    import attrs
    for i, n in enumerate((65537, (1 << 20) + 1)):
        nprng, seed = _sc_rng(R, 6, i)
        hdr = Header(filename="obs.fil", data_type="filterbank", nchans=n, foff=-0.0009765625, fch1=1500.0, nbits=8, tsamp=0.000064, tstart=58543.25,
                     nsamples=(1 << 31) + 5, source="J0534+2200", telescope="Parkes", ibeam=3, nbeams=13, dm=56.75)
        thr = 2.5
        arrs = [nprng.normal(0, 1, n).astype(np.float32) for _ in range(6)]
        for a in arrs[:4]:
            a[[0, n - 1, 65536]] = (3.0e38, -3.0e38, 1.0e-30)
        m = rfi.RFIMask(thr, hdr, *arrs)
        m.apply_mask([(1495.0, 1497.25), (1500.0 - (n - 1) / 1024.0, 1500.0 - (n - 3) / 1024.0)])
        m.apply_funcn(custom_fn(2, n))
        case = {"op": "h5", "nchans": n, "threshold": thr, "np_seed": seed, "generator": "props/c16.py _scale_h5"}
        R.tick(case)
        R.case(("scale", "h5", n), regime="scale")
        try:
            p1, p2 = os.path.join(d, f"m{i}a.h5"), os.path.join(d, f"m{i}b.h5")
            m2 = rfi.RFIMask.from_file(m.to_file(p1))
            m3 = rfi.RFIMask.from_file(m2.to_file(p2))
        except Exception as e:  # noqa: BLE001
            R.fail("scale-h5-raises", f"mask file round trip raised {type(e).__name__} for a mask with many channels", dict(case, error=str(e)[:300]))
            continue
        for gen, mm in ((1, m2), (2, m3)):
            for a in attrs.fields(rfi.RFIMask):
                v1, v2 = getattr(m, a.name), getattr(mm, a.name)
                if a.name == "header":
                    for h in attrs.fields(Header):
                        if h.name == "stream_info":
                            continue
                        x1, x2 = getattr(v1, h.name), getattr(v2, h.name)
                        if h.name == "coord":
                            ok = abs(x1.icrs.ra.deg - x2.icrs.ra.deg) < 1e-9 and abs(x1.icrs.dec.deg - x2.icrs.dec.deg) < 1e-9
                        elif h.name in ("azimuth", "zenith"):
                            ok = abs(x1.deg - x2.deg) < 1e-9
                        else:
                            ok = bool(x1 == x2)
                        if not ok:
                            R.fail("scale-h5-header-field", f"header field '{h.name}' of a mask with many channels is not reproduced by RFIMask.from_file(to_file())",
                                   dict(case, generation=gen, field=h.name, saved=str(x1), loaded=str(x2)))
                elif isinstance(v1, np.ndarray):
                    if not (isinstance(v2, np.ndarray) and v1.shape == v2.shape and v1.dtype == v2.dtype and np.array_equal(v1, v2)):
                        same_shape = isinstance(v2, np.ndarray) and v1.shape == v2.shape
                        R.fail("scale-h5-arrays", f"array '{a.name}' of a mask with many channels is not reproduced by RFIMask.from_file(to_file())",
                               dict(case, generation=gen, array=a.name, saved_shape=list(v1.shape), loaded_shape=list(np.shape(v2)), saved_dtype=str(v1.dtype),
                                    loaded_dtype=str(getattr(v2, "dtype", type(v2).__name__)), first_diff=int(np.argmax(v1 != v2)) if same_shape else None))
                elif a.name == "threshold" and float(v1) != float(v2):
                    R.fail("scale-h5-threshold", "threshold is not reproduced by RFIMask.from_file(to_file())", dict(case, generation=gen, saved=float(v1), loaded=float(v2)))
        del m, m2, m3, arrs


def scale(R: vlib.Run):
    """at-scale search: the kernel on blocks of 2**16 .. 2**24 elements and up to 2**24 channels; the two outlier rules on vectors of
    2**16 .. 2**24 (double MAD) / 2**20 (IQRM) entries; apply_channel_mask and clean_rfi on files far longer than the default gulp (gulps 16384, non-dividing, above
    65536, one sample; blocks of 2**20 .. 2**24 elements; 40000 blocks; more than 65536 channels; every depth; values at the limits of
    the sample type); histories of 1500 operations and masks of 2**16 + 1 / 2**20 + 1 channels; HDF5 round trips of such masks"""
    import shutil
    warnings.simplefilter("ignore")
    from sigpyproc.core import kernels, rfi
    from sigpyproc.header import Header
    d = os.path.join(vlib.SCRATCH, f"c16s_{os.getpid()}")
    os.makedirs(d, exist_ok=True)
    try:
        _scale_kernel(R, kernels)
        _scale_rules(R, rfi)
        _scale_files(R, d)
        _scale_clean(R, d, rfi)
        _scale_history(R, rfi, Header)
        _scale_h5(R, d, rfi, Header)
    finally:
        shutil.rmtree(d, ignore_errors=True)
