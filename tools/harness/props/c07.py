"""C07 -- streaming file-to-file transforms equal their whole-array definitions.
Proof: Props/C07.v (plan o regenerated kernels o regenerated call sites, all gulps/sub-ranges).
Correspondence: composed Gallina pipelines under vm_compute vs the data section of the files written.
Oracle: whole-array NumPy transforms on samples [start, start+nsamps), output re-read with FilReader."""
import os
import re
import shutil

import numpy as np

import filutil
import vlib

NCH = {1: 16, 2: 8, 4: 4, 8: 4, 32: 4}
TOP = {1: 1, 2: 3, 4: 15, 8: 255}
DM_K = 4.148808e3          # dispersion constant (Lorimer & Kramer), MHz^2 pc^-1 cm^3 s
DOWN_BASE = ((1, 2), (2, 1), (2, 2), (3, 1))


def indep_delays(fch1, foff, nch, dm, tsamp):
    """dispersion delays in samples relative to channel 0, from the dispersion law in float64 (not the library's helper).
    Returns (delays, margin): margin = distance of the nearest unrounded delay from a rounding boundary."""
    f = fch1 + foff * np.arange(nch, dtype=np.float64)
    t = DM_K * dm * (f ** -2.0 - float(fch1) ** -2.0) / tsamp
    return np.round(t).astype(int), float(np.abs((t - np.floor(t)) - 0.5).min())


def delays_for(fil, fch1, foff, nch, dm, tsamp):
    """independent delays (not shifted); the library's own only if a delay sits within 1e-3 of a rounding boundary (float32 vs float64)"""
    dl, margin = indep_delays(fch1, foff, nch, dm, tsamp)
    if margin < 1e-3:
        dl = fil.header.get_dmdelays(dm).astype(int)
    return dl


def reread(path):
    """(header, data (nsamps, nchans), raw data bytes) of a written file, or ('exc', msg)"""
    from sigpyproc.readers import FilReader
    try:
        f = FilReader(path)
        n = f.header.nsamples
        hdrlen = f.header.stream_info.entries[0].hdrlen
        rawlen = os.path.getsize(path) - hdrlen
        d = np.asarray(f.read_block(0, n).data).T.copy() if n > 0 else np.zeros((0, f.header.nchans))
        return f.header, d, rawlen
    except Exception as e:  # noqa: BLE001
        return "exc", f"{type(e).__name__}: {str(e)[:100]}", 0


def make_checkers(R, base, tag, out):
    """check(name, want, nbits_out, ...) and attempt(name, f, ...) for one (file, range, gulp); failure keys <name>-<tag>-<what>"""

    def check(name, want, nbits_out, params=None, tol=0, path=out, values=True):
        """want: (nsamps_out, nchans_out) array; tol: scalar or array of the same shape; values=False: depth / size / sample count only"""
        c = dict(base, **(params or {}))
        h, got, rawlen = reread(path)
        if h == "exc":
            R.fail(f"{name}-{tag}-unreadable", "output file cannot be re-read", dict(c, exc=got)); return
        if h.nbits != nbits_out:
            R.fail(f"{name}-{tag}-depth", "declared depth of the output differs from the transform's", dict(c, nbits_out=h.nbits)); return
        exp_bytes = want.shape[0] * want.shape[1] * nbits_out // 8
        if rawlen != exp_bytes or h.nsamples != want.shape[0] or h.nchans != want.shape[1]:
            R.fail(f"{name}-{tag}-size", "data section length / inferred sample count differs from what the transform defines",
                   dict(c, bytes=rawlen, expected_bytes=exp_bytes, nsamples=h.nsamples, want_nsamples=int(want.shape[0]), nchans=h.nchans))
            return
        if not values:
            return
        if got.shape != want.shape or (np.abs(got.astype(np.float64) - want.astype(np.float64)) > tol).any():
            R.fail(f"{name}-{tag}-values", "data section differs from the whole-array transform", dict(c, got=got.tolist()[:6], want=want.tolist()[:6]))

    def attempt(name, f, params=None):
        try:
            return f()
        except Exception as e:  # noqa: BLE001
            R.fail(f"{name}-{tag}-exception", "transform raised", dict(base, **(params or {}), exc=f"{type(e).__name__}: {str(e)[:100]}"))
            return None

    return check, attempt


def subband_want(sel, delays, nsub):
    """(per-sub-band sums of delay-shifted channels, the same sums of absolute values) of the selected samples"""
    nch = sel.shape[1]
    no = sel.shape[0] - int(delays.max())
    w = np.zeros((no, nsub)); wabs = np.zeros((no, nsub))
    per = nch // nsub
    for c in range(nch):
        col = sel[delays[c]:delays[c] + no, c].astype(np.float64)
        w[:, c // per] += col
        wabs[:, c // per] += np.abs(col)
    return w, wabs


def down_want(sel, nbits, tf, ff, fl):
    """(block means reduced to the output depth, tolerance) of the selected samples"""
    nsamps, nch = sel.shape
    no = nsamps // tf
    if nbits == 32:
        s64 = sel[:no * tf].astype(np.float64).reshape(no, tf, nch // ff, ff)
        w = s64.sum(axis=(1, 3)) / (tf * ff)
        # integer-valued floats: absolute 1e-4; arbitrary floats: float32 rounding of a mean accumulated in double
        tol = 1e-6 * np.maximum(1.0, np.abs(s64).sum(axis=(1, 3)) / (tf * ff)) if fl else 1e-4
        return w, tol
    grp = sel[:no * tf].reshape(no, tf, nch // ff, ff).sum(axis=(1, 3))
    return grp // (tf * ff), 0       # block means reduced to the output depth (truncation of a non-negative mean)


def zerodm_want(x, start, nsamps):
    """x[t,c] - (sum over channels of x[t,.]) * w[c] + bp[c] on the selected samples; bp = bandpass (channel means) of the WHOLE file,
    w = bp / sum(bp) -- the library takes the bandpass of the file, not of the selection"""
    x64 = x.astype(np.float64)
    sel = x64[start:start + nsamps]
    bp = x64.mean(0)
    wts = bp / bp.sum() if bp.sum() != 0 else bp
    return sel - sel.sum(1, keepdims=True) * wts + bp


def run(R: vlib.Run):
    from sigpyproc.readers import FilReader
    R.rule = ("synthetic files at depths 1,2,4,8,32 (batch_size 1 or 200 for the multi-file extractions) plus a 32-bit file of arbitrary float values (negative, fractional, 1e6); "
              "transforms invert_freq, apply_channel_mask, extract_samps, extract_chans (unsorted lists of 1, 2, all channels; default list), "
              "extract_bands (aligned / unaligned chanstart, chanpersub given or defaulted), downsample (tfactor,ffactor incl. ffactor=nchans, 3x2, tfactor>gulp), "
              "subband (dm,nsub incl. nsub=nchans; delays from the dispersion law in float64), remove_zerodm (incl. pedestal data at every depth, sub-ranges); "
              "every gulp in a spread incl. 1, non-dividing, > range; sub-ranges; start/nsamps left to their defaults; "
              "distinct = (transform, depth, params, start, nsamps, gulp); non-trivial = more than one block")
    R.trusted += ["Coq 8.16.1 kernel + vm_compute", "tools/py2coq (kernels, plan arithmetic, call sites regenerated each run)",
                  "hand glue of Model/C07_pipe.v tied by correspondence", "FileWriter depth conversion is C04; here the written bytes are re-read"]
    R.assume += ["integer-valued samples (float32 arithmetic exact)",
                 "float32 files: finite sample values with |x| <= 1e6 (the oracle's arbitrary-valued file; decimation and sub-band sums to float32 rounding)",
                 "nsamps >= 1 and, for sub-banding, maximum delay < nsamps (read_plan refuses the others with ValueError)",
                 "extract_bands: chanpersub >= 2 (the library refuses chanpersub = 1, i.e. single-channel bands, with ValueError)",
                 "extract_chans: lists of distinct in-range channels (a list with SOME channels out of range passes the library's range check: negative numbers wrap, too large ones raise IndexError after files were created)",
                 "zero-DM removal of a sub-range subtracts/adds the bandpass of the whole file (the library's definition); 'within one quantisation level' allows 1e-3 of float32 rounding on top"]
    R.prove("Props/C07.v")
    R.need(["Model/C07_pipe.vo"])
    rng = R.rng
    nprng = np.random.default_rng(R.seed + 7)
    d = os.path.join(vlib.SCRATCH, f"c07_{os.getpid()}")
    os.makedirs(d, exist_ok=True)
    corr = []          # invert, downsample, subband, zero-DM pipelines
    corr2 = []         # mask, samps, chans, bands pipelines
    FCH1, TSAMP = 400.0, 0.001
    try:
        N0 = 7 if R.tier == "quick" else 10
        # fl: the 32-bit file holds arbitrary float32 values instead of integers 0..255 (oracle only; the models are over the integers)
        for nbits, fl in ((1, False), (2, False), (4, False), (8, False), (32, False), (32, True)):
            nch = NCH[nbits]
            N = max(N0, 12) if nch >= 8 else N0        # max delay at dm=0.12 is 4-5 samples for 8/16 channels: gulp >= 2*maxdelay must stay < N
            foff = -20.0 if nch <= 8 else -10.0
            hi = 1 << min(nbits, 8)
            if fl:
                x = nprng.normal(0.0, 300.0, (N, nch)).astype(np.float32)
                x[0, 0] = -1.0e6; x[1, 1] = 70000.25; x[2, nch - 1] = 0.125; x[3, 0] = -0.5
            else:
                x = nprng.integers(0, hi, (N, nch))
            vtag = "f" if fl else ""
            paths = filutil.write_fil_set(os.path.join(d, f"in{nbits}{vtag}"), x, nbits, [N // 2] if nbits in (8, 2) else [], fch1=FCH1, foff=foff, tsamp=TSAMP)
            fil = FilReader(paths)
            out = os.path.join(d, "out.fil")
            ranges = [(0, N), (0, N - 2), (1, N - 1), (2, 3), (N - 1, 1)] if R.tier == "quick" else [(s, n) for s in range(N) for n in range(1, N - s + 1)]
            if fl:      # the arbitrary-valued file is about casts of the values, not about the plan: fewer ranges and gulps
                ranges = [(0, N), (1, N - 1), (2, 3)] if R.tier == "quick" else [(s, n) for s in range(0, N, 2) for n in range(1, N - s + 1, 2)]
            for start, nsamps in ranges:
                sel = x[start:start + nsamps]
                gulps = sorted(set([1, 2, 3, max(1, nsamps - 1), nsamps, nsamps + 3]))
                if fl:
                    gulps = sorted(set([2, max(1, nsamps - 1), nsamps + 3]))
                for gulp in gulps:
                    base = {"nbits": nbits, "nchans": nch, "N": N, "start": start, "nsamps": nsamps, "gulp": gulp}
                    if fl:
                        base["float_values"] = True
                    multi = gulp < nsamps
                    tag = "full" if (start, nsamps) == (0, N) else "sub"
                    check, attempt = make_checkers(R, base, tag, out)
                    kb = (nbits, fl)

                    def corr_file(api, path, ps):
                        """queue (pipeline, input, plan, parameters, integer samples of the file actually written) for the vm_compute comparison"""
                        h2, got2, _ = reread(path)
                        if h2 != "exc":
                            corr2.append((api, x, gulp, start, nsamps, ps, got2.astype(np.int64).ravel().tolist()))

                    def corr_files(api, paths, ps):
                        """the same for a whole multi-file call: the files of the returned list, concatenated in that order (model: batched files)"""
                        allv = []
                        for p_ in paths:
                            h2, got2, _ = reread(p_)
                            if h2 == "exc":
                                return
                            allv += got2.astype(np.int64).ravel().tolist()
                        corr2.append((api, x, gulp, start, nsamps, ps, allv))

                    # --- invert_freq
                    R.case(("invert", kb, start, nsamps, gulp), nontrivial=multi, regime="invert_freq")
                    if attempt("invert_freq", lambda: fil.invert_freq(outfile_name=out, gulp=gulp, start=start, nsamps=nsamps, quiet=True)):
                        check("invert_freq", sel[:, ::-1], nbits)
                        if nbits == 8:
                            corr.append(("invert", x, gulp, start, nsamps, [], np.fromfile(out, dtype=np.uint8)[-sel.size:].tolist() if sel.size else []))
                    # --- channel mask
                    mask = nprng.integers(0, 2, nch).astype(bool)
                    mv = int(nprng.integers(0, hi))
                    if nbits == 32 and gulp % 2 == 1:      # float files take any float32 fill: fractional, above 255, negative
                        mv = float(rng.choice([2.5, 1000.0, -3.0, 0.125, 65536.5]))
                    R.case(("mask", kb, start, nsamps, gulp, tuple(mask.tolist()), mv), nontrivial=multi, regime="mask")
                    if attempt("apply_channel_mask", lambda: fil.apply_channel_mask(mask, mv, outfile_name=out, gulp=gulp, start=start, nsamps=nsamps, quiet=True)):
                        w = sel.astype(np.float64); w[:, mask] = mv
                        check("apply_channel_mask", w, nbits, {"mask": mask.tolist(), "mask_value": mv})
                        if nbits == 8:
                            corr_file("mask", out, [mv] + mask.astype(int).tolist())
                    # --- extract_samps
                    R.case(("samps", kb, start, nsamps, gulp), nontrivial=multi, regime="extract_samps")
                    if attempt("extract_samps", lambda: fil.extract_samps(start, nsamps, outfile_name=out, gulp=gulp, quiet=True)):
                        check("extract_samps", sel, nbits)
                        if nbits == 8:
                            corr_file("samps", out, [])
                    # --- extract_chans: 1, 2 or all channels in arbitrary (unsorted) order; file i of the returned list is channel chans[i]
                    chans = rng.sample(range(nch), rng.choice([1, 2, 2, nch]))
                    R.case(("chans", kb, start, nsamps, gulp, tuple(chans)), nontrivial=multi, regime="extract_chans")
                    bsz = rng.choice([1, 200])
                    names = attempt("extract_chans", lambda: fil.extract_chans(chans, outfile_base=os.path.join(d, "ch"), batch_size=bsz, gulp=gulp, start=start, nsamps=nsamps, quiet=True),
                                    {"chans": chans})
                    if names is not None:
                        if len(names) != len(chans):
                            R.fail(f"extract_chans-{tag}-count", "number of channel files differs from the number of channels asked for", dict(base, chans=chans, files=len(names)))
                        for cnum, nm in zip(chans, names):
                            check("extract_chans", sel[:, [cnum]], 32, {"chan": cnum, "chans": chans}, path=nm)
                            if nbits == 8:
                                corr_file("chans", nm, [cnum])
                        if nbits == 8 and len(names) == len(chans):
                            corr_files("chansfiles", names, [bsz] + list(chans))
                    if gulp == 2:          # the default channel list: every channel, in order
                        R.case(("chans-all", kb, start, nsamps, gulp), nontrivial=multi, regime="extract_chans")
                        bsz = rng.choice([3, 200])
                        names = attempt("extract_chans", lambda: fil.extract_chans(outfile_base=os.path.join(d, "ca"), batch_size=bsz, gulp=gulp, start=start, nsamps=nsamps, quiet=True),
                                        {"chans": None})
                        if names is not None:
                            if len(names) != nch:
                                R.fail(f"extract_chans-{tag}-count", "number of channel files differs from the number of channels", dict(base, chans=None, files=len(names)))
                            for cnum, nm in zip(range(nch), names):
                                check("extract_chans", sel[:, [cnum]], 32, {"chan": cnum, "chans": None}, path=nm)
                            if nbits == 8 and len(names) == nch:
                                corr_files("chansfiles", names, [bsz] + list(range(nch)))

                    # --- extract_bands
                    def bands_case(cstart, nb, cps, omit_cps=False):
                        nbands = 1 if omit_cps else nb // cps
                        width = nb if omit_cps else cps
                        if (width * nbits) % 8:
                            return
                        prm = {"chanstart": cstart, "nchans_sel": nb, "chanpersub": None if omit_cps else cps}
                        R.case(("bands", kb, start, nsamps, gulp, cstart, nb, prm["chanpersub"]), nontrivial=multi, regime="extract_bands")
                        kw = {} if omit_cps else {"chanpersub": cps}
                        bsz = rng.choice([1, 200])
                        names = attempt("extract_bands", lambda: fil.extract_bands(cstart, nb, outfile_base=os.path.join(d, "bd"), batch_size=bsz, gulp=gulp, start=start, nsamps=nsamps, quiet=True, **kw), prm)
                        if names is not None:
                            if len(names) != nbands:
                                R.fail(f"extract_bands-{tag}-count", "number of band files differs from nchans/chanpersub", dict(base, **prm, files=len(names)))
                            for ib, nm in enumerate(names[:nbands]):
                                c0 = cstart + ib * width
                                check("extract_bands", sel[:, c0:c0 + width], nbits, dict(prm, band=ib), path=nm)
                                if nbits == 8:
                                    corr_file("bands", nm, [cstart, width, ib])
                            if nbits == 8 and len(names) == nbands:
                                corr_files("bandsfiles", names, [bsz, cstart, nb, width])

                    cps = max(2, 8 // nbits)           # narrowest band whose output sample is a whole number of bytes (chanpersub = 1 is refused by the library)
                    cstart = rng.choice([0, cps]) if nch >= 2 * cps else 0
                    nb = rng.choice([cps, nch - cstart]) if (nch - cstart) % cps == 0 else cps
                    if (nb * nbits) % 8 == 0 and (cps * nbits) % 8 == 0:
                        bands_case(cstart, nb, cps)
                    extra = rng.choice(["unaligned", "defaulted", "three" if nbits >= 8 else "unaligned"])
                    if extra == "unaligned":           # chanstart not a multiple of chanpersub
                        bands_case(rng.randrange(1, cps), cps, cps)
                    elif extra == "three":             # (chanstart, nchans, chanpersub) = (1, 3, 3)
                        bands_case(1, 3, 3)
                    else:                              # chanpersub left to its default (= nchans): one band
                        bands_case(rng.choice([0, 1]), rng.choice([2, 3]) if nbits >= 8 else cps, None, omit_cps=True)
                    # --- downsample
                    pairs = list(DOWN_BASE) + rng.sample([(1, nch), (4, 4), (3, 2), (5, 1), (2, nch // 2)], 1)
                    for tf, ff in dict.fromkeys(pairs):
                        if nch % ff or ((nch // ff) * nbits) % 8:
                            continue
                        R.case(("down", kb, start, nsamps, gulp, tf, ff), nontrivial=multi, regime="downsample")
                        if attempt("downsample", lambda: fil.downsample(tfactor=tf, ffactor=ff, outfile_name=out, gulp=gulp, start=start, nsamps=nsamps, quiet=True), {"tfactor": tf, "ffactor": ff}):
                            w, tol = down_want(sel, nbits, tf, ff, fl)
                            check("downsample", w, nbits, {"tfactor": tf, "ffactor": ff}, tol=tol)
                            if nbits == 8:
                                h2, got2, _ = reread(out)
                                if h2 != "exc":
                                    corr.append(("down", x, gulp, start, nsamps, [tf, ff], got2.astype(np.int64).ravel().tolist()))
                    # --- subband
                    for dm in (0.0, 0.12):
                        delays = delays_for(fil, FCH1, foff, nch, dm, TSAMP)
                        md = int(delays.max())
                        if md >= nsamps:
                            continue
                        for nsub in ((1, 2, nch) if gulp % 2 else (1, 2)):
                            if nch % nsub:
                                continue
                            R.case(("subband", kb, start, nsamps, gulp, md, nsub), nontrivial=multi or md > 0, regime="subband")
                            if attempt("subband", lambda: fil.subband(dm, nsub, outfile_name=out, gulp=gulp, start=start, nsamps=nsamps, quiet=True), {"dm": dm, "nsub": nsub}):
                                w, wabs = subband_want(sel, delays, nsub)
                                check("subband", w, 32, {"dm": dm, "nsub": nsub, "delays": delays.tolist()}, tol=1e-6 * wabs if fl else 0)
                                if nbits == 8:
                                    h2, got2, _ = reread(out)
                                    if h2 != "exc":
                                        corr.append(("subband", x, gulp, start, nsamps, [md, nsub] + delays.tolist(), got2.astype(np.int64).ravel().tolist()))
                    # --- zero-DM removal (full range only: the bandpass it adds back is that of the whole file)
                    if nbits in (8, 32) and not fl and (start, nsamps) == (0, N):
                        R.case(("zerodm", nbits, gulp), nontrivial=multi, regime="remove_zerodm")
                        if attempt("remove_zerodm", lambda: fil.remove_zerodm(outfile_name=out, gulp=gulp, start=start, nsamps=nsamps, quiet=True)):
                            bp = sel.mean(0)
                            wts = bp / bp.sum() if bp.sum() != 0 else bp
                            w = sel - sel.sum(1, keepdims=True) * wts + bp
                            if nbits == 32 or (w.min() >= 0 and w.max() <= 255):
                                check("remove_zerodm", w, nbits, tol=1.0 if nbits == 8 else 1e-3)
                            else:
                                check("remove_zerodm", w, nbits, values=False)
                    # --- zero-DM data flow against the Gallina pipeline: the real method on a float32 file, any sub-range, with the bandpass
                    #     replaced by integer weights summing to 1 (so chanwts = bpass exactly and every float32 operation is exact)
                    if nbits == 32 and not fl:
                        bpw = nprng.integers(-3, 4, nch); bpw[-1] = 1 - int(bpw[:-1].sum())
                        class _BP:  # noqa: E306
                            data = bpw.astype(np.float32)
                        fil.bandpass = lambda **kw: _BP
                        try:
                            R.case(("zerodm-flow", start, nsamps, gulp), nontrivial=multi, regime="remove_zerodm")
                            if attempt("remove_zerodm", lambda: fil.remove_zerodm(outfile_name=out, gulp=gulp, start=start, nsamps=nsamps, quiet=True)):
                                check("remove_zerodm", sel, nbits, values=False)
                                h3, got3, _ = reread(out)
                                if h3 != "exc":
                                    corr.append(("zerodm", x, gulp, start, nsamps, bpw.tolist() + bpw.tolist(), np.rint(got3).astype(np.int64).ravel().tolist()))
                        finally:
                            del fil.bandpass
            # ---- start / nsamps left to their defaults (nsamps=None: to the end of the data; start omitted: from the first sample)
            for s in (0, 2):
                kw = {} if s == 0 else {"start": s}
                sel = x[s:]
                gulp = 3
                base = {"nbits": nbits, "nchans": nch, "N": N, "start": s if s else "default", "nsamps": "default", "gulp": gulp}
                if fl:
                    base["float_values"] = True
                tag = "full" if s == 0 else "sub"
                check, attempt = make_checkers(R, base, tag, out)
                R.case(("defaults", (nbits, fl), s), regime="default_range")
                if attempt("invert_freq", lambda: fil.invert_freq(outfile_name=out, gulp=gulp, quiet=True, **kw)):
                    check("invert_freq", sel[:, ::-1], nbits)
                mask = nprng.integers(0, 2, nch).astype(bool)
                if attempt("apply_channel_mask", lambda: fil.apply_channel_mask(mask, 1, outfile_name=out, gulp=gulp, quiet=True, **kw)):
                    w = sel.astype(np.float64); w[:, mask] = 1
                    check("apply_channel_mask", w, nbits, {"mask": mask.tolist(), "mask_value": 1})
                chans = rng.sample(range(nch), 2)
                names = attempt("extract_chans", lambda: fil.extract_chans(chans, outfile_base=os.path.join(d, "ch"), gulp=gulp, quiet=True, **kw), {"chans": chans})
                for cnum, nm in zip(chans, names or []):
                    check("extract_chans", sel[:, [cnum]], 32, {"chan": cnum, "chans": chans}, path=nm)
                cps = max(2, 8 // nbits)
                names = attempt("extract_bands", lambda: fil.extract_bands(0, 2 * cps, chanpersub=cps, outfile_base=os.path.join(d, "bd"), gulp=gulp, quiet=True, **kw), {"chanstart": 0, "nchans_sel": 2 * cps, "chanpersub": cps})
                for ib, nm in enumerate(names or []):
                    check("extract_bands", sel[:, ib * cps:(ib + 1) * cps], nbits, {"band": ib, "chanpersub": cps}, path=nm)
                if attempt("downsample", lambda: fil.downsample(tfactor=2, outfile_name=out, gulp=gulp, quiet=True, **kw), {"tfactor": 2, "ffactor": 1}):
                    w, tol = down_want(sel, nbits, 2, 1, fl)
                    check("downsample", w, nbits, {"tfactor": 2, "ffactor": 1}, tol=tol)
                delays = delays_for(fil, FCH1, foff, nch, 0.12, TSAMP)
                if attempt("subband", lambda: fil.subband(0.12, 2, outfile_name=out, gulp=gulp, quiet=True, **kw), {"dm": 0.12, "nsub": 2}):
                    w, wabs = subband_want(sel, delays, 2)
                    check("subband", w, 32, {"dm": 0.12, "nsub": 2, "delays": delays.tolist()}, tol=1e-6 * wabs if fl else 0)
                if attempt("remove_zerodm", lambda: fil.remove_zerodm(outfile_name=out, gulp=gulp, quiet=True, **kw)):
                    check("remove_zerodm", sel, nbits, values=False)
        # ---- zero-DM removal on pedestal data: every value of the result stays inside the representable range, so the value clause applies
        #      at every depth (at 1 bit "within one level" is no constraint: depth / size / sample count only) and on every sub-range
        for nbits in (1, 2, 4, 8, 32):
            nch = NCH[nbits]
            N = N0
            if nbits == 32:
                x = (100.0 + 40.0 * nprng.random((N, nch))).astype(np.float32)       # fractional
            else:
                lo, span = {1: (0, 2), 2: (1, 2), 4: (6, 4), 8: (100, 40)}[nbits]
                x = lo + nprng.integers(0, span, (N, nch))
            paths = filutil.write_fil_set(os.path.join(d, f"zd{nbits}"), x, nbits, [N // 2] if nbits in (8, 2) else [], fch1=FCH1, foff=-20.0, tsamp=TSAMP)
            fil = FilReader(paths)
            out = os.path.join(d, "out_zd.fil")
            ranges = [(0, N), (0, N - 2), (1, N - 1), (2, 3), (N - 1, 1)] if R.tier == "quick" else [(s, n) for s in range(N) for n in range(1, N - s + 1, 2)]
            for start, nsamps in ranges:
                for gulp in sorted(set([1, 2, 3, max(1, nsamps - 1), nsamps, nsamps + 3])):
                    base = {"nbits": nbits, "nchans": nch, "N": N, "start": start, "nsamps": nsamps, "gulp": gulp, "pedestal": True, "x": x.tolist()}
                    tag = "full" if (start, nsamps) == (0, N) else "sub"
                    check, attempt = make_checkers(R, base, tag, out)
                    R.case(("zerodm-ped", nbits, start, nsamps, gulp), nontrivial=gulp < nsamps, regime="remove_zerodm_pedestal")
                    if attempt("remove_zerodm", lambda: fil.remove_zerodm(outfile_name=out, gulp=gulp, start=start, nsamps=nsamps, quiet=True)):
                        w = zerodm_want(x, start, nsamps)
                        if nbits == 32:
                            check("remove_zerodm", w, nbits, tol=1e-3)
                        else:
                            inrange = w.min() >= 0 and w.max() <= TOP[nbits]
                            check("remove_zerodm", w, nbits, tol=1.0 + 1e-3, values=bool(inrange))
        # ---- sub-banding on an ascending band (negative delays are referred to the earliest channel) -----------
        N = N0
        for nbits in (8, 32):
            nch = NCH[nbits]
            x = nprng.integers(0, 1 << min(nbits, 8), (N, nch))
            paths = filutil.write_fil_set(os.path.join(d, f"asc{nbits}"), x, nbits, [], fch1=320.0, foff=20.0, tsamp=0.001)
            fil = FilReader(paths)
            out = os.path.join(d, "out_asc.fil")
            for dm in (0.12, -0.12):
                dl = delays_for(fil, 320.0, 20.0, nch, dm, 0.001)
                delays = dl - min(0, int(dl.min()))
                md = int(delays.max())
                for start, nsamps in ((0, N), (1, N - 1)):
                    if md >= nsamps:
                        continue
                    sel = x[start:start + nsamps]
                    for gulp in (1, 2, nsamps, nsamps + 3):
                        for nsub in (1, 2):
                            R.case(("subband-asc", nbits, start, nsamps, gulp, md, nsub, dm), nontrivial=md > 0, regime="subband_ascending")
                            try:
                                fil.subband(dm, nsub, outfile_name=out, gulp=gulp, start=start, nsamps=nsamps, quiet=True)
                            except Exception as e:  # noqa: BLE001
                                R.fail("subband-ascending-exception", "subband raised on an ascending band", {"nbits": nbits, "dm": dm, "gulp": gulp, "exc": str(e)[:100]}); continue
                            no = nsamps - md
                            w = np.zeros((no, nsub)); per = nch // nsub
                            for c in range(nch):
                                w[:, c // per] += sel[delays[c]:delays[c] + no, c]
                            # declared depth / byte length / sample count (keys subband-ascending-depth, -size, -unreadable)
                            make_checkers(R, {"nbits": nbits, "dm": dm, "gulp": gulp, "start": start, "nsamps": nsamps, "nsub": nsub, "delays": dl.tolist()},
                                          "ascending", out)[0]("subband", w, 32, values=False)
                            h, got, rawlen = reread(out)
                            if h == "exc" or got.shape != w.shape or not np.array_equal(got.astype(np.float64), w):
                                R.fail("subband-ascending-values", "sub-band sums wrong when the raw delays are negative",
                                       {"nbits": nbits, "dm": dm, "gulp": gulp, "start": start, "nsamps": nsamps, "nsub": nsub, "delays": dl.tolist()})
        # ---- correspondence --------------------------------------------------------------------
        rng.shuffle(corr)
        rng.shuffle(corr2)
        corr = corr[: (400 if R.tier == "quick" else 2000)] + corr2[: (400 if R.tier == "quick" else 1500)]
        per = 200
        code = {"invert": 0, "down": 1, "subband": 2, "zerodm": 3, "mask": 4, "samps": 5, "chans": 6, "bands": 7, "chansfiles": 8, "bandsfiles": 9}
        for si in range(0, len(corr), per):
            sh = corr[si:si + per]
            rows = [f"({code[a]}, {vlib.zlist(x.ravel())}, {x.shape[1]}, {x.shape[0]}, ({g}, {s}, {n}), {vlib.zlist(p)}, {vlib.zlist(o)})" for a, x, g, s, n, p, o in sh]
            v = ["From Coq Require Import ZArith List Bool.", "Require Import SPP.Base.Rt SPP.Model.C07_pipe.", "Import ListNotations.", "Open Scope Z_scope.",
                 "Definition cases : list (Z * list Z * Z * Z * (Z * Z * Z) * list Z * list Z) := [", ";\n".join(rows), "].",
                 "Definition ok (c : Z * list Z * Z * Z * (Z * Z * Z) * list Z * list Z) : bool :=",
                 "  let '(api, xs, nch, N, (gulp, start, nsamps), ps, out) := c in list_eqb (pipe7_eval api xs nch N gulp start nsamps ps) out.",
                 "Definition idx := map fst (filter (fun p => negb (ok (snd p))) (combine (seq 0 (length cases)) cases)).",
                 "Eval vm_compute in (length cases, idx)."]
            rc, outp = vlib.coq_run(f"c07_{si // per}", "\n".join(v), timeout=600)
            vals = vlib.parse_eval(outp)
            if rc != 0 or not vals:
                R.red.append("correspondence: Corr/c07 did not evaluate: " + outp[-400:])
                continue
            nums = [int(z) for z in re.findall(r"(\d+)%nat", vals[0])]
            R.extra_cov["traces_validated_against_impl"] = R.extra_cov.get("traces_validated_against_impl", 0) + (nums[0] if nums else 0)
            for bi in nums[1:4]:
                a, x, g, s, n, p, o = sh[bi]
                R.disagree("composed Gallina pipeline and the file written by Filterbank." + a + " differ",
                           {"api": a, "x": x.tolist(), "gulp": g, "start": s, "nsamps": n, "params": p, "impl": o})
    finally:
        shutil.rmtree(d, ignore_errors=True)


def scale(R: vlib.Run):
    """at-scale search: written blocks of more than 2**20 / 2**22 elements at every output depth, ranges beyond the default gulp"""
    from sigpyproc.readers import FilReader
    nprng = np.random.default_rng(R.seed + 707)
    rng = R.rng
    d = os.path.join(vlib.SCRATCH, f"c07s_{os.getpid()}")
    os.makedirs(d, exist_ok=True)
    try:
        for nbits, nch, N, splits in ((1, 128, 40000, [25000]), (2, 64, 40000, []), (4, 64, 70000, []), (8, 256, 20000, [9000]), (32, 64, 40000, [])):
            hi = min(1 << nbits, 64)
            x = nprng.integers(0, hi, (N, nch), dtype=np.uint8)
            paths = filutil.write_fil_set(os.path.join(d, f"in{nbits}"), x, nbits, splits, fch1=400.0, foff=-200.0 / nch, tsamp=0.001)
            fil = FilReader(paths)
            out = os.path.join(d, "out.fil")
            # pedestal copy for zero-DM removal (results stay inside 0..255, so the value clause applies at 8 bits)
            zfil = zx = None
            zpaths = []
            if nbits in (8, 32):
                zx = (20 + nprng.integers(0, 44, (N, nch))).astype(np.uint8)
                zpaths = filutil.write_fil_set(os.path.join(d, f"zd{nbits}"), zx, nbits, splits, fch1=400.0, foff=-200.0 / nch, tsamp=0.001)
                zfil = FilReader(zpaths)
            for start, nsamps in ((0, N), (777, N - 3000)):
                sel = x[start:start + nsamps]
                for gulp in (16384, 65536, 5000):
                    base = {"nbits": nbits, "nchans": nch, "N": N, "splits": splits, "start": start, "nsamps": nsamps, "gulp": gulp,
                            "data": f"numpy.random.default_rng({R.seed + 707}) stream, see props/c07.py scale()"}
                    R.tick(base)
                    R.case(("scale", nbits, start, nsamps, gulp), regime="scale")

                    def check(name, want, nbits_out, path=out, tol=0):
                        h, got, rawlen = reread(path)
                        if h == "exc":
                            R.fail(f"scale-{name}", "output file cannot be re-read at scale", dict(base, exc=got)); return
                        exp_bytes = want.shape[0] * want.shape[1] * nbits_out // 8
                        if h.nbits != nbits_out or rawlen != exp_bytes or h.nsamples != want.shape[0] or got.shape != want.shape:
                            R.fail(f"scale-{name}", "output size / depth at scale differs from what the transform defines",
                                   dict(base, bytes=rawlen, expected_bytes=exp_bytes, nsamples=h.nsamples, want_nsamples=int(want.shape[0]))); return
                        bad = np.abs(got.astype(np.float64) - want) > tol
                        if bad.any():
                            t, c = np.argwhere(bad)[0]
                            R.fail(f"scale-{name}", "data section at scale differs from the whole-array transform",
                                   dict(base, first_bad_sample=int(t), first_bad_chan=int(c), n_bad=int(bad.sum())))

                    def attempt(name, f):
                        try:
                            f(); return True
                        except Exception as e:  # noqa: BLE001
                            R.fail(f"scale-{name}", "transform raised at scale", dict(base, exc=f"{type(e).__name__}: {str(e)[:100]}")); return False

                    if attempt("invert_freq", lambda: fil.invert_freq(outfile_name=out, gulp=gulp, start=start, nsamps=nsamps, quiet=True)):
                        check("invert_freq", sel[:, ::-1].astype(np.float64), nbits)
                    mask = nprng.integers(0, 2, nch).astype(bool); mv = int(nprng.integers(0, hi))
                    if attempt("apply_channel_mask", lambda: fil.apply_channel_mask(mask, mv, outfile_name=out, gulp=gulp, start=start, nsamps=nsamps, quiet=True)):
                        w = sel.astype(np.float64); w[:, mask] = mv
                        check("apply_channel_mask", w, nbits)
                    if attempt("extract_samps", lambda: fil.extract_samps(start, nsamps, outfile_name=out, gulp=gulp, quiet=True)):
                        check("extract_samps", sel.astype(np.float64), nbits)
                    if gulp == 16384:
                        names = []
                        if attempt("extract_bands", lambda: names.extend(fil.extract_bands(0, nch, chanpersub=nch // 2, outfile_base=os.path.join(d, "bd"), gulp=gulp, start=start, nsamps=nsamps, quiet=True))):
                            for ib, nm in enumerate(names[:2]):
                                check("extract_bands", sel[:, ib * (nch // 2):(ib + 1) * (nch // 2)].astype(np.float64), nbits, path=nm)
                        tf, ff = 2, 2
                        if attempt("downsample", lambda: fil.downsample(tfactor=tf, ffactor=ff, outfile_name=out, gulp=gulp, start=start, nsamps=nsamps, quiet=True)):
                            no = nsamps // tf
                            grp = sel[:no * tf].astype(np.int64).reshape(no, tf, nch // ff, ff).sum(axis=(1, 3))
                            check("downsample", (grp / (tf * ff)) if nbits == 32 else (grp // (tf * ff)).astype(np.float64), nbits, tol=1e-4 if nbits == 32 else 0)
                        if nbits in (8, 32):
                            dm = next((float(v) for v in np.linspace(0.5, 400, 200) if 500 < int(fil.header.get_dmdelays(float(v)).max()) < 2000), 1.0)
                            delays = fil.header.get_dmdelays(dm).astype(int); md = int(delays.max()); nsub = 4
                            if attempt("subband", lambda: fil.subband(dm, nsub, outfile_name=out, gulp=gulp, start=start, nsamps=nsamps, quiet=True)):
                                no = nsamps - md
                                w = np.zeros((no, nsub)); per = nch // nsub
                                for c in range(nch):
                                    w[:, c // per] += sel[delays[c]:delays[c] + no, c]
                                check("subband", w, 32)
                        # channel extraction at scale: strided columns of a large block written as 32-bit time series, unsorted list
                        chans = rng.sample(range(nch), 3)
                        names = []
                        if attempt("extract_chans", lambda: names.extend(fil.extract_chans(chans, outfile_base=os.path.join(d, "ch"), gulp=gulp, start=start, nsamps=nsamps, quiet=True))):
                            if len(names) != len(chans):
                                R.fail("scale-extract_chans", "number of channel files at scale differs from the number of channels asked for", dict(base, chans=chans, files=len(names)))
                            for cnum, nm in zip(chans, names):
                                check("extract_chans", sel[:, [cnum]].astype(np.float64), 32, path=nm)
                        # zero-DM removal at scale (the output buffer is reused from block to block): pedestal data, bandpass of the whole file
                        if zfil is not None:
                            if attempt("remove_zerodm", lambda: zfil.remove_zerodm(outfile_name=out, gulp=gulp, start=start, nsamps=nsamps, quiet=True)):
                                w = zerodm_want(zx, start, nsamps)
                                if nbits == 32:
                                    check("remove_zerodm", w, nbits, tol=1e-3)
                                elif w.min() >= 0 and w.max() <= 255:
                                    check("remove_zerodm", w, nbits, tol=1.0 + 1e-3)
                                else:
                                    check("remove_zerodm", np.clip(w, 0, 255), nbits, tol=256.0)      # size / depth only
            del fil, zfil
            for p in paths + zpaths:
                os.remove(p)
    finally:
        shutil.rmtree(d, ignore_errors=True)
