"""C07 -- streaming file-to-file transforms equal their whole-array definitions.
Proof: Props/C07.v (plan o regenerated kernels o regenerated call sites, all gulps/sub-ranges).
Correspondence: composed Gallina pipelines under vm_compute vs the data section of the files written.
Oracle: whole-array NumPy transforms on samples [start, start+nsamps), output re-read with FilReader."""
import os
import re
import shutil

import numpy as np

import filutil
import vlib

NCH = {1: 8, 2: 8, 4: 4, 8: 4, 32: 4}


def reread(path):
    """(header, data (nsamps, nchans), raw data bytes) of a written file, or ('exc', msg)"""
    from sigpyproc.readers import FilReader
    try:
        f = FilReader(path)
        n = f.header.nsamples
        hdrlen = f.header.stream_info.entries[0].hdrlen
        rawlen = os.path.getsize(path) - hdrlen
        d = np.asarray(f.read_block(0, n).data).T.copy() if n > 0 else np.zeros((0, f.header.nchans))
        return f.header, d, rawlen
    except Exception as e:  # noqa: BLE001
        return "exc", f"{type(e).__name__}: {str(e)[:100]}", 0


def run(R: vlib.Run):
    from sigpyproc.readers import FilReader
    R.rule = ("synthetic files at depths 1,2,4,8,32 (batch_size 1 or 200 for the multi-file extractions); transforms invert_freq, apply_channel_mask, extract_samps, extract_chans, extract_bands, "
              "downsample (tfactor,ffactor), subband (dm,nsub), remove_zerodm; every gulp in a spread incl. 1, non-dividing, > range; sub-ranges; "
              "distinct = (transform, depth, params, start, nsamps, gulp); non-trivial = more than one block")
    R.trusted += ["Coq 8.16.1 kernel + vm_compute", "tools/py2coq (kernels, plan arithmetic, call sites regenerated each run)",
                  "hand glue of Model/C07_pipe.v tied by correspondence", "FileWriter depth conversion is C04; here the written bytes are re-read"]
    R.assume += ["integer-valued samples (float32 arithmetic exact)"]
    R.prove("Props/C07.v")
    R.need(["Model/C07_pipe.vo"])
    rng = R.rng
    nprng = np.random.default_rng(R.seed + 7)
    d = os.path.join(vlib.SCRATCH, f"c07_{os.getpid()}")
    os.makedirs(d, exist_ok=True)
    corr = []
    try:
        N = 7 if R.tier == "quick" else 10
        for nbits in (1, 2, 4, 8, 32):
            nch = NCH[nbits]
            hi = 1 << min(nbits, 8)
            x = nprng.integers(0, hi, (N, nch))
            paths = filutil.write_fil_set(os.path.join(d, f"in{nbits}"), x, nbits, [N // 2] if nbits in (8, 2) else [], fch1=400.0, foff=-20.0, tsamp=0.001)
            fil = FilReader(paths)
            out = os.path.join(d, "out.fil")
            ranges = [(0, N), (0, N - 2), (1, N - 1), (2, 3), (N - 1, 1)] if R.tier == "quick" else [(s, n) for s in range(N) for n in range(1, N - s + 1)]
            for start, nsamps in ranges:
                sel = x[start:start + nsamps]
                gulps = sorted(set([1, 2, 3, max(1, nsamps - 1), nsamps, nsamps + 3]))
                for gulp in gulps:
                    base = {"nbits": nbits, "nchans": nch, "N": N, "start": start, "nsamps": nsamps, "gulp": gulp}
                    multi = gulp < nsamps
                    tag = "full" if (start, nsamps) == (0, N) else "sub"

                    def check(name, want, nbits_out, params=None, tol=0, path=out):
                        """want: (nsamps_out, nchans_out) array"""
                        c = dict(base, **(params or {}))
                        h, got, rawlen = reread(path)
                        if h == "exc":
                            R.fail(f"{name}-{tag}-unreadable", "output file cannot be re-read", dict(c, exc=got)); return
                        if h.nbits != nbits_out:
                            R.fail(f"{name}-{tag}-depth", "declared depth of the output differs from the transform's", dict(c, nbits_out=h.nbits)); return
                        exp_bytes = want.shape[0] * want.shape[1] * nbits_out // 8
                        if rawlen != exp_bytes or h.nsamples != want.shape[0] or h.nchans != want.shape[1]:
                            R.fail(f"{name}-{tag}-size", "data section length / inferred sample count differs from what the transform defines",
                                   dict(c, bytes=rawlen, expected_bytes=exp_bytes, nsamples=h.nsamples, want_nsamples=int(want.shape[0]), nchans=h.nchans))
                            return
                        if got.shape != want.shape or (np.abs(got.astype(np.float64) - want.astype(np.float64)) > tol).any():
                            R.fail(f"{name}-{tag}-values", "data section differs from the whole-array transform", dict(c, got=got.tolist()[:6], want=want.tolist()[:6]))

                    def attempt(name, f, params=None):
                        try:
                            return f()
                        except Exception as e:  # noqa: BLE001
                            R.fail(f"{name}-{tag}-exception", "transform raised", dict(base, **(params or {}), exc=f"{type(e).__name__}: {str(e)[:100]}"))
                            return None

                    # --- invert_freq
                    R.case(("invert", nbits, start, nsamps, gulp), nontrivial=multi, regime="invert_freq")
                    if attempt("invert_freq", lambda: fil.invert_freq(outfile_name=out, gulp=gulp, start=start, nsamps=nsamps, quiet=True)):
                        check("invert_freq", sel[:, ::-1], nbits)
                        if nbits == 8:
                            corr.append(("invert", x, gulp, start, nsamps, [], np.fromfile(out, dtype=np.uint8)[-sel.size:].tolist() if sel.size else []))
                    # --- channel mask
                    mask = nprng.integers(0, 2, nch).astype(bool)
                    mv = int(nprng.integers(0, hi))
                    if nbits == 32 and gulp % 2 == 1:      # float files take any float32 fill: fractional, above 255, negative
                        mv = float(rng.choice([2.5, 1000.0, -3.0, 0.125, 65536.5]))
                    R.case(("mask", nbits, start, nsamps, gulp, tuple(mask.tolist()), mv), nontrivial=multi, regime="mask")
                    if attempt("apply_channel_mask", lambda: fil.apply_channel_mask(mask, mv, outfile_name=out, gulp=gulp, start=start, nsamps=nsamps, quiet=True)):
                        w = sel.astype(np.float64); w[:, mask] = mv
                        check("apply_channel_mask", w, nbits, {"mask": mask.tolist(), "mask_value": mv})
                    # --- extract_samps
                    R.case(("samps", nbits, start, nsamps, gulp), nontrivial=multi, regime="extract_samps")
                    if attempt("extract_samps", lambda: fil.extract_samps(start, nsamps, outfile_name=out, gulp=gulp, quiet=True)):
                        check("extract_samps", sel, nbits)
                    # --- extract_chans
                    chans = sorted(rng.sample(range(nch), 2))
                    R.case(("chans", nbits, start, nsamps, gulp, tuple(chans)), nontrivial=multi, regime="extract_chans")
                    names = attempt("extract_chans", lambda: fil.extract_chans(chans, outfile_base=os.path.join(d, "ch"), batch_size=rng.choice([1, 200]), gulp=gulp, start=start, nsamps=nsamps, quiet=True))
                    if names:
                        for cnum, nm in zip(chans, names):
                            check("extract_chans", sel[:, [cnum]], 32, {"chan": cnum}, path=nm)
                    # --- extract_bands
                    cps = 2
                    cstart = rng.choice([0, 2]) if nch >= 4 else 0
                    nb = rng.choice([cps, nch - cstart]) if (nch - cstart) % cps == 0 else cps
                    if (nb * nbits) % 8 == 0 and (cps * nbits) % 8 == 0:
                        R.case(("bands", nbits, start, nsamps, gulp, cstart, nb), nontrivial=multi, regime="extract_bands")
                        names = attempt("extract_bands", lambda: fil.extract_bands(cstart, nb, chanpersub=cps, outfile_base=os.path.join(d, "bd"), batch_size=rng.choice([1, 200]), gulp=gulp, start=start, nsamps=nsamps, quiet=True),
                                        {"chanstart": cstart, "nchans_sel": nb, "chanpersub": cps})
                        if names is not None:
                            if len(names) != nb // cps:
                                R.fail(f"extract_bands-{tag}-count", "number of band files differs from nchans/chanpersub", dict(base, chanstart=cstart, nchans_sel=nb, chanpersub=cps, files=len(names)))
                            for ib, nm in enumerate(names[: nb // cps]):
                                c0 = cstart + ib * cps
                                check("extract_bands", sel[:, c0:c0 + cps], nbits, {"band": ib, "chanstart": cstart}, path=nm)
                    # --- downsample
                    for tf, ff in ((1, 2), (2, 1), (2, 2), (3, 1)):
                        if nch % ff or ((nch // ff) * nbits) % 8:
                            continue
                        R.case(("down", nbits, start, nsamps, gulp, tf, ff), nontrivial=multi, regime="downsample")
                        if attempt("downsample", lambda: fil.downsample(tfactor=tf, ffactor=ff, outfile_name=out, gulp=gulp, start=start, nsamps=nsamps, quiet=True), {"tfactor": tf, "ffactor": ff}):
                            no = nsamps // tf
                            grp = sel[:no * tf].reshape(no, tf, nch // ff, ff).sum(axis=(1, 3))
                            if nbits == 32:
                                w = grp / (tf * ff)
                            else:
                                w = grp // (tf * ff)      # block means reduced to the output depth (truncation of a non-negative mean)
                            check("downsample", w, nbits, {"tfactor": tf, "ffactor": ff}, tol=1e-4 if nbits == 32 else 0)
                            if nbits == 8:
                                h2, got2, _ = reread(out)
                                if h2 != "exc":
                                    corr.append(("down", x, gulp, start, nsamps, [tf, ff], got2.astype(np.int64).ravel().tolist()))
                    # --- subband
                    for dm in (0.0, 0.12):
                        delays = fil.header.get_dmdelays(dm).astype(int)
                        md = int(delays.max())
                        if md >= nsamps:
                            continue
                        for nsub in (1, 2):
                            if nch % nsub:
                                continue
                            R.case(("subband", nbits, start, nsamps, gulp, md, nsub), nontrivial=multi or md > 0, regime="subband")
                            if attempt("subband", lambda: fil.subband(dm, nsub, outfile_name=out, gulp=gulp, start=start, nsamps=nsamps, quiet=True), {"dm": dm, "nsub": nsub}):
                                no = nsamps - md
                                w = np.zeros((no, nsub))
                                per = nch // nsub
                                for c in range(nch):
                                    w[:, c // per] += sel[delays[c]:delays[c] + no, c]
                                check("subband", w, 32, {"dm": dm, "nsub": nsub, "delays": delays.tolist()})
                                if nbits == 8:
                                    h2, got2, _ = reread(out)
                                    if h2 != "exc":
                                        corr.append(("subband", x, gulp, start, nsamps, [md, nsub] + delays.tolist(), got2.astype(np.int64).ravel().tolist()))
                    # --- zero-DM removal (full range only: the bandpass it adds back is that of the whole file)
                    if nbits in (8, 32) and (start, nsamps) == (0, N):
                        R.case(("zerodm", nbits, gulp), nontrivial=multi, regime="remove_zerodm")
                        if attempt("remove_zerodm", lambda: fil.remove_zerodm(outfile_name=out, gulp=gulp, start=start, nsamps=nsamps, quiet=True)):
                            bp = sel.mean(0)
                            wts = bp / bp.sum() if bp.sum() != 0 else bp
                            w = sel - sel.sum(1, keepdims=True) * wts + bp
                            if nbits == 32 or (w.min() >= 0 and w.max() <= 255):
                                check("remove_zerodm", w, nbits, tol=1.0 if nbits == 8 else 1e-3)
                    # --- zero-DM data flow against the Gallina pipeline: the real method on a float32 file, any sub-range, with the bandpass
                    #     replaced by integer weights summing to 1 (so chanwts = bpass exactly and every float32 operation is exact)
                    if nbits == 32:
                        bpw = nprng.integers(-3, 4, nch); bpw[-1] = 1 - int(bpw[:-1].sum())
                        class _BP:  # noqa: E306
                            data = bpw.astype(np.float32)
                        fil.bandpass = lambda **kw: _BP
                        try:
                            R.case(("zerodm-flow", start, nsamps, gulp), nontrivial=multi, regime="remove_zerodm")
                            if attempt("remove_zerodm", lambda: fil.remove_zerodm(outfile_name=out, gulp=gulp, start=start, nsamps=nsamps, quiet=True)):
                                h3, got3, _ = reread(out)
                                if h3 != "exc":
                                    corr.append(("zerodm", x, gulp, start, nsamps, bpw.tolist() + bpw.tolist(), np.rint(got3).astype(np.int64).ravel().tolist()))
                        finally:
                            del fil.bandpass
        # ---- sub-banding on an ascending band (negative delays are referred to the earliest channel) -----------
        for nbits in (8, 32):
            nch = NCH[nbits]
            x = nprng.integers(0, 1 << min(nbits, 8), (N, nch))
            paths = filutil.write_fil_set(os.path.join(d, f"asc{nbits}"), x, nbits, [], fch1=320.0, foff=20.0, tsamp=0.001)
            fil = FilReader(paths)
            out = os.path.join(d, "out_asc.fil")
            for dm in (0.12, -0.12):
                dl = fil.header.get_dmdelays(dm).astype(int)
                delays = dl - min(0, int(dl.min()))
                md = int(delays.max())
                for start, nsamps in ((0, N), (1, N - 1)):
                    if md >= nsamps:
                        continue
                    sel = x[start:start + nsamps]
                    for gulp in (1, 2, nsamps, nsamps + 3):
                        for nsub in (1, 2):
                            R.case(("subband-asc", nbits, start, nsamps, gulp, md, nsub, dm), nontrivial=md > 0, regime="subband_ascending")
                            try:
                                fil.subband(dm, nsub, outfile_name=out, gulp=gulp, start=start, nsamps=nsamps, quiet=True)
                            except Exception as e:  # noqa: BLE001
                                R.fail("subband-ascending-exception", "subband raised on an ascending band", {"nbits": nbits, "dm": dm, "gulp": gulp, "exc": str(e)[:100]}); continue
                            no = nsamps - md
                            w = np.zeros((no, nsub)); per = nch // nsub
                            for c in range(nch):
                                w[:, c // per] += sel[delays[c]:delays[c] + no, c]
                            h, got, rawlen = reread(out)
                            if h == "exc" or got.shape != w.shape or not np.array_equal(got.astype(np.float64), w):
                                R.fail("subband-ascending-values", "sub-band sums wrong when the raw delays are negative",
                                       {"nbits": nbits, "dm": dm, "gulp": gulp, "start": start, "nsamps": nsamps, "nsub": nsub, "delays": dl.tolist()})
        # ---- correspondence --------------------------------------------------------------------
        rng.shuffle(corr)
        corr = corr[: (400 if R.tier == "quick" else 2000)]
        per = 200
        code = {"invert": 0, "down": 1, "subband": 2, "zerodm": 3}
        for si in range(0, len(corr), per):
            sh = corr[si:si + per]
            rows = [f"({code[a]}, {vlib.zlist(x.ravel())}, {x.shape[1]}, {x.shape[0]}, ({g}, {s}, {n}), {vlib.zlist(p)}, {vlib.zlist(o)})" for a, x, g, s, n, p, o in sh]
            v = ["From Coq Require Import ZArith List Bool.", "Require Import SPP.Base.Rt SPP.Model.C07_pipe.", "Import ListNotations.", "Open Scope Z_scope.",
                 "Definition cases : list (Z * list Z * Z * Z * (Z * Z * Z) * list Z * list Z) := [", ";\n".join(rows), "].",
                 "Definition ok (c : Z * list Z * Z * Z * (Z * Z * Z) * list Z * list Z) : bool :=",
                 "  let '(api, xs, nch, N, (gulp, start, nsamps), ps, out) := c in list_eqb (pipe7_eval api xs nch N gulp start nsamps ps) out.",
                 "Definition idx := map fst (filter (fun p => negb (ok (snd p))) (combine (seq 0 (length cases)) cases)).",
                 "Eval vm_compute in (length cases, idx)."]
            rc, outp = vlib.coq_run(f"c07_{si // per}", "\n".join(v), timeout=600)
            vals = vlib.parse_eval(outp)
            if rc != 0 or not vals:
                R.red.append("correspondence: Corr/c07 did not evaluate: " + outp[-400:])
                continue
            nums = [int(z) for z in re.findall(r"(\d+)%nat", vals[0])]
            R.extra_cov["traces_validated_against_impl"] = R.extra_cov.get("traces_validated_against_impl", 0) + (nums[0] if nums else 0)
            for bi in nums[1:4]:
                a, x, g, s, n, p, o = sh[bi]
                R.disagree("composed Gallina pipeline and the file written by Filterbank." + a + " differ",
                           {"api": a, "x": x.tolist(), "gulp": g, "start": s, "nsamps": n, "params": p, "impl": o})
    finally:
        shutil.rmtree(d, ignore_errors=True)


def scale(R: vlib.Run):
    """at-scale search: written blocks of more than 2**20 / 2**22 elements at every output depth, ranges beyond the default gulp"""
    from sigpyproc.readers import FilReader
    nprng = np.random.default_rng(R.seed + 707)
    rng = R.rng
    d = os.path.join(vlib.SCRATCH, f"c07s_{os.getpid()}")
    os.makedirs(d, exist_ok=True)
    try:
        for nbits, nch, N, splits in ((1, 128, 40000, [25000]), (2, 64, 40000, []), (4, 64, 70000, []), (8, 256, 20000, [9000]), (32, 64, 40000, [])):
            hi = min(1 << nbits, 64)
            x = nprng.integers(0, hi, (N, nch), dtype=np.uint8)
            paths = filutil.write_fil_set(os.path.join(d, f"in{nbits}"), x, nbits, splits, fch1=400.0, foff=-200.0 / nch, tsamp=0.001)
            fil = FilReader(paths)
            out = os.path.join(d, "out.fil")
            for start, nsamps in ((0, N), (777, N - 3000)):
                sel = x[start:start + nsamps]
                for gulp in (16384, 65536, 5000):
                    base = {"nbits": nbits, "nchans": nch, "N": N, "splits": splits, "start": start, "nsamps": nsamps, "gulp": gulp,
                            "data": f"numpy.random.default_rng({R.seed + 707}) stream, see props/c07.py scale()"}
                    R.tick(base)
                    R.case(("scale", nbits, start, nsamps, gulp), regime="scale")

                    def check(name, want, nbits_out, path=out, tol=0):
                        h, got, rawlen = reread(path)
                        if h == "exc":
                            R.fail(f"scale-{name}", "output file cannot be re-read at scale", dict(base, exc=got)); return
                        exp_bytes = want.shape[0] * want.shape[1] * nbits_out // 8
                        if h.nbits != nbits_out or rawlen != exp_bytes or h.nsamples != want.shape[0] or got.shape != want.shape:
                            R.fail(f"scale-{name}", "output size / depth at scale differs from what the transform defines",
                                   dict(base, bytes=rawlen, expected_bytes=exp_bytes, nsamples=h.nsamples, want_nsamples=int(want.shape[0]))); return
                        bad = np.abs(got.astype(np.float64) - want) > tol
                        if bad.any():
                            t, c = np.argwhere(bad)[0]
                            R.fail(f"scale-{name}", "data section at scale differs from the whole-array transform",
                                   dict(base, first_bad_sample=int(t), first_bad_chan=int(c), n_bad=int(bad.sum())))

                    def attempt(name, f):
                        try:
                            f(); return True
                        except Exception as e:  # noqa: BLE001
                            R.fail(f"scale-{name}", "transform raised at scale", dict(base, exc=f"{type(e).__name__}: {str(e)[:100]}")); return False

                    if attempt("invert_freq", lambda: fil.invert_freq(outfile_name=out, gulp=gulp, start=start, nsamps=nsamps, quiet=True)):
                        check("invert_freq", sel[:, ::-1].astype(np.float64), nbits)
                    mask = nprng.integers(0, 2, nch).astype(bool); mv = int(nprng.integers(0, hi))
                    if attempt("apply_channel_mask", lambda: fil.apply_channel_mask(mask, mv, outfile_name=out, gulp=gulp, start=start, nsamps=nsamps, quiet=True)):
                        w = sel.astype(np.float64); w[:, mask] = mv
                        check("apply_channel_mask", w, nbits)
                    if attempt("extract_samps", lambda: fil.extract_samps(start, nsamps, outfile_name=out, gulp=gulp, quiet=True)):
                        check("extract_samps", sel.astype(np.float64), nbits)
                    if gulp == 16384:
                        names = []
                        if attempt("extract_bands", lambda: names.extend(fil.extract_bands(0, nch, chanpersub=nch // 2, outfile_base=os.path.join(d, "bd"), gulp=gulp, start=start, nsamps=nsamps, quiet=True))):
                            for ib, nm in enumerate(names[:2]):
                                check("extract_bands", sel[:, ib * (nch // 2):(ib + 1) * (nch // 2)].astype(np.float64), nbits, path=nm)
                        tf, ff = 2, 2
                        if attempt("downsample", lambda: fil.downsample(tfactor=tf, ffactor=ff, outfile_name=out, gulp=gulp, start=start, nsamps=nsamps, quiet=True)):
                            no = nsamps // tf
                            grp = sel[:no * tf].astype(np.int64).reshape(no, tf, nch // ff, ff).sum(axis=(1, 3))
                            check("downsample", (grp / (tf * ff)) if nbits == 32 else (grp // (tf * ff)).astype(np.float64), nbits, tol=1e-4 if nbits == 32 else 0)
                        if nbits in (8, 32):
                            dm = next((float(v) for v in np.linspace(0.5, 400, 200) if 500 < int(fil.header.get_dmdelays(float(v)).max()) < 2000), 1.0)
                            delays = fil.header.get_dmdelays(dm).astype(int); md = int(delays.max()); nsub = 4
                            if attempt("subband", lambda: fil.subband(dm, nsub, outfile_name=out, gulp=gulp, start=start, nsamps=nsamps, quiet=True)):
                                no = nsamps - md
                                w = np.zeros((no, nsub)); per = nch // nsub
                                for c in range(nch):
                                    w[:, c // per] += sel[delays[c]:delays[c] + no, c]
                                check("subband", w, 32)
            del fil
            for p in paths:
                os.remove(p)
    finally:
        shutil.rmtree(d, ignore_errors=True)
