"""C02 -- a multi-file stream reads as the concatenation of its data sections.
Proof: Props/C02.v (refinement of the Stream model to a flat byte array for every operation history).
Correspondence: Model/Stream.v under vm_compute vs FileReader on the same files and histories.
Oracle: a plain bytes model (flat array + position) vs FileReader / FilReader.read_block.

Operations are (name, arg) or, for a buffer read into something other than a bytearray, (name, arg, kind):
the kind only selects the caller's buffer object (BUFKINDS); the model operation is always Creadinto(arg bytes).
A history may be run on a freshly opened reader (no initial seek): the model's initial state is the first sample."""
import itertools
import os
import re
import shutil

import numpy as np

import filutil
import vlib

# bit order of packed samples in SIGPROC data as sigpyproc documents it (BitsInfo.default_bitorder); the packing below is
# plain shift arithmetic and shares no code with sigpyproc.io.bits / the kernels
ORDER = {1: "little", 2: "big", 4: "big"}
BUFKINDS = ("ba", "u1", "mvb", "u2", "mv2", "f4")


def _shifts(nbits):
    bf = 8 // nbits
    return np.arange(bf) * nbits if ORDER[nbits] == "little" else (8 - nbits) - np.arange(bf) * nbits


def np_unpack(raw, nbits):
    a = np.frombuffer(bytes(raw), np.uint8).astype(np.uint16)
    return ((a[:, None] >> _shifts(nbits)[None, :]) & ((1 << nbits) - 1)).astype(np.uint8).ravel()


def np_pack(vals, nbits):
    v = np.asarray(vals).astype(np.uint16).reshape(-1, 8 // nbits)
    return (v << _shifts(nbits)[None, :]).sum(axis=1).astype(np.uint8).tobytes()


def buf_kinds(n):
    """buffer objects of exactly n bytes a caller may hand to creadinto"""
    return ["ba", "u1", "mvb"] + (["u2", "mv2"] if n % 2 == 0 else []) + (["f4"] if n % 4 == 0 else [])


def mk_buffer(n, kind):
    if kind == "ba":
        return bytearray(n)
    if kind == "u1":
        return np.zeros(n, np.uint8)
    if kind == "mvb":
        return memoryview(bytearray(n + 3))[:n]          # what read_plan passes: a slice of a larger byte buffer
    if kind == "u2":
        return np.zeros(n // 2, np.uint16)
    if kind == "mv2":
        return memoryview(np.zeros(n // 2 + 2, np.uint16))[:n // 2]
    if kind == "f4":
        return np.zeros(n // 4, np.float32)
    raise KeyError(kind)


def mk_files(d, rng, nfiles, isz, maxitems, hdr_marker=True):
    """raw files: arbitrary header bytes + data; returns (paths, hdrs, datas)"""
    paths, hdrs, datas = [], [], []
    for i in range(nfiles):
        hl = rng.choice([1, 3, 7])
        hdr = bytes([0xE0 + i] * hl)
        nitems = rng.randrange(0, maxitems + 1)
        data = bytes(rng.randrange(0, 224) for _ in range(nitems * isz))
        p = os.path.join(d, f"s{i}.bin")
        with open(p, "wb") as f:
            f.write(hdr + data)
        paths.append(p); hdrs.append(hdr); datas.append(data)
    return paths, hdrs, datas


def open_reader(paths, hdrs, datas, nbits):
    from sigpyproc.io.fileio import FileReader
    from sigpyproc.io.sigproc import FileInfo, StreamInfo
    si = StreamInfo()
    for p, h, dt in zip(paths, hdrs, datas):
        si.add_entry(FileInfo(filename=p, hdrlen=len(h), datalen=len(dt), nsamples=len(dt), tstart=0.0, tsamp=1.0))
    return FileReader(si, mode="r", nbits=nbits)


def impl_run(fr, ops, nbits=8):
    """returns list of (kind, bytes, pos): kind 0 unit, 1 bytes, 2 ValueError, 3 other error.
    nbits 1/2/4: the reader unpacks; Cread n asks for n bytes' worth of samples (n * 8/nbits units) and the samples are packed
    back into bytes here; Creadinto passes an unpack buffer, which must hold the unpacked samples of the bytes that were read."""
    res = []
    bf = 8 // nbits if nbits < 8 else 1
    for o in ops:
        op, arg = o[0], o[1]
        try:
            if op == "SeekSet":
                fr.seek(arg, 0); r = (0, b"")
            elif op == "SeekCur":
                fr.seek(arg, 1); r = (0, b"")
            elif op == "Cread":
                a = fr.cread(arg * bf)
                if nbits >= 8:
                    r = (1, a.tobytes())
                elif a.ndim != 1 or a.size != arg * bf or (a.size and int(a.max()) >> nbits):
                    r = (3, f"cread({arg * bf}) at {nbits} bits returned {a.size} samples, max {a.max() if a.size else 0}".encode())
                else:
                    r = (1, np_pack(a, nbits), [int(v) for v in a])   # third: the samples as returned, for the Coq correspondence
            else:
                buf = mk_buffer(arg, o[2] if len(o) > 2 else "ba")
                if nbits >= 8:
                    n = fr.creadinto(buf)
                    r = (1, bytes(memoryview(buf).cast("B")[:n]))
                else:
                    ub = bytearray(arg * bf)
                    n = fr.creadinto(buf, ub)
                    raw = bytes(memoryview(buf).cast("B")[:n])
                    r = (1, raw) if bytes(ub[:n * bf]) == np_unpack(raw, nbits).tobytes() else (3, b"unpack buffer differs from the unpacked bytes read")
        except ValueError:
            r = (2, b"")
        except Exception as e:  # noqa: BLE001
            r = (3, type(e).__name__.encode())
        res.append((r[0], r[1], fr.cur_data_pos_stream) + tuple(r[2:]))
    return res


def spec_step(flat, isz, p, op, arg):
    """(kind, bytes, new position or None when the property leaves it unspecified)"""
    n = len(flat)
    if op in ("SeekSet", "SeekCur"):
        o = arg if op == "SeekSet" else arg + p
        return (0, b"", o) if 0 <= o < n else (2, b"", p)
    if op == "Cread":
        if p + arg * isz <= n:
            return (1, flat[p:p + arg * isz], p + arg * isz)
        return (2, b"", None)
    k = min(arg, n - p)
    return (1, flat[p:p + k], p + k)


def gen_ops(rng, total, isz, length, exhaustive_alphabet=None):
    # offsets and buffer lengths are multiples of the item size (R.assume): an unaligned seek followed by a counted read of
    # 2/4-byte items is outside the property
    ops = []
    for _ in range(length):
        c = rng.random()
        if c < 0.3:
            ops.append(("SeekSet", isz * rng.randrange(-1, total // isz + 2)))
        elif c < 0.5:
            ops.append(("SeekCur", isz * rng.randrange(-(total // isz) - 1, total // isz + 2)))
        elif c < 0.75:
            ops.append(("Cread", rng.randrange(0, total // isz + 2)))
        else:
            n = isz * rng.randrange(1, total // isz + 3)
            kind = rng.choice(buf_kinds(n))
            ops.append(("Creadinto", n) if kind == "ba" else ("Creadinto", n, kind))
    return ops


BUF_ITEM = {"ba": 1, "u1": 1, "mvb": 1, "u2": 2, "mv2": 2, "f4": 4}


def coq_ops(ops, nbits=8):
    """the API operations of Model/StreamApi.v as the implementation was called: cread in units, creadinto with the
    item size and item count of the caller's buffer"""
    bf = 8 // nbits if nbits < 8 else 1
    out = []
    for o in ops:
        if o[0] in ("SeekSet", "SeekCur"):
            out.append(f"A{o[0]} ({o[1]})")
        elif o[0] == "Cread":
            out.append(f"ACread ({o[1] * bf})")
        else:
            b = BUF_ITEM[o[2] if len(o) > 2 else "ba"]
            out.append(f"ACreadinto {b} {o[1] // b}")
    return "[" + "; ".join(out) + "]"


def coq_depth(nbits):
    return f"(DBits {nbits} {'true' if ORDER[nbits] == 'big' else 'false'})" if nbits < 8 else "DBytes"


def write_raw_set(base, x, nbits, splits, tsamp=0.001, tstart=60000.0):
    """like filutil.write_fil_set(vary_header=True), but only the headers are written by the library: the data sections are
    written here with numpy (packed with np_pack below 8 bits), so the expected block does not pass through FileWriter/pack"""
    from sigpyproc.header import Header
    bounds = [0] + list(splits) + [x.shape[0]]
    paths = []
    for i in range(len(bounds) - 1):
        a, b = bounds[i], bounds[i + 1]
        p = f"{base}_{i}.fil"
        hdr = Header(filename=os.path.basename(p), data_type="filterbank", nchans=x.shape[1], foff=-1.0, fch1=1500.0, nbits=nbits,
                     tsamp=tsamp, tstart=tstart + a * tsamp / 86400.0, nsamples=b - a, rawdatafile="r" * (3 + 7 * i))
        hdr.prep_outfile(p).close()
        part = np.ascontiguousarray(x[a:b]).ravel()
        raw = (np_pack(part, nbits) if nbits < 8 else
               part.astype({8: "u1", 16: "<u2", 32: "<f4"}[nbits]).tobytes())
        with open(p, "ab") as f:
            f.write(raw)
        paths.append(p)
    return paths


def rb_values(nprng, nbits, N, nch):
    """sample values over the whole range of the depth (16 bits: both bytes vary; 32 bits: arbitrary finite floats)"""
    if nbits == 32:
        x = (nprng.standard_normal((N, nch)) * 10.0 ** nprng.integers(-3, 7, (N, nch))).astype(np.float32)
        return x
    return nprng.integers(0, 1 << nbits, (N, nch))


def run(R: vlib.Run):
    R.rule = ("streams of 1..3 raw files (arbitrary header bytes 0xE0+i, data bytes < 0xE0) at item widths 1/2/4 bytes and at 1/2/4 bits "
              "(unpacking reader); histories of seek(o,0)/seek(o,1)/cread(n)/creadinto(n), on a freshly opened reader or after seek(0,0), "
              "buffer reads into bytearray / uint8 / uint16 / float32 arrays and memoryview slices: all histories of length <= L over a "
              "boundary-adjacent alphabet on tiny files (exhaustive part) + random histories of length <= 60 (aligned offsets); read_block "
              "over all (start,nsamps>=1) incl. out of range at depths 1..32, headers of different lengths, full-range sample values, "
              "data sections written by the library and by numpy.  distinct = distinct (files, history, initial state); "
              "non-trivial = history touches >= 1 data byte or error")
    R.trusted += ["Coq 8.16.1 kernel + vm_compute", "tools/py2coq: seek arithmetic template-matched from fileio.py (_seek_set, cur_data_pos_stream)",
                  "hand model Model/Stream.v of cread/creadinto loops, tied by this correspondence run",
                  "refinement theorem is for byte-wide items (isz=1); 2/4-byte items are covered by correspondence + oracle only",
                  "hand model Model/StreamApi.v (which stream operation an API call performs, what a counted read returns at 1/2/4 bits), tied by "
                  "this correspondence run; where a fresh reader stands, the length taken for the caller's buffer and the item count of a "
                  "counted read are regenerated from fileio.py (FileReader.__init__, creadinto, cread) into Gen/Plan.v"]
    R.assume += ["np.fromfile/readinto on regular files read as many bytes as exist", "per-file data sections hold a whole number of items",
                 "at 16/32 bits seek offsets are multiples of the item size whenever a counted read follows (after an unaligned seek "
                 "np.fromfile drops the partial item at the end of a file; buffer reads of any byte length are exact and are checked)",
                 "at 1/2/4 bits a counted read asks for a whole number of bytes (nunits a multiple of 8/nbits; cread floors otherwise), "
                 "a buffer read passes an unpack_buffer, and one sample (nchans*nbits) is a whole number of bytes for read_block",
                 "read_block is asked for nsamps >= 1 (nsamps <= 0 is neither in range nor demanded to raise)"]
    if "VERIF_CASE_TIMEOUT" not in os.environ:
        R.case_budget = 120.0 if R.tier == "quick" else 600.0   # every implementation call here is a tiny read, ticked individually
    R.prove("Props/C02.v")
    R.need(["Model/Stream.vo", "Model/StreamApi.vo"])
    rng = R.rng
    d = os.path.join(vlib.SCRATCH, f"c02_{os.getpid()}")
    os.makedirs(d, exist_ok=True)
    batches = []   # (hdrs, datas, isz, ops, implres, (fresh, nbits))
    try:
        # ---- exhaustive short histories on tiny byte files -----------------------------------
        L = 2 if R.tier == "quick" else 3
        tiny = [([b"\xe0"], [bytes([1, 2, 3])]), ([b"\xe0\xe0", b"\xe1"], [bytes([1, 2]), bytes([3, 4, 5])]),
                ([b"\xe0", b"\xe1\xe1", b"\xe2"], [bytes([1, 2]), b"", bytes([3])]),
                ([b"\xe0", b"\xe1", b"\xe2"], [bytes([1]), bytes([2, 3]), bytes([4, 5])]),
                # fresh-reader histories only: the first data section is empty, so the first read has to leave file 0
                ([b"\xe0\xe0", b"\xe1"], [b"", bytes([1, 2])])]
        for ti, (hdrs, datas) in enumerate(tiny):
            paths = []
            for i, (h, dt) in enumerate(zip(hdrs, datas)):
                p = os.path.join(d, f"t{i}.bin"); open(p, "wb").write(h + dt); paths.append(p)
            tot = sum(len(x) for x in datas)
            alpha = ([("SeekSet", o) for o in range(-1, tot + 1)] + [("SeekCur", o) for o in (-tot, -2, -1, 0, 1, 2)]
                     + [("Cread", n) for n in (0, 1, 2, tot, tot + 1)] + [("Creadinto", n) for n in (1, 2, 3, tot + 1)]
                     + [("Creadinto", 2, "u2"), ("Creadinto", 4, "f4")])
            for ln in range(1, L + 1):
                for ops in itertools.product(alpha, repeat=ln):
                    ops = list(ops)
                    # fresh = no seek before the history (the state FileReader.__init__ leaves); a history that starts with an
                    # absolute seek does not see the initial state, so those run only after seek(0,0) as before
                    for fresh in ((False, True) if ti < 4 else (True,)):
                        if fresh and ops[0][0] == "SeekSet":
                            continue
                        fr = open_reader(paths, hdrs, datas, 8)
                        fr.seek(0, 0) if tot > 0 and not fresh else None
                        R.tick({"files": [list(x) for x in datas], "isz": 1, "fresh_reader": fresh, "ops": ops})
                        res = impl_run(fr, ops); fr.close()
                        batches.append((hdrs, datas, 1, ops, res, (fresh, 8)))
        # ---- random longer histories, widths 1/2/4 -------------------------------------------
        nrand = 150 if R.tier == "quick" else 1500
        for _ in range(nrand):
            isz = rng.choice([1, 1, 2, 4]); nbits = {1: 8, 2: 16, 4: 32}[isz]
            nf = rng.randrange(1, 4)
            paths, hdrs, datas = mk_files(d, rng, nf, isz, 9)
            tot = sum(len(x) for x in datas)
            if tot == 0:
                continue
            ops = gen_ops(rng, tot, isz, rng.randrange(1, 60 if R.tier == "thorough" else 25), None)
            if isz > 1 and rng.random() < 0.3:
                ops.append(("Creadinto", rng.randrange(1, tot + 3)))   # a buffer read of any byte length, as the last operation
            fresh = rng.random() < 0.4
            fr = open_reader(paths, hdrs, datas, nbits)
            fr.seek(0, 0) if not fresh else None
            R.tick({"files": [list(x) for x in datas], "isz": isz, "fresh_reader": fresh, "ops": ops})
            res = impl_run(fr, ops); fr.close()
            batches.append((hdrs, datas, isz, ops, res, (fresh, nbits)))
        # ---- random histories on an unpacking reader (1/2/4 bits; positions and counts in bytes of packed data) ----
        for _ in range(45 if R.tier == "quick" else 450):
            nbits = rng.choice([1, 2, 4])
            nf = rng.randrange(1, 4)
            paths, hdrs, datas = mk_files(d, rng, nf, 1, 9)
            tot = sum(len(x) for x in datas)
            if tot == 0:
                continue
            ops = gen_ops(rng, tot, 1, rng.randrange(1, 60 if R.tier == "thorough" else 25), None)
            fresh = rng.random() < 0.4
            fr = open_reader(paths, hdrs, datas, nbits)
            fr.seek(0, 0) if not fresh else None
            R.tick({"files": [list(x) for x in datas], "isz": 1, "nbits": nbits, "fresh_reader": fresh, "ops": ops})
            res = impl_run(fr, ops, nbits); fr.close()
            batches.append((hdrs, datas, 1, ops, res, (fresh, nbits)))
        # ---- oracle: bytes model --------------------------------------------------------------
        for hdrs, datas, isz, ops, res, (fresh, nbits) in batches:
            flat = b"".join(datas)
            touched = any(r[0] != 0 for r in res)
            R.case((tuple(hdrs), tuple(datas), isz, tuple(ops), fresh, nbits), nontrivial=touched,
                   regime=f"isz{isz}_files{len(datas)}" + (f"_nbits{nbits}" if nbits < 8 else "") + ("_fresh" if fresh else ""),
                   sample={"files": [len(x) for x in datas], "isz": isz, "ops": ops[:6]} if len(ops) == 3 else None)
            p = 0
            for k, (o, got) in enumerate(zip(ops, res)):
                op, arg = o[0], o[1]
                want = spec_step(flat, isz, p, op, arg)
                bad = got[0] != want[0] or got[1] != want[1] or (want[2] is not None and got[2] != want[2])
                if bad:
                    # the suffix names the added regime the history belongs to (first that applies)
                    sfx = "-bits" if nbits < 8 else "-typed" if len(o) > 2 else "-fresh" if fresh else ""
                    R.fail("stream-" + op.lower() + sfx, "FileReader differs from the flat byte-array model",
                           {"hdrlens": [len(h) for h in hdrs], "datas": [list(x) for x in datas], "isz": isz, "nbits": nbits,
                            "fresh_reader": fresh, "ops": ops[:k + 1],
                            "got": (got[0], list(got[1]), got[2]), "expected": (want[0], list(want[1]), want[2])})
                    break
                p = got[2] if want[2] is None else want[2]
        # ---- correspondence with the Coq model -------------------------------------------------
        per = 300
        for si in range(0, len(batches), per):
            sh = batches[si:si + per]
            rows = []
            for hdrs, datas, isz, ops, res, (fresh, nbits) in sh:
                fs = "[" + "; ".join(f"mkfile {vlib.zlist(h)} {vlib.zlist(dt)}" for h, dt in zip(hdrs, datas)) + "]"
                # a counted read at 1/2/4 bits is compared as the samples the implementation returned (r[3]), not re-packed
                ex = "[" + "; ".join(f"({r[0]}, {vlib.zlist((r[3] if len(r) > 3 else r[1]) if r[0] == 1 else b'')}, {r[2]})" for r in res) + "]"
                rows.append(f"({fs}, {isz}, {coq_depth(nbits)}, {'true' if fresh else 'false'}, {coq_ops(ops, nbits)}, {ex})")
            v = ["From Coq Require Import ZArith List Bool.", "Require Import SPP.Base.Rt SPP.Model.Stream SPP.Model.StreamApi.", "Import ListNotations.", "Open Scope Z_scope.",
                 "(* the state the history starts in: a freshly opened reader (Model/StreamApi.v open_reader, from FileReader.__init__), or that state after seek(0, 0) *)",
                 "Definition start (fs : list file) (fresh : bool) : option st := match open_reader fs with None => None | Some s0 => Some (if fresh then s0 else fst (seek_set_op fs s0 0)) end.",
                 "Definition runcase (fs : list file) (isz : Z) (d : depth) (fresh : bool) (ops : list aop) : list (out * Z) := match start fs fresh with None => [] | Some s => if isz =? 1 then api_run d fs s ops else run fs isz s (map (lower DBytes) ops) end.",
                 "Definition enc (r : out * Z) : Z * list Z * Z := match fst r with OUnit => (0, [], snd r) | OBytes l => (1, l, snd r) | OErr ValueError => (2, [], snd r) | OErr OutOfFuel => (9, [], snd r) end.",
                 "Definition eq3 (a b : Z * list Z * Z) : bool := let '(k1, l1, p1) := a in let '(k2, l2, p2) := b in (k1 =? k2) && list_eqb l1 l2 && (p1 =? p2).",
                 "Fixpoint alleq (a b : list (Z * list Z * Z)) : bool := match a, b with [], [] => true | x :: r, y :: s => eq3 x y && alleq r s | _, _ => false end.",
                 "Definition cases : list (list file * Z * depth * bool * list aop * list (Z * list Z * Z)) := [", ";\n".join(rows), "].",
                 "Definition ok (c : list file * Z * depth * bool * list aop * list (Z * list Z * Z)) : bool := let '(fs, isz, d, fresh, ops, ex) := c in alleq (map enc (runcase fs isz d fresh ops)) ex.",
                 "Definition idx := map fst (filter (fun p => negb (ok (snd p))) (combine (seq 0 (length cases)) cases)).",
                 "Eval vm_compute in (length cases, idx)."]
            rc, outp = vlib.coq_run(f"c02_{si // per}", "\n".join(v), timeout=300)
            vals = vlib.parse_eval(outp)
            if rc != 0 or not vals:
                R.red.append("correspondence: Corr/c02 did not evaluate: " + outp[-400:])
                continue
            nums = [int(x) for x in re.findall(r"(\d+)%nat", vals[0])]
            R.extra_cov["traces_validated_against_impl"] = R.extra_cov.get("traces_validated_against_impl", 0) + (nums[0] if nums else 0)
            for bi in nums[1:4]:
                hdrs, datas, isz, ops, res, (fresh, nbits) = sh[bi]
                R.disagree("Model/Stream.v and FileReader differ", {"hdrlens": [len(h) for h in hdrs], "datas": [list(x) for x in datas], "isz": isz,
                                                                    "nbits": nbits, "fresh_reader": fresh,
                                                                    "ops": ops, "impl": [(r[0], list(r[1]), r[2]) for r in res]})
        # ---- read_block over real filterbank files ----------------------------------------------
        # every file of a set has a header of a different byte length; "lib": data sections written by FileWriter.cwrite,
        # "raw": written with numpy (sets of >= 2 files)
        from sigpyproc.readers import FilReader
        nprng = np.random.default_rng(R.seed)
        rbsets = []   # numpy-written sets for the Coq correspondence: (nbits, nch, N, [(header bytes, data bytes)], [(start, ns, kind, values)])
        for nbits in (1, 2, 4, 8, 16, 32):
            for nf in (1, 2, 3):
                # one sample is a whole number of bytes (R.assume): samp_stride = int(nchans*nbits/8) is not meaningful otherwise
                nch = {1: 8, 2: 4, 4: 2, 8: 3, 16: 2, 32: 1}[nbits] * (1 if nf < 3 else 2)
                N = 7
                x = rb_values(nprng, nbits, N, nch)
                splits = sorted(nprng.choice(np.arange(1, N), size=nf - 1, replace=False).tolist()) if nf > 1 else []
                for writer in (("lib", "raw") if nf > 1 else ("lib",)):
                    if writer == "lib":
                        paths = filutil.write_fil_set(os.path.join(d, f"rb{nbits}_{nf}"), x, nbits, splits, vary_header=True)
                    else:
                        paths = write_raw_set(os.path.join(d, f"rr{nbits}_{nf}"), x, nbits, splits)
                    fil = FilReader(paths)
                    sfx = "" if writer == "lib" else "-rawfile"
                    rbc = []
                    if writer == "raw":
                        # header = whatever the library wrote before the data section this check appended
                        bnd = [0] + splits + [N]
                        fsb = []
                        for i, pth in enumerate(paths):
                            content = open(pth, "rb").read()
                            dlen = (bnd[i + 1] - bnd[i]) * nch * nbits // 8
                            fsb.append((content[:len(content) - dlen], content[len(content) - dlen:]))
                        rbsets.append((nbits, nch, N, fsb, rbc))
                    for start in range(-1, N + 2):
                        for ns in range(1, N + 3):
                            inr = start >= 0 and start + ns <= N
                            R.case(("rb", nbits, nf, start, ns, writer), regime="read_block_" + ("in" if inr else "out") + sfx.replace("-", "_"))
                            rec = (3, [])
                            try:
                                b = fil.read_block(start, ns)
                                flatv = np.asarray(b.data).T.ravel()
                                rec = (1, list(flatv.astype({16: "<u2", 32: "<f4"}[nbits]).tobytes()) if nbits > 8 else [int(v) for v in flatv])
                                if not inr:
                                    R.fail("read_block-range" + sfx, "out-of-range read_block did not raise ValueError", {"nbits": nbits, "files": nf, "start": start, "nsamps": ns, "N": N})
                                elif b.data.shape != (nch, ns) or not np.array_equal(np.asarray(b.data).T, x[start:start + ns]):
                                    R.fail("read_block-values" + sfx, "read_block differs from the model slice", {"nbits": nbits, "splits": splits, "start": start, "nsamps": ns, "x": x.tolist(), "data_written_by": writer})
                            except ValueError:
                                rec = (2, [])
                                if inr:
                                    R.fail("read_block-raise" + sfx, "in-range read_block raised ValueError", {"nbits": nbits, "splits": splits, "start": start, "nsamps": ns, "N": N, "data_written_by": writer})
                            except Exception as e:  # noqa: BLE001
                                R.fail("read_block-exc" + sfx, f"read_block raised {type(e).__name__}", {"nbits": nbits, "splits": splits, "start": start, "nsamps": ns, "N": N, "in_range": inr, "data_written_by": writer})
                            rbc.append((start, ns) + rec)
        # ---- correspondence: read_block on the numpy-written sets vs Model/StreamApi.v api_read_block (real header bytes, fresh reader;
        #      one sample = nch*nbits/8 bytes; 1/2/4 bits: the block holds the unpacked samples of the bytes read) ----
        for ci in range(0, len(rbsets), 6):
            v = ["From Coq Require Import ZArith List Bool.", "Require Import SPP.Base.Rt SPP.Model.Stream SPP.Model.StreamApi.", "Import ListNotations.", "Open Scope Z_scope.",
                 "Definition rb (d : depth) (fs : list file) (stride N start ns : Z) : Z * list Z := match api_read_block fs stride N start ns with OBytes l => (1, unpack_out d l) | OErr ValueError => (2, []) | _ => (9, []) end.",
                 "Definition okc (d : depth) (fs : list file) (stride N : Z) (c : Z * Z * Z * list Z) : bool := let '(start, ns, k, l) := c in let '(k', l') := rb d fs stride N start ns in (k =? k') && list_eqb l l'."]
            names = []
            for k, (nbits, nch, N, fsb, rbc) in enumerate(rbsets[ci:ci + 6]):
                v.append(f"Definition fs{k} : list file := [" + "; ".join(f"mkfile {vlib.zlist(h)} {vlib.zlist(dt)}" for h, dt in fsb) + "].")
                v.append(f"Definition cs{k} : list (Z * Z * Z * list Z) := [" + ";\n".join(f"({a}, {n}, {kd}, {vlib.zlist(vals)})" for a, n, kd, vals in rbc) + "].")
                v.append(f"Definition bad{k} := map (fun c => (fst (fst (fst c)), snd (fst (fst c)))) (filter (fun c => negb (okc {coq_depth(nbits)} fs{k} {nch * nbits // 8} {N} c)) cs{k}).")
                names.append(k)
            v.append("Eval vm_compute in (" + " + ".join(f"length cs{k}" for k in names) + ")%nat.")
            v.append("Eval vm_compute in [" + "; ".join(f"bad{k}" for k in names) + "].")
            rc, outp = vlib.coq_run(f"c02_rb{ci // 6}", "\n".join(v), timeout=300)
            vals = vlib.parse_eval(outp)
            if rc != 0 or len(vals) < 2:
                R.red.append("correspondence: Corr/c02_rb did not evaluate: " + outp[-400:])
                continue
            R.extra_cov["read_blocks_validated_against_model"] = R.extra_cov.get("read_blocks_validated_against_model", 0) + int(re.findall(r"\d+", vals[0])[0])
            badl = re.findall(r"\[([^\[\]]*)\]", vals[1].strip()[1:-1]) if "(" in vals[1] else []
            for k, bl in enumerate(badl):
                prs = re.findall(r"\((-?\d+),\s*(-?\d+)\)", bl)
                if prs:
                    nbits, nch, N, fsb, rbc = rbsets[ci + k]
                    a, n = int(prs[0][0]), int(prs[0][1])
                    got = next(c for c in rbc if c[0] == a and c[1] == n)
                    R.disagree("Model/StreamApi.v api_read_block and FilReader.read_block differ",
                               {"nbits": nbits, "nchans": nch, "N": N, "hdrlens": [len(h) for h, _ in fsb], "datas": [list(dt) for _, dt in fsb],
                                "start": a, "nsamps": n, "impl": (got[2], list(got[3])), "mismatching_requests": len(prs)})
    finally:
        shutil.rmtree(d, ignore_errors=True)




def scale(R: vlib.Run):
    """at-scale search: single reads of more than 2**16 / 2**22 / 2**24 items across file boundaries, large offsets, long histories,
    large typed buffers, a fresh reader, read_block of more than 2**22 items across a file boundary"""
    nprng = np.random.default_rng(R.seed + 202)
    d = os.path.join(vlib.SCRATCH, f"c02s_{os.getpid()}")
    os.makedirs(d, exist_ok=True)
    try:
        for isz, sizes in ((1, (5_000_000, 21_000_000, 3_000_000)), (4, (2_000_001 * 4, 4_500_000 * 4, 70_000 * 4)), (2, (70_000 * 2, 0, 140_000 * 2))):
            nbits = {1: 8, 2: 16, 4: 32}[isz]
            paths, hdrs, datas = [], [], []
            for i, n in enumerate(sizes):
                hdr = bytes([0xE0 + i] * (3 + i))
                data = (nprng.integers(0, 224, n, dtype=np.uint8)).tobytes()
                p = os.path.join(d, f"big{i}.bin")
                with open(p, "wb") as f:
                    f.write(hdr + data)
                paths.append(p); hdrs.append(hdr); datas.append(data)
            flat = b"".join(datas)
            tot = len(flat) // isz
            b0, b1 = sizes[0] // isz, (sizes[0] + sizes[1]) // isz
            hist = [[("SeekSet", 0), ("Cread", tot)],
                    [("SeekSet", isz * 7), ("Cread", b0 + 5), ("Cread", (1 << 22) + 3), ("Creadinto", isz * 1000), ("SeekCur", -isz * 65537), ("Cread", 65537)],
                    [("SeekSet", isz * (b0 - 1)), ("Creadinto", isz * ((1 << 24) // isz + 11)), ("Cread", 1)],
                    [("SeekSet", isz * 100), ("Creadinto", isz * (tot + 5))],
                    [("SeekSet", isz * (b1 - 70000)), ("Cread", 70001), ("SeekCur", -isz * 3), ("Cread", 3), ("Cread", tot)],
                    [("SeekSet", isz * (b0 - 5))] + [("Cread", 1 + (k % 3)) for k in range(3000)],
                    # no initial seek (fresh reader), then buffer reads into typed arrays / a memoryview slice over both boundaries
                    ["fresh", ("Cread", 5), ("Creadinto", 4 * 70_001, "f4"), ("SeekCur", isz * (b0 - 70_006 - 70_001 * 4 // isz)),
                     ("Creadinto", 2 * 70_001 * isz, "u2"), ("Creadinto", 2 * ((1 << 22) + 3) * isz, "mv2"), ("Creadinto", len(flat), "u1")]]
            for ops in hist:
                fresh = ops[0] == "fresh"
                ops = ops[1:] if fresh else ops
                R.tick({"file_sizes": list(sizes), "isz": isz, "fresh_reader": fresh, "ops": ops[:12]})
                R.case(("scale", isz, tuple(ops[:6]), fresh), regime="scale")
                fr = open_reader(paths, hdrs, datas, nbits)
                fr.seek(0, 0) if not fresh else None
                res = impl_run(fr, ops); fr.close()
                p = 0
                for k, (o, (kind, got, pos)) in enumerate(zip(ops, res)):
                    op, arg = o[0], o[1]
                    ek, eb, ep = spec_step(flat, isz, p, op, arg)
                    if kind != ek or (ek == 1 and got != eb) or (ep is not None and pos != ep):
                        first = next((i for i in range(min(len(got), len(eb))) if got[i] != eb[i]), min(len(got), len(eb))) if ek == 1 and kind == 1 else None
                        R.fail("scale-stream", f"at-scale history: step {k} {op}({arg}) from position {p}: kind {kind} (expected {ek}), "
                               f"{len(got)} bytes (expected {len(eb)}), first differing byte {first}, position {pos} (expected {ep})",
                               {"file_sizes": list(sizes), "isz": isz, "fresh_reader": fresh, "ops": ops[:k + 1] if k < 20 else ops[:6] + ["..."] + ops[k - 3:k + 1],
                                "data": f"numpy.random.default_rng({R.seed + 202}) stream, see props/c02.py scale()"})
                        break
                    if ep is None:
                        break
                    p = ep
            for pth in paths:
                os.remove(pth)
        # ---- read_block of more than 2**22 items across a file boundary (8-bit, 64 channels; data sections written with numpy) ----
        from sigpyproc.readers import FilReader
        nch, N, split = 64, 140_000, 66_001
        x = nprng.integers(0, 256, (N, nch), dtype=np.uint8)
        fil = FilReader(write_raw_set(os.path.join(d, "bigrb"), x, 8, [split]))
        for start, ns in ((0, N), (100, N - 1000), (split - 1, 2), (split - 70_000, 70_001), (1, N), (N - 5, 6)):
            inr = start >= 0 and start + ns <= N
            case = {"nbits": 8, "nchans": nch, "N": N, "split": split, "start": start, "nsamps": ns,
                    "data": f"numpy.random.default_rng({R.seed + 202}) stream, see props/c02.py scale()"}
            R.tick(case)
            R.case(("scale-rb", start, ns), regime="scale_read_block")
            try:
                b = fil.read_block(start, ns)
                if not inr:
                    R.fail("scale-read_block", "at-scale out-of-range read_block did not raise ValueError", case)
                elif b.data.shape != (nch, ns) or not np.array_equal(np.asarray(b.data).T, x[start:start + ns]):
                    R.fail("scale-read_block", "at-scale read_block differs from the model slice", case)
            except ValueError:
                if inr:
                    R.fail("scale-read_block", "at-scale in-range read_block raised ValueError", case)
            except Exception as e:  # noqa: BLE001
                R.fail("scale-read_block", f"at-scale read_block raised {type(e).__name__}", case)
    finally:
        shutil.rmtree(d, ignore_errors=True)
